"""usage: try_overlay.py <seed-name> <Cnn>... - run quick checks on an overlay of the stored patch (never touches /repo, writes no evidence)."""
import sys
from pathlib import Path

sys.path.insert(0, str(Path(__file__).resolve().parent.parent))
from sa import selftest  # noqa: E402

seed = sys.argv[1]
patch = str(Path(__file__).resolve().parent.parent / "seeded" / seed / "patch.diff")
for prop in sys.argv[2:]:
    r = selftest.run_variant(selftest.SeedVariant(prop, seed, patch))
    print(seed, prop, r.get("status"), "exit=", r.get("exit"), r.get("rules"), r.get("first", "")[:220])
