#!/bin/bash
# run the quick tier of every property in parallel; print one line each; exit non-zero if any check does
cd /verif; rc=0; tmp=$(mktemp -d)
for n in $(seq -w 1 20); do ( /venv/bin/python sa/check.py C$n > $tmp/C$n.log 2>&1; echo $? > $tmp/C$n.rc ) & done; wait
for n in $(seq -w 1 20); do r=$(cat $tmp/C$n.rc); [ "$r" != 0 ] && rc=1; echo "C$n exit=$r $(head -1 $tmp/C$n.log | cut -c1-120)"; done
rm -rf $tmp; exit $rc
