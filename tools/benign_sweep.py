import sys, json
sys.path.insert(0,'/verif')
from pathlib import Path
from concurrent.futures import ProcessPoolExecutor
def one(a):
    d,prop=a
    from sa import selftest
    r=selftest.run_variant(selftest.SeedVariant(prop,d,str(Path('/verif/benign')/d/'patch.diff')))
    return d,prop,r.get('status'),r.get('exit'),r.get('rules'),r.get('first','')[:160]
if __name__=="__main__":
    props=sys.argv[1:]
    jobs=[(d.name,p) for p in props for d in sorted(Path('/verif/benign').glob(f'{p}-b*')) if (d/'patch.diff').exists()]
    with ProcessPoolExecutor(16) as ex:
        for r in ex.map(one,jobs):
            if r[3]!=0: print("ALARM",r)
    print("done",len(jobs))
