#!/bin/bash
# run the thorough tier of every property (4 at a time: the heavy ones use up to 16 processes themselves); one line each
cd /verif; tmp=$(mktemp -d); rc=0
run() { local n=$1; s=$(date +%s); /venv/bin/python sa/check.py C$n --tier thorough > $tmp/C$n.log 2>&1; echo "$? $(( $(date +%s) - s ))" > $tmp/C$n.rc; }
for grp in "06 01 16 12" "02 03 07 10" "17 18 11 08" "04 05 09 13" "14 15 19 20"; do for n in $grp; do run $n & done; wait; done
for n in $(seq -w 1 20); do read r t < $tmp/C$n.rc; [ "$r" != 0 ] && rc=1; echo "C$n exit=$r ${t}s $(grep -c '^VIOLATION' $tmp/C$n.log) violations $(grep -m1 'ANALYSIS-ERROR\|self-test' $tmp/C$n.log | cut -c1-150)"; done
[ $rc != 0 ] && cp -r $tmp /tmp/wt/thorough_logs
rm -rf $tmp; exit $rc
