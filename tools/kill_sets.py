"""usage: kill_sets.py Cnn  - for every mutant of the property (hand-written variants and stored seeds): which rules report it.
Used when a rule is re-expressed or retired: a mutant reported only by that rule shows what the replacement has to decide."""
import sys
from concurrent.futures import ProcessPoolExecutor
from pathlib import Path

sys.path.insert(0, str(Path(__file__).resolve().parent.parent))
from sa.selftest import load_variants, run_variant  # noqa: E402

if __name__ == "__main__":
    prop = sys.argv[1]
    vs = load_variants(prop)
    with ProcessPoolExecutor(max_workers=16) as ex:
        rs = list(ex.map(run_variant, vs))
    for r in rs:
        print(f"{r['status']:5} exit={r.get('exit')} {r['name'][:70]:70} {sorted(set(r.get('rules') or []))}")
