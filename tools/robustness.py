"""Behaviour-preserving rewrites of the whole source tree, fed to every check as an overlay: any violation or analysis error is a false alarm.

usage: robustness.py [reformat|rename-locals|both|suppress-to-try|invert-if|all] [props...]

reformat       every module re-emitted by ast.unparse (comments gone, layout and quoting changed, line numbers shifted)
rename-locals  every local variable of every function (assigned there, not a parameter, not global/nonlocal, not used by a nested scope) gets a
               new name, consistently inside that function
"""

from __future__ import annotations

import ast
import sys
from concurrent.futures import ProcessPoolExecutor
from pathlib import Path

VERIF = Path(__file__).resolve().parent.parent
sys.path.insert(0, str(VERIF))
REPO = Path("/repo")


class _Locals(ast.NodeVisitor):
    """Names that are plain locals of one function: stored there, and never referenced by a nested function / lambda / comprehension / class."""

    def __init__(self, fn: ast.AST) -> None:
        self.fn = fn
        self.stored: set[str] = set()
        self.blocked: set[str] = set()
        a = fn.args  # type: ignore[attr-defined]
        self.params = {x.arg for x in (*a.posonlyargs, *a.args, *a.kwonlyargs)} | {x.arg for x in (a.vararg, a.kwarg) if x}
        for st in fn.body:  # type: ignore[attr-defined]
            self.visit(st)

    def visit_Name(self, n: ast.Name) -> None:  # noqa: N802
        if isinstance(n.ctx, (ast.Store, ast.Del)):
            self.stored.add(n.id)

    def visit_Global(self, n: ast.Global) -> None:  # noqa: N802
        self.blocked |= set(n.names)

    visit_Nonlocal = visit_Global  # noqa: N815

    def _nested(self, n: ast.AST) -> None:
        for x in ast.walk(n):
            if isinstance(x, ast.Name):
                self.blocked.add(x.id)
            elif isinstance(x, ast.arg):
                self.blocked.add(x.arg)

    visit_FunctionDef = visit_AsyncFunctionDef = visit_Lambda = visit_ClassDef = _nested  # noqa: N815
    visit_ListComp = visit_SetComp = visit_DictComp = visit_GeneratorExp = _nested  # noqa: N815

    def visit_ExceptHandler(self, n: ast.ExceptHandler) -> None:  # noqa: N802
        if n.name:
            self.blocked.add(n.name)
        self.generic_visit(n)

    def visit_MatchAs(self, n: ast.AST) -> None:  # noqa: N802
        self.blocked.add(getattr(n, "name", None) or "")

    def result(self) -> set[str]:
        return {n for n in self.stored - self.blocked - self.params if not n.startswith("__")}


class _Rename(ast.NodeTransformer):
    def __init__(self, mapping: dict[str, str]) -> None:
        self.mapping = mapping

    def visit_Name(self, n: ast.Name) -> ast.AST:  # noqa: N802
        if n.id in self.mapping:
            return ast.copy_location(ast.Name(id=self.mapping[n.id], ctx=n.ctx), n)
        return n

    def visit_FunctionDef(self, n: ast.AST) -> ast.AST:  # noqa: N802
        return n  # nested scopes are left alone (their free names were excluded from the mapping)

    visit_AsyncFunctionDef = visit_Lambda = visit_ClassDef = visit_FunctionDef  # noqa: N815
    visit_ListComp = visit_SetComp = visit_DictComp = visit_GeneratorExp = visit_FunctionDef  # noqa: N815


def rename_locals(tree: ast.Module) -> int:
    count = 0
    for fn in [n for n in ast.walk(tree) if isinstance(n, (ast.FunctionDef, ast.AsyncFunctionDef))]:
        names = _Locals(fn).result()
        if not names:
            continue
        mapping = {n: f"{n}_rn" for n in names}
        rn = _Rename(mapping)
        fn.body = [rn.visit(st) for st in fn.body]
        count += len(mapping)
    return count


class _SuppressToTry(ast.NodeTransformer):
    """`with suppress(A, B): body`  ->  `try: body / except (A, B): pass` (same behaviour, the other common spelling)."""

    count = 0

    def visit_With(self, n: ast.With) -> ast.AST:  # noqa: N802
        self.generic_visit(n)
        if len(n.items) == 1 and n.items[0].optional_vars is None and isinstance(n.items[0].context_expr, ast.Call) \
                and isinstance(n.items[0].context_expr.func, ast.Name) and n.items[0].context_expr.func.id == "suppress" and not n.items[0].context_expr.keywords:
            args = n.items[0].context_expr.args
            typ = args[0] if len(args) == 1 else ast.Tuple(elts=list(args), ctx=ast.Load())
            type(self).count += 1
            return ast.copy_location(ast.Try(body=n.body, handlers=[ast.ExceptHandler(type=typ, name=None, body=[ast.Pass()])], orelse=[], finalbody=[]), n)
        return n


class _InvertIf(ast.NodeTransformer):
    """`if c: A else: B`  ->  `if not c: B else: A` (for plain if/else, not elif chains)."""

    count = 0

    def visit_If(self, n: ast.If) -> ast.AST:  # noqa: N802
        self.generic_visit(n)
        if n.orelse and not (len(n.orelse) == 1 and isinstance(n.orelse[0], ast.If)) and not any(isinstance(x, ast.NamedExpr) for x in ast.walk(n.test)):
            type(self).count += 1
            test = n.test.operand if isinstance(n.test, ast.UnaryOp) and isinstance(n.test.op, ast.Not) else ast.UnaryOp(op=ast.Not(), operand=n.test)
            return ast.copy_location(ast.If(test=test, body=n.orelse, orelse=n.body), n)
        return n


def build_overlay(mode: str) -> dict[str, str]:
    overlay: dict[str, str] = {}
    total = 0
    for path in sorted((REPO / "src" / "_griffe").rglob("*.py")):
        rel = str(path.relative_to(REPO))
        tree = ast.parse(path.read_text(encoding="utf8"))
        if mode in ("rename-locals", "both", "all"):
            total += rename_locals(tree)
        if mode in ("suppress-to-try", "all"):
            tree = _SuppressToTry().visit(tree)
        if mode in ("invert-if", "all"):
            tree = _InvertIf().visit(tree)
        ast.fix_missing_locations(tree)
        text = ast.unparse(tree) + "\n"
        compile(text, rel, "exec", dont_inherit=True)
        overlay[rel] = text
    print(f"overlay: {len(overlay)} modules re-emitted, {total} local variables renamed, {_SuppressToTry.count} suppress blocks turned into try/except, {_InvertIf.count} if/else inverted")
    return overlay


def _run(arg: tuple[str, dict[str, str]]) -> tuple[str, int, list[str]]:
    prop, overlay = arg
    from sa import check
    from sa.srcmodel import AnalysisError

    try:
        code, ctx = check.run_property(prop, "quick", overlay, emit=False)
        new = ctx.analysed.get("_new", [])
        return prop, code, [f"{o.rule} {o.key[:90]} :: {o.what[:110]}" for o in new[:4]]
    except AnalysisError as exc:
        return prop, 2, [f"ANALYSIS-ERROR {exc}"]


def main() -> int:
    mode = sys.argv[1] if len(sys.argv) > 1 else "both"
    props = sys.argv[2:] or [f"C{n:02d}" for n in range(1, 21)]
    overlay = build_overlay(mode)
    with ProcessPoolExecutor(max_workers=16) as ex:
        results = list(ex.map(_run, [(p, overlay) for p in props]))
    bad = 0
    for prop, code, lines in results:
        print(f"{prop} exit={code}")
        for ln in lines:
            print("    ", ln)
        bad += code != 0
    print(f"{bad} of {len(results)} checks are not silent on the behaviour-preserving rewrite ({mode})")
    return 1 if bad else 0


if __name__ == "__main__":
    sys.exit(main())
