"""Re-run every stored seeded change against the current /repo tree and all claimed checks; write seeded/MATRIX.md (+ matrix.json).

For each seeded/<name>/patch.diff: a scratch worktree of /repo's HEAD (under the system temp directory, removed afterwards), `git apply` there, the
quick tier of all claimed properties run against it (VERIF_REPO); /repo itself is never touched.  Refuses to start when /repo has local
modifications (the worktrees are taken from HEAD).  Evidence files are restored from a clean run at the end.
"""

from __future__ import annotations

import json
import subprocess
import sys
from concurrent.futures import ThreadPoolExecutor
from pathlib import Path

VERIF = Path(__file__).resolve().parent.parent
REPO = Path("/repo")
PY = "/venv/bin/python"


def sh(cmd: list[str], cwd: Path | None = None) -> subprocess.CompletedProcess:
    return subprocess.run(cmd, cwd=cwd, capture_output=True, text=True, timeout=1800, check=False)


def run_checks(claimed: list[str]) -> dict[str, tuple[int, list[str]]]:
    def one(p: str) -> tuple[str, int, list[str]]:
        r = sh([PY, "sa/check.py", p], cwd=VERIF)
        lines = [l.strip() for l in r.stdout.splitlines() if l.startswith(("  rule ", "ANALYSIS-ERROR"))]
        return p, r.returncode, lines[:3]

    with ThreadPoolExecutor(max_workers=16) as ex:
        return {p: (c, l) for p, c, l in ex.map(one, claimed)}


def main() -> int:
    only = set(sys.argv[1:])
    if sh(["git", "-C", str(REPO), "status", "--porcelain"]).stdout.strip():
        print("refusing: /repo has local modifications")
        return 2
    claimed = [c["property_id"] for c in json.loads((VERIF / "MANIFEST.json").read_text())["checks"]]
    clean = run_checks(claimed)
    noisy = {p: c for p, (c, _l) in clean.items() if c != 0}
    if noisy:
        print("clean tree is not silent:", noisy)
        return 2
    rows = []
    seeds = sorted(d for d in (VERIF / "seeded").iterdir() if d.is_dir() and (d / "patch.diff").exists() and (not only or d.name in only))
    # each seed is applied in its own scratch worktree (outside /repo and /verif, removed afterwards) and the checks read that tree through
    # VERIF_REPO; a few seeds run side by side so that the cores are not idle while the slowest check of one seed finishes
    import os
    import shutil
    import tempfile

    scratch = Path(tempfile.mkdtemp(prefix="verif-matrix-"))

    def one_seed(d: Path) -> dict:
        meta = json.loads((d / "meta.json").read_text())
        row = {"seed": d.name, "property": meta["property"], "summary": meta.get("summary", "")}
        wt = scratch / d.name
        sh(["git", "-C", str(REPO), "worktree", "add", "--detach", str(wt), "HEAD"])
        try:
            a = sh(["git", "-C", str(wt), "apply", str(d / "patch.diff")])
            row["applies"] = a.returncode == 0
            if a.returncode == 0:
                env = dict(os.environ, VERIF_REPO=str(wt))

                def one(p: str) -> tuple[str, int, list[str]]:
                    r = subprocess.run([PY, "sa/check.py", p], cwd=VERIF, capture_output=True, text=True, timeout=3600, check=False, env=env)
                    lines = [l.strip() for l in r.stdout.splitlines() if l.startswith(("  rule ", "ANALYSIS-ERROR"))]
                    return p, r.returncode, lines[:3]

                with ThreadPoolExecutor(max_workers=8) as ex:
                    res = {p: (c, l) for p, c, l in ex.map(one, claimed)}
                row["fired"] = {p: {"exit": c, "first": l[:1]} for p, (c, l) in res.items() if c != 0}
        finally:
            sh(["git", "-C", str(REPO), "worktree", "remove", "--force", str(wt)])
        own = row.get("fired", {}).get(row["property"], {}).get("exit")
        row["own"] = own == 1
        print(d.name, "applies" if row["applies"] else "STALE", "own-property" if row["own"] else "-", sorted(row.get("fired", {})), flush=True)
        return row

    try:
        with ThreadPoolExecutor(max_workers=int(os.environ.get("VERIF_MATRIX_JOBS", "3"))) as pool:
            rows = list(pool.map(one_seed, seeds))
    finally:
        sh(["git", "-C", str(REPO), "worktree", "prune"])
        shutil.rmtree(scratch, ignore_errors=True)
    run_checks(claimed)  # restore evidence from the clean tree
    if only:
        # re-evaluated seeds replace their rows in the stored matrix
        fresh = {r["seed"]: r for r in rows}
        rows = [fresh.pop(r["seed"], r) for r in json.loads((VERIF / "seeded" / "matrix.json").read_text())] + list(fresh.values())
        rows.sort(key=lambda r: r["seed"])
    if True:
        (VERIF / "seeded" / "matrix.json").write_text(json.dumps(rows, indent=1))
        head = sh(["git", "-C", str(REPO), "log", "--format=%h", "-1"]).stdout.strip()
        out = [f"# Seeded changes x checks (quick tier), /repo at {head}", "",
               "Each row: an independently written change that breaks the property while the test suite stays green (confirmed in a scratch worktree).",
               "`own` = reported (exit 1) by the check of the property it was written against; `others` = further checks that exit 1; `errors` = checks that "
               "exit 2 (analysis refused: the changed code left the modelled fragment - never a silent pass).", "",
               "| seed | own | rule(s) of the own check | others | errors |", "|---|---|---|---|---|"]
        for r in rows:
            if not r["applies"]:
                out.append(f"| {r['seed']} | n/a | patch no longer applies to the current tree | | |")
                continue
            f = r.get("fired", {})
            ownrules = ""
            if r["own"]:
                first = f[r["property"]]["first"]
                ownrules = first[0].split(" violated")[0].replace("rule ", "") if first else ""
            others = ", ".join(sorted(p for p, v in f.items() if v["exit"] == 1 and p != r["property"]))
            errs = ", ".join(sorted(p for p, v in f.items() if v["exit"] == 2))
            out.append(f"| {r['seed']} | {'yes' if r['own'] else '**no**'} | {ownrules} | {others} | {errs} |")
        n = [r for r in rows if r["applies"]]
        out += ["", f"{sum(r['own'] for r in n)} of {len(n)} applicable changes are reported by their own property's check; "
                    f"{sum(bool(r.get('fired')) for r in n)} of {len(n)} by at least one check."]
        (VERIF / "seeded" / "MATRIX.md").write_text("\n".join(out) + "\n")
    return 0


if __name__ == "__main__":
    sys.exit(main())
