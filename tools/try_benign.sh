#!/bin/bash
# usage: tools/try_benign.sh <benign-name> <prop>...   - scratch worktree of /repo with the stored behaviour-preserving patch, run the given quick checks on it (VERIF_REPO)
# the worktree /tmp/wt/bn/<name> is kept for repeated runs; remove with: tools/try_benign.sh --clean
cd /verif
if [ "$1" = "--clean" ]; then for d in /tmp/wt/bn/*; do [ -d "$d" ] && git -C /repo worktree remove --force $d; done; git -C /repo worktree prune; exit 0; fi
s=$1; shift
wt=/tmp/wt/bn/$s
if [ ! -d $wt ]; then mkdir -p /tmp/wt/bn; git -C /repo worktree add --detach $wt HEAD >/dev/null 2>&1; git -C $wt apply /verif/benign/$s/patch.diff || exit 3; fi
for p in "$@"; do
  out=$(VERIF_REPO=$wt /venv/bin/python sa/check.py $p 2>&1); rc=$?
  echo "$s $p exit=$rc"; echo "$out" | grep '^  rule\|^ANALYSIS' | cut -c1-400 | head -${LINES_MAX:-6}
done
