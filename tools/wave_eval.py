"""Confirm and evaluate freshly written seeded changes without touching /repo.

usage: wave_eval.py <out-root> <m-number> [Cnn ...]      e.g. wave_eval.py /tmp/wt/out 12
For every <out-root>/<Cnn>/m<k>/ (patch.diff, demo.py, meta.json):
  1. confirmation in a scratch worktree /tmp/wt/confirm-<Cnn> of /repo's HEAD (demo 0 clean / 1 patched, suite green with the patch),
  2. all 20 quick checks on an overlay of the patched files (sa.selftest's seed overlay; no evidence written, /repo untouched).
Prints one JSON line per change; with --store copies confirmed ones to seeded/<Cnn>-m<k>/ with the usual meta fields.
"""

from __future__ import annotations

import json
import os
import shutil
import subprocess
import sys
from concurrent.futures import ProcessPoolExecutor, ThreadPoolExecutor
from pathlib import Path

VERIF = Path(__file__).resolve().parent.parent
sys.path.insert(0, str(VERIF))
REPO = Path("/repo")
PY = "/venv/bin/python"
PROPS = [f"C{n:02d}" for n in range(1, 21)]


def sh(cmd, cwd=None, env=None, timeout=900):
    e = dict(os.environ)
    if env:
        e.update(env)
    return subprocess.run(cmd, cwd=cwd, env=e, capture_output=True, text=True, timeout=timeout, check=False)


def confirm(d: Path) -> dict:
    prop = d.parent.name
    wt = Path(f"/tmp/wt/confirm-{prop}")
    out: dict = {"name": f"{prop}-{d.name}"}
    if wt.exists():
        sh(["git", "-C", str(REPO), "worktree", "remove", "--force", str(wt)])
    sh(["git", "-C", str(REPO), "worktree", "add", "--detach", str(wt), "HEAD"])
    try:
        out["demo_clean_exit"] = sh([PY, str(d / "demo.py"), str(wt)]).returncode
        a = sh(["git", "-C", str(wt), "apply", str(d / "patch.diff")])
        if a.returncode != 0:
            out["apply_err"] = a.stderr[-300:]
            return out
        r = sh([PY, str(d / "demo.py"), str(wt)])
        out["demo_patched_exit"] = r.returncode
        out["demo_patched_out"] = (r.stdout + r.stderr)[-300:]
        t = sh([PY, "-m", "pytest", "-q", "-p", "no:cacheprovider", "-p", "no:randomly", "-x", "-q"], cwd=wt, env={"PYTHONPATH": str(wt / "src")})
        out["suite_exit"] = t.returncode
        out["suite_tail"] = t.stdout.strip().splitlines()[-1:] if t.stdout else []
    finally:
        sh(["git", "-C", str(REPO), "worktree", "remove", "--force", str(wt)])
    out["confirmed"] = out.get("demo_clean_exit") == 0 and out.get("demo_patched_exit") == 1 and out.get("suite_exit") == 0
    return out


def one_check(args: tuple[str, str]) -> tuple[str, str, dict]:
    patch, prop = args
    from sa import selftest

    r = selftest.run_variant(selftest.SeedVariant(prop, patch, patch))
    return patch, prop, r


def main() -> int:
    root = Path(sys.argv[1])
    k = sys.argv[2]
    store = "--store" in sys.argv
    only = [a for a in sys.argv[3:] if a.startswith("C")]
    dirs = [root / p / f"m{k}" for p in PROPS if (root / p / f"m{k}" / "patch.diff").exists() and (not only or p in only)]
    with ThreadPoolExecutor(max_workers=8) as ex:
        conf = dict(zip([str(d) for d in dirs], ex.map(confirm, dirs)))
    jobs = [(str(d / "patch.diff"), p) for d in dirs for p in PROPS]
    fired: dict[str, dict[str, list]] = {str(d): {} for d in dirs}
    with ProcessPoolExecutor(max_workers=16) as ex:
        for patch, prop, r in ex.map(one_check, jobs):
            if r.get("exit", 0) != 0 or r["status"] == "stale":
                fired[str(Path(patch).parent)][prop] = [f"exit={r.get('exit')}", *r.get("rules", []), r.get("first", "")[:200]]
    for d in dirs:
        prop = d.parent.name
        c = conf[str(d)]
        f = fired[str(d)]
        c["checks_fired"] = f
        c["detected_by_own_property"] = prop in f and f[prop][0] == "exit=1"
        print(json.dumps(c))
        if store and c.get("confirmed"):
            dst = VERIF / "seeded" / f"{prop}-m{k}"
            dst.mkdir(parents=True, exist_ok=True)
            for fn in ("patch.diff", "demo.py"):
                shutil.copy(d / fn, dst / fn)
            meta = json.loads((d / "meta.json").read_text())
            meta.update({"confirmed": {x: c[x] for x in ("demo_clean_exit", "demo_patched_exit", "suite_exit")},
                         "ran": [f"{PY} demo.py <worktree> (clean -> 0, patched -> 1)",
                                 "PYTHONPATH=<worktree>/src /venv/bin/python -m pytest -q -p no:cacheprovider -p no:randomly -x (patched -> pass)",
                                 "tools/wave_eval.py: every claimed property's quick check on an overlay of the patched files"],
                         "checks_fired_at_first_evaluation": f, "detected_by_own_property_at_first_evaluation": c["detected_by_own_property"]})
            (dst / "meta.json").write_text(json.dumps(meta, indent=1))
    return 0


if __name__ == "__main__":
    sys.exit(main())
