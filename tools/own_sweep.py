"""Every stored seeded change against its own property's quick check, on overlays, 16 wide (the seed half of the thorough-tier self-tests, in about three minutes).
Prints the seeds that are not reported (exit 1) and are not listed in NOT_OWN.json / UNDETECTED.json; exit 1 if there is one."""
import json
import sys
from concurrent.futures import ProcessPoolExecutor
from pathlib import Path

ROOT = Path(__file__).resolve().parent.parent
sys.path.insert(0, str(ROOT))


def one(name: str) -> tuple[str, dict]:
    from sa import selftest

    return name, selftest.run_variant(selftest.SeedVariant(name.split("-")[0], name, str(ROOT / "seeded" / name / "patch.diff")))


if __name__ == "__main__":
    skip = {**json.loads((ROOT / "seeded/NOT_OWN.json").read_text()), **json.loads((ROOT / "seeded/UNDETECTED.json").read_text())}
    only = sys.argv[1:]
    names = [d.name for d in sorted((ROOT / "seeded").glob("C*-m*")) if (d / "patch.diff").exists() and d.name not in skip and (not only or d.name.split("-")[0] in only)]
    bad = 0
    with ProcessPoolExecutor(16) as ex:
        for name, r in ex.map(one, names):
            if r.get("exit") != 1:
                bad += 1
                print("NOT REPORTED", name, r.get("status"), r.get("exit"), r.get("first", "")[:160])
    print(f"{len(names)} seeds, {bad} not reported by their own property's check")
    sys.exit(1 if bad else 0)
