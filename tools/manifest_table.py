# Table consumed by tools/gen_manifest.py (claim(...) / NOT_YET[...]).
TB = "python ast + sa/ engine (own CFG, call graph, abstract evaluator) + reference tables in sa/rules with their citations"
claim(
    "C20",
    "typestate / must-pass-through on the statement CFG (acquire-release pairing incl. exceptional exits), "
    "effect ownership (subprocess whitelist), call-graph reachability (no file read behind Object.lines)",
    "Structural necessary conditions of C20 decided on every path of the current source: temporary worktree and branch are "
    "released on all exits with the acquire's own operands, cleanup is forced, only whitelisted git sub-commands are ever "
    "spawned and only from git.py, loads happen inside the context manager, and source lines are served from memory. "
    "Does not decide behaviour under interruption between `add` returning and the try being entered.",
    TB + "; cleanup statements in the finally block are assumed not to raise (they run with check=False)",
)
claim(
    "C15",
    "effect ownership (sink inventory), guarded call-graph reachability with constant propagation of the inspection flags, "
    "typestate of sys.path on the CFG, handler tables (exception discipline)",
    "On every call path of the current source: with allow_inspection=force_inspection=False no path from the loader entry "
    "points reaches dynamic_import, the inspector or any code-executing call; such calls exist only at two tabled owner sites; "
    "every compile() is AST-only; sys.path is replaced only inside a save/replace/restore context manager whose restore runs on "
    "every exit; failure types are mapped as documented. This is the whole mechanism behind C15, not a sample of loads.",
    TB + "; extension loading (user-supplied extension modules) is cut from the reachability with the reason tabled in the rule; "
    "by-name CHA over-approximates callees",
)
for _p in [f"C{n:02d}" for n in range(1, 20) if f"C{n:02d}" not in CLAIMED]:
    NOT_YET[_p] = "check under construction in this round (static rules designed in DESIGN.md section 3; not yet registered)"
