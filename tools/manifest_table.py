# Table consumed by tools/gen_manifest.py (claim(...) / NOT_YET[...]).
TB = "python ast + sa/ engine (own CFG, call graph, abstract evaluator) + reference tables in sa/rules with their citations"
claim(
    "C20",
    'typestate / must-pass-through on the statement CFG (acquire-release pairing incl. exceptional exits, no release after a failed '
    'acquire), effect ownership (subprocess whitelist), call-graph reachability (no file read behind Object.lines); spawn sites in private helpers of the git module are lifted to the helpers\' call sites; cli.check evaluated with recording stand-ins',
    'Structural necessary conditions of C20 decided on every path of the current source: temporary worktree and branch are released on '
    "all exits after a successful acquire with the acquire's own operands and never after a failed one, cleanup is forced, only "
    'whitelisted git sub-commands are ever spawned and only from git.py, loads happen inside the context manager, and source lines are '
    'served from memory. Does not decide behaviour under interruption between `add` returning and the try being entered.',
    TB + '; cleanup statements in the finally block are assumed not to raise (they run with check=False)',
)
claim(
    "C15",
    'effect ownership (sink inventory), guarded call-graph reachability with constant propagation of the inspection flags, typestate of '
    'sys.path on the CFG including local aliases of the list object, handler tables (exception discipline); GriffeLoader._load_module evaluated with the loading step raising each failure',
    'On every call path of the current source: with allow_inspection=force_inspection=False no path from the loader entry points '
    'reaches dynamic_import, the inspector or any code-executing call; such calls exist only at tabled owner sites; every compile() is '
    'AST-only; sys.path is replaced only inside a save/replace/restore context manager whose restore runs on every exit, and no name '
    'that may hold the sys.path object itself is mutated; failure types are mapped as documented. This is the whole mechanism behind '
    'C15, not a sample of loads.',
    TB + '; extension loading (user-supplied extension modules) is cut from the reachability with the reason tabled in the rule; by-name CHA over-approximates callees',
)
claim(
    "C06",
    "typestate on call-graph cycles (visited-set guard / re-entrancy flag pairing on the CFG), exception-flow analysis "
    "(may-raise summaries over the call graph, hierarchy-aware handlers) for alias dereference sites, interprocedural through private helpers (every call site must discharge the site); "
    "bounded-exhaustive abstract evaluation of griffe's own code (the checker's evaluator interprets the ASTs of the current source on an "
    "enumerated finite domain): Alias.resolve_target / final_target on every alias graph over three names (four in the thorough tier)",
    "Structural reasons behind C06 decided on every path: each recursion that walks the import/alias/inheritance graph is cut by a "
    "membership test + insertion on the same key and collection (or the re-entrancy flag, reset in a finally; Class.mro on five cycle shapes by evaluation); "
    "only the two alias error types are raised; every dereference of a possibly-alias "
    "member in loader/merger/set_member is guarded, de-aliased, handled for both errors, or sits in a private helper all of whose call sites do so. "
    "The fixpoint loop of resolve_aliases is decided on behaviour with a recording load(): failures remembered, stops when a pass changes nothing, max_iterations, "
    "`external` in its three values, a loaded package that imports from another one, a private sibling that star-imports back. "
    "Decided on every graph of real objects, imports of each other / of themselves / of something missing and aliases created already "
    "linked (as wildcard expansion does), under every order of resolve_target() calls (610 histories quick, about 17000 thorough): only "
    "the two alias errors are raised, a call that returns leaves the whole chain resolved, a call that raises leaves the alias unresolved, "
    "a chain that reaches an object resolves, a second pass changes nothing, evaluation stays within step and depth budgets. Graphs over "
    "more names are not decided. Also decided: every package of two modules (three in the thorough tier, 16000 packages) in which each "
    "module defines, imports or lacks a name and may star-import a sibling or itself goes through expand_exports, expand_wildcards and two "
    "rounds of resolve_aliases without raising, the second round changes nothing, and no imported alias is left resolved with an "
    "unresolvable chain, resolve_aliases hands back exactly the imports that cannot be resolved, star imports through another name of a module "
    "work, target paths may run through other aliases; no recursion between properties passes through an alias proxy; the dataclasses extension (run by load()) "
    "dereferences no possibly-alias member unguarded. Several packages loaded in different orders are not decided; external loads only through the ten rows above.",
    TB + "; tabled dereference exceptions each carry a reason in sa/rules/C06.py",
)
claim(
    "C16",
    "bounded-exhaustive abstract evaluation of griffe's own code (the checker's evaluator interprets the ASTs of the current source on "
    'an enumerated finite domain): every operation sequence up to the bound (20 operations: moving a subtree, set / delete by name, dotted path, tuple '
    'and item syntax, with objects, aliases, dangling and self-targeting aliases, alias resolution) on a universe built with the '
    "models' own constructors, against a dictionary model; effect ownership of members stores (through private helpers of the mixins module)",
    'Decided after every history of up to 2 operations (3 in the thorough tier, 4368 histories): no operation raises except KeyError '
    "for a key the model lacks, every member's parent is its container, dotted / tuple / chained lookups return the model's object, "
    'deleted members are gone, aliases registered on a replaced object follow the replacement, every resolved alias is listed by its '
    'target (at the end of a chain of aliases too) under its current path, no alias targets itself; a module replaced by its stubs counterpart (either order, in a collection or a package) keeps the aliases registered on it; an alias moved to another container or created with its target object is listed under its new path; `alias.target = ` itself / another object at its own path is refused and leaves the alias as it was; a portion of a namespace (sub-)package is replaced, not merged; empty keys are rejected by all six operations. Plus structurally: members stores only in the mixins (or their private helpers). Not decided: longer histories, random ones.',
    TB + '; the universe: a collection, two modules, a class, a function, an attribute, two aliases and an alias of an alias',
)
claim(
    "C10",
    "finite-domain abstract evaluation of the rule set's AST (own evaluator, no griffe code runs) into a decision table over abstract "
    "signatures (name x kind x default atom), compared with a reference table derived from CPython's binder on synthesised signatures",
    "The decision table of the parameter-breakage rule set is total over all abstract signature pairs with up to one (quick) / two "
    "(thorough, 37k pairs) parameters: silence on identity, soundness of every yield, always-reported changes, and completeness against "
    "the calling convention (every call shape up to arity+1 with every keyword subset). Any logically equivalent rewrite of the conditions "
    "passes; any changed row is the witness. Every one-parameter transition is also decided with `*args, **kwargs` next to the regular "
    "parameters; the Parameters container answers membership and lookups from its current contents after every history of up to three "
    "additions, replacements and deletions. Other interplays of three or more parameters and expression-valued defaults are outside the domain.",
    TB + "; CPython's own function-call binder is the reference for 'binds'; variadics carry the marker defaults griffe's agents store",
)
claim(
    "C01",
    "bounded-exhaustive abstract evaluation of griffe's own code (the checker's evaluator interprets the ASTs of the current source on "
    'an enumerated finite domain): the whole visitor on generated modules; typestate of the extension-event protocol on the statement '
    'CFG; decision tables of the visibility predicates and of get_docstring; dispatch-table agreement; exception-flow analysis of the '
    'node-kind lookup tables',
    'Decided for about 830 generated modules (1000+ in the thorough tier): every supported definition (functions, decorated and async '
    'ones, classes, plain / annotated / chained assignments, the four import forms, properties, instance attributes set in __init__) in '
    'every block context (if/else, TYPE_CHECKING guards in both spellings, negated and compound conditions, try/except/else/finally, '
    'for, with, nested combinations) at module and class level, and every ordered pair of definitions of one name with the second one '
    'in a plain or conditional position, and sequences of definitions of the same kind. For each: one member per bound name, kind of the surviving binding under the tie-break, '
    'parent, line span (decorators included) whose Object.lines slice parses back to the definition, decorators and their spans, '
    'docstring text and span, attribute docstrings, runtime flag, and the announcement trace (each object exactly once, parent first, '
    'kind-specific events, members-complete after the last member). Plus: exports equal what the surviving `__all__` statements list, every registered '
    'extension (also one inheriting its hooks) hears every event, handler coverage, the seven visibility predicates on up to '
    '960 abstract states, label tables, no KeyError escape. Not decided: modules beyond two definitions of interest, __all__ '
    'evaluation, totality on arbitrary valid Python.',
    TB + "; the reference for the extraction table is read off the module's syntax tree by sa/tables/extraction.py (ast + the tie-break rule as stated in the property); visibility table transcribed from the is_public docstring / docs/guide/users/navigating.md / Language Reference 7.11",
)
claim(
    "C11",
    "finite-domain abstract evaluation of the member walk (own and inherited members on both sides), of the dispatch / removal / base / value rules into decision "
    "tables and of Breakage.explain on every breakage class x payload x style, alias-dereference exception discipline (exception-flow "
    "summaries, interprocedural through private helpers and module-level dispatch tables) in the walk and in the Breakage helpers, registry agreement, cli.check evaluated with recording stand-ins (36 rows)",
    "Decided: the member walk reports on public old members only and looks members up through all_members on both sides (an inherited member is compared, and is not removed when the new class inherits it too); the type "
    "dispatch table is total and routes alias/kind-mismatch/same-kind cases as documented; removal, base and value rules equal their "
    "tables; no alias error can escape the comparison or the rendering of a breakage reported against an unresolvable re-export (which "
    "names the alias's own public path); an object already compared and reached again through another member is compared against that "
    "member's new object; explain() returns for every class, payload (string or expression bases included) and style; each breakage kind/style has its class/method; the CLI loads old from `against`, "
    "new from `base_ref`/tree, prints every breakage and exits 1 exactly when there is one; is_public equals the documented table. "
    "Silence after arbitrary compatible edit scripts is not decided.",
    TB,
)
claim(
    "C02",
    "bounded-exhaustive abstract evaluation of griffe's own code (the checker's evaluator interprets the ASTs of the current source on "
    "an enumerated finite domain): get_parameters on every parameter-list shape, and the visitor's function handlers on real def nodes "
    'alone and in ordered pairs; table agreement (kind maps); typestate of the overload / setter handling on the CFG',
    'Decided for every parameter list with up to 3 positional-only, 3 positional-or-keyword and 2 keyword-only parameters (4/4/3 '
    'thorough), every default pattern, with and without *args/**kwargs, also with special-looking names (dunder, underscore, self, '
    'args): names, order, kinds, annotation-per-parameter and default-per-parameter equal inspect.signature of the function compiled '
    'from the same text. For nine kinds of definition (async property, async method, property, cached property, method, static / class '
    'method, overloaded function, property with setter, annotated property with setter, lambda defaults): kind, labels, parameters, overloads and setter are as CPython sees them and '
    'are the same alone and after any other definition in the class body (no state leaks between definitions). Plus the lambda consumer of get_parameters on six lambda shapes '
    "and the inspector's kind bijection.",
    TB + "; inspect.signature / real class bodies executed by the rule are synthesised there (never griffe's or an analysed project's code)",
)
claim(
    "C05",
    "bounded-exhaustive abstract evaluation of griffe's own code (the checker's evaluator interprets the ASTs of the current source on "
    'an enumerated finite domain): visit_importfrom on 150+ (module layout, scope, level, module, asname, wildcard) rows against '
    "importlib's resolution; expand_exports on module graphs under every order of the sub-module dictionary; decision tables of "
    'wildcard exposure and overwrite; proxy completeness of Alias (table agreement)',
    'Decided: every `from ... import ...` form binds `asname or name` in the current scope (module or class body) to the path CPython '
    "resolves from the enclosing module, only a self-referential alias is skipped; a module's expanded __all__ equals the list "
    'concatenation Python computes on four module graphs x all traversal orders; is_wildcard_exposed and the overwrite rule equal `from '
    'm import *` semantics on every abstract state, end to end through expand_wildcards with explicit imports before / after and two '
    'wildcards in one module; the imports map records self-pointing imports; every public attribute of the object classes exists on Alias and reads the right '
    'target; __all__ extraction table. Not decided: agreement with a real `import *` on generated packages.',
    TB + '; importlib.util.resolve_name is the reference for relative imports',
)
claim(
    "C08",
    'table agreement between writers and readers (keys per kind, optional vs required, enum rebuild, expression fields); '
    "bounded-exhaustive abstract evaluation of griffe's own code (the checker's evaluator interprets the ASTs of the current source on "
    'an enumerated finite domain): the decoder driven by the real json object hook on a writer-shaped document (scope re-attachment of '
    'every name, dispatch on a dictionary of every kind, members named `kind` / `cls`); the writers brought to a normal form (literal loops unrolled, dict helpers inlined) before their key table is read; cli.dump evaluated with recording stand-ins (12 rows)',
    'Decided: per kind every key the reader requires is written, every key the writer may omit is read optionally, enums are rebuilt, '
    'expression dataclasses round-trip field by field; after a reload every name in bases, decorators, signatures, annotations and '
    'values - at any nesting depth, dotted chains included - is attached to the scope the visitor builds it in; an expression '
    'dictionary carrying `kind` is an expression, members named `kind` or `cls` load; docstrings reload as written, empty ones included; `griffe dump` serialises what was loaded with the requested `full`, sorted keys and JSONEncoder, to stdout, one file or one file per package, whether the packages were named or given by path, and exits 0 when all were loaded. Not decided: equality of arbitrary reloaded trees; full '
    '(non-minimal) dumps are an open finding.',
    TB + '; json.loads with the evaluated json_decoder as object hook',
)
claim(
    "C09",
    "table agreement between docs/schema.json and the full-form JSON writers extracted from the AST: required vs always-written keys "
    "(CFG must-pass under full=True), declared keys, JSON type sets inferred from declared attribute types narrowed by guards, enum "
    "coverage; exception-flow check of the getters the full writer evaluates",
    "Every schema obligation that can be read off the writers is decided for all object kinds, aliases, docstrings, decorators, parameters "
    "and docstring sections: anything the schema requires is always written, anything written is declared, every JSON shape a value can "
    "take is allowed, every section kind the code can emit is listed and is written as the schema's string for each section class; "
    "relative_package_filepath is the path below the top package for every layout the loader builds; the kind of a synthesised dataclass "
    "parameter is a ParameterKind member on every path; Alias.as_dict raises no alias error; relative_filepath follows the working directory; "
    "values and defaults recorded by the inspector are text. Validation of concrete generated "
    "dumps is not performed.",
    TB + "; docs/schema.json is read at run time; provenance tables (decorator linenos, parameter kinds) are verified structurally",
)
claim(
    "C19",
    "store-direction dataflow of the merge functions; bounded-exhaustive abstract evaluation of griffe's own code (the checker's "
    'evaluator interprets the ASTs of the current source on an enumerated finite domain): the member decision table and merge_stubs end '
    "to end on a runtime module and its stubs built with the models' constructors, in both argument orders; alias-dereference analysis "
    '(loads and stores through raising setters) with exception flow',
    'Decided: every store writes into the runtime object from the stubs; per member: stub-only -> added and marked not available at run '
    'time, stub alias on an existing name -> untouched, kind mismatch or unresolvable runtime alias -> skipped without raising, same '
    "kind -> that kind's merge; end to end (either order): the runtime module is returned with annotations and return types from the "
    "stubs, runtime docstrings kept and missing ones - the module's own included - taken from the stubs, runtime-only members kept; no "
    'alias error can escape a merge; a stub definition whose name the stub scope also imports is merged like any other; stubs merged '
    "into an alias reach its target; _load_package expands the runtime module's wildcard imports (private sibling allowed) after loading "
    'it and before loading its stubs, for every layout; a runtime member re-exported through two imports receives the stubs at the end '
    'of the chain; stub overloads go to runtime functions only; a second merge of the same stubs changes nothing; the stubs-only package '
    'is found by the top-level name for dotted object paths.',
    TB + '',
)
claim(
    "C12",
    'loop-progress dataflow with interprocedural reader summaries; index-safety dataflow (`x + s < len(L)`); minimum-length shape '
    'analysis of lists (constant indexes); exception-discipline tables; purity (effect) analysis; regex AST lint; bounded-exhaustive '
    "abstract evaluation of griffe's own code (the checker's evaluator interprets the ASTs of the current source on an enumerated "
    'finite domain): the three parsers on every line sequence up to the bound over an alphabet of 30 line shapes',
    'Decided on every path: each while loop advances its cursor; catalogued partial operations (line indexing, constant indexes into '
    'item lists, annotation elements, docstring.parent chains, member lookups through the parent (everything __getitem__ may raise per the '
    'exception-flow summary, plus alias errors of the member found), split-unpacking, compile incl. unencodable text) cannot raise out of a '
    'parser, and no griffe exception escapes safe_get_expression / parse_docstring_annotation / docstring_warning; every title / '
    'Parser member has a reader; parsers never mutate the docstring or its parent; no pattern nests ambiguous unbounded repeats. '
    'Bounded-exhaustive totality: about 9000 parses per run (all single lines and all pairs of lines after a summary; all sequences up '
    'to 3 lines in the thorough tier) x option sets that switch reader paths x parent kinds return a list of sections without raising, '
    'without modifying the docstring and within a step budget 40x above the observed maximum; parse_docstring_annotation itself evaluated on '
    '29 annotation texts (compilable but not convertible, with every kind of brace) returns without raising. Not decided: resource exhaustion on huge '
    'inputs.',
    TB + '; the alphabet of line shapes is listed in sa/rules/C12.py',
)
claim(
    "C04",
    "finite-domain abstract evaluation of the scope walk (Object/Function.resolve over a nest of module/class/nested class/method scopes), of "
    "ExprName.path/canonical_path, of the relative-import arithmetic (against importlib.util.resolve_name), of visit_importfrom and wildcard "
    "expansion on module layouts, and of the builders on quoted annotations; plus explicit-raise and handler checks and chain-linking "
    "checks on the expression builders",
    "The resolution tables are total over the abstract scope nest x name classes (own member, import, enclosing class member, enclosing object "
    "name, __init__ parameter, unknown, module name) and over (depth, init?, level, module?) for relative imports; they are compared with "
    "Python's scoping rule / importlib. The names inside a quoted annotation are resolved in the scope it is written in and built afresh "
    "for each occurrence; a name resolved once and then re-bound resolves to the new binding; the bases and decorators of a class statement are "
    "evaluated in the scope containing it; a name imported and bound again resolves to the later binding; what follows a call or subscript "
    "never takes the callee's path; an explicit import followed or preceded by wildcard imports binds what CPython binds. Resolution raises only "
    "NameResolutionError and the expression side swallows it. Resolution over "
    "generated multi-module packages is not decided.",
    TB + "; the reference scoping rule is written in the rule module (class scopes do not nest; functions see their class body)",
)
claim(
    "C07",
    "bounded-exhaustive abstract evaluation of griffe's own code (the checker's evaluator interprets the ASTs of the current source on "
    "an enumerated finite domain): Class.mro / c3linear_merge on every hierarchy up to the bound against type()'s MRO; inherited "
    'members; resolved bases; all_members / obj[...] / get_member on a class with inherited and own members; staleness table (derived views re-read after the state changed, with functools memoisation modelled)',
    "Decided: MRO equal to CPython's (or ValueError where CPython refuses) for every hierarchy of up to 4 classes plus the five-class "
    'three-base ones (all of 5 thorough) with every ordered choice of bases, whatever the spelling of the paths; members that are '
    '(un)resolved imports are inherited like definitions; cycles raise and a class without a computable MRO inherits '
    'nothing; the first provider along the MRO wins for inherited members, own members win; '
    'resolved_bases keeps every findable base in order; resolved_bases, mro(), inherited_members and all_members reflect a base loaded '
    'later or a member added later (no memoisation). Not decided: hierarchies of more than 5 classes.',
    TB + "; CPython's type() on classes synthesised by the rule is the reference",
)
claim(
    "C18",
    "bounded-exhaustive abstract evaluation of griffe's own code (the checker's evaluator interprets the ASTs of the current source on "
    "an enumerated finite domain): _set_dataclass_init on every small dataclass definition against dataclasses' own __init__, and the "
    'extension run over packages processed one after the other and over a package with nested / hand-written / plain classes (functools memoisation modelled); load_extensions evaluated on six argument lists; '
    'alias analysis of the memoised list',
    'Decided for 1600 definitions (two fields x 11 field forms x decorator options x KW_ONLY positions, single inheritance with and '
    "without overriding, three-level chains, a class whose MRO cannot be computed): the synthesised parameters (names, order, kinds, required-ness) equal those of CPython's "
    'generated __init__; a base with InitVar pseudo-fields processed in an earlier package still passes them to a class of a later '
    'package; an __init__ is synthesised only for decorated classes without one; the extension is always loaded; the memoised list is '
    'never mutated; only the standard library decorator makes a dataclass; one extension instance processes two trees with the same paths. Three inheritance rows are open findings.',
    TB + '; dataclasses.dataclass on classes synthesised by the rule is the reference',
)
claim(
    "C17",
    'sibling agreement between the inspector and the visitor (extension-event typestate shared with C01, kind handlers, parameter '
    "conversion); bounded-exhaustive abstract evaluation of griffe's own code (the checker's evaluator interprets the ASTs of the "
    'current source on an enumerated finite domain): kind decision list, child table of generic_inspect, get_parameters vs '
    'inspect.signature, visit_importfrom and wildcard expansion vs what CPython binds, inspect_class on synthesised generic hierarchies, '
    'handle_function on synthesised functions, ObjectNode.children on a synthesised module and class',
    "Decided: every ObjectKind has a handler, specific kinds win over general ones, the inspector announces objects with the visitor's "
    "protocol, parameters convert through a bijective kind map, the object's own __doc__ is read, children are inspected / aliased per "
    "the documented table, the static side's parameters and import aliases are what CPython binds (what the inspector observes), and "
    "inspect_class records the class's own direct bases for plain, generic, parametrised and protocol hierarchies, handle_function "
    "records exactly the runtime signature's parameters also when postponed annotations name nothing that exists, every name bound in a "
    "namespace (to a built-in class, None, a constant ...) becomes a child, recorded values and defaults are text whatever the runtime object, "
    "definitions are found in every block context, and what the visitor builds for a definition does not depend "
    "on the definitions before it. Equality of the two "
    'trees on real modules is not decided.',
    TB + '; classes and functions handed to the inspector are synthesised in the rule; inspect.signature on them is the reference',
)
claim(
    "C14",
    "bounded-exhaustive abstract evaluation of griffe's own code (the checker's evaluator interprets the ASTs of the current source on "
    'an enumerated finite domain) over a virtual file system (iterdir, os.walk with in-place pruning, directory symlinks, read_text): '
    'find_package / find_spec / submodules on 81 two-search-path layouts x three listing orders, the .pth scan through '
    'ModuleFinder(search_paths), by-path requests, module classification, dotted path parts in the loader; taint of listing calls '
    '(order-clean consumers)',
    'Decided: which file provides a package (first search path wins, directory before module file, namespace portions, stubs), that a '
    'package requested by path wins over a same-named one on the search paths, which sub-modules are listed with which dotted parts, '
    'that a directory reachable under two names through symlinks is listed under both, that a sub-package wins over a module file of '
    'the same name, that portions of a namespace package follow the import system (first provider of a name wins, regular packages '
    'hide other portions), that pkgutil / pkg_resources declarations are recognised in their usual spellings, that a search path entry '
    'that is a file or is missing is skipped, that a directory merely named like a search path is not inside it, that files under a directory whose name '
    'contains a dot are skipped, that .pth files add existing directories once in sorted file order, that results do not depend on the '
    'listing order, how modules are classified. Not decided: agreement with pkgutil.walk_packages on generated trees; where .pth '
    'additions go relative to later configured search paths.',
    TB + '; the virtual file system stands for the OS; the import-system precedence rule is written in the rule module',
)
claim(
    "C13",
    "finite-domain abstract evaluation of the three parsers (their own ASTs interpreted on enumerated well-formed documents rendered from a model of "
    "sections: every ordered pair of section kinds, five description shapes per item kind, signature-fallback cases for annotations and defaults, Sphinx field orders), table "
    "agreement (documentation support table vs reader tables), every Sphinx field name dispatched through the evaluated table of field types, offset-contract checks backed by the reader summaries of the "
    "bounds analysis, typestate on the CFG (admonition title re-assigned between flushes)",
    "Decided for about 500 generated documents per run (Google and Numpy: all ordered pairs of 14 section kinds, multi-paragraph / role / list "
    "descriptions for each item kind, annotations from the signature vs written ones; Sphinx: type given in-line, before, after or not at all): "
    "the parsed sections, item names, annotations and descriptions equal the model (descriptions up to trailing newlines; Sphinx up to white "
    "space); defaults omitted from the docstring come from the signature in Parameters and Other Parameters under both values of "
    "warn_unknown_params, several names of one Numpy item each take their own; untyped Attributes take declared and inherited annotations; "
    "text after the last Sphinx field stays out of it; console examples are left as written or trimmed as the option says. Plus the structural rules: supported sections have readers, field prefixes cannot shadow, generator/iterator/tuple slots, block "
    "readers' offset contract, stale admonition title, repeated :raises:. Documents with more than two sections after the summary, parser options "
    "other than those named above are NOT enumerated.",
    TB + "; docs/reference/docstrings.md is read at run time and is the authority for the well-formed syntax the renderer in sa/rules/C13.py emits",
)
claim(
    "C03",
    "finite-domain abstract evaluation of the builders and renderers (their own ASTs interpreted on an enumerated corpus of expression shapes: "
    "every node kind, every operator, every operand class in every operand slot, every operator pair on both sides), table agreement with the "
    "interpreter's ast classes and operator tokens, decision table of the string-annotation rule, field-coverage lint of the builders",
    "Decided for every shape of the corpus (about 2000 expressions up to depth 2, with the parentheses CPython's own unparser requires): the text "
    "produced by _build + Expr.iterate parses back to the same tree as the source, flat iteration yields the pieces of that text with every "
    "referenced name as a name element (nested f-strings and lambda string defaults included); string annotations are parsed exactly when the defining module does not postpone evaluation and never "
    "inside Literal; decorators/defaults/values/bases never parse strings; every builder reads every field of its node. Nesting deeper than two "
    "levels is covered only through the compositional structure of the renderers (each slot passes its own precedence), not enumerated.",
    TB + "; ast.parse / ast.unparse of the running interpreter are the reference for 'same tree' and for the required parentheses",
)
for _p in [f"C{n:02d}" for n in range(1, 21) if f"C{n:02d}" not in CLAIMED]:
    NOT_YET[_p] = "check under construction in this round (static rules designed in DESIGN.md section 3; not yet registered)"
