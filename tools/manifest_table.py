# Table consumed by tools/gen_manifest.py (claim(...) / NOT_YET[...]).
TB = "python ast + sa/ engine (own CFG, call graph, abstract evaluator) + reference tables in sa/rules with their citations"
claim(
    "C20",
    "typestate / must-pass-through on the statement CFG (acquire-release pairing incl. exceptional exits), "
    "effect ownership (subprocess whitelist), call-graph reachability (no file read behind Object.lines)",
    "Structural necessary conditions of C20 decided on every path of the current source: temporary worktree and branch are "
    "released on all exits with the acquire's own operands, cleanup is forced, only whitelisted git sub-commands are ever "
    "spawned and only from git.py, loads happen inside the context manager, and source lines are served from memory. "
    "Does not decide behaviour under interruption between `add` returning and the try being entered.",
    TB + "; cleanup statements in the finally block are assumed not to raise (they run with check=False)",
)
claim(
    "C15",
    "effect ownership (sink inventory), guarded call-graph reachability with constant propagation of the inspection flags, "
    "typestate of sys.path on the CFG, handler tables (exception discipline)",
    "On every call path of the current source: with allow_inspection=force_inspection=False no path from the loader entry "
    "points reaches dynamic_import, the inspector or any code-executing call; such calls exist only at two tabled owner sites; "
    "every compile() is AST-only; sys.path is replaced only inside a save/replace/restore context manager whose restore runs on "
    "every exit; failure types are mapped as documented. This is the whole mechanism behind C15, not a sample of loads.",
    TB + "; extension loading (user-supplied extension modules) is cut from the reachability with the reason tabled in the rule; "
    "by-name CHA over-approximates callees",
)
claim(
    "C06",
    "typestate on call-graph cycles (visited-set guard / re-entrancy flag pairing on the CFG), exception-flow analysis "
    "(may-raise summaries over the call graph, hierarchy-aware handlers) for alias dereference sites, store-ordering dominance",
    "Structural reasons behind C06 decided on every path: each recursion that walks the import/alias/inheritance graph is cut by a "
    "membership test + insertion on the same key and collection (or the re-entrancy flag, reset in a finally); the resolved target is "
    "stored only after the nested chain resolved; only the two alias error types are raised; every dereference of a possibly-alias "
    "member in loader/merger/set_member is guarded, de-aliased, or handled for both errors; the fixpoint loop frame is intact. "
    "Termination on all graphs and idempotence of a second resolve_aliases() are not decided as such.",
    TB + "; tabled dereference exceptions each carry a reason in sa/rules/C06.py",
)
claim(
    "C16",
    "effect ownership (who-may-write `.members` / `_target`), must-pass-through on the CFG (store -> parent link, retarget -> registration), "
    "dominance of guards (self-target test, stub-merge preconditions)",
    "Who may write the member mappings and alias targets, and what every such write is followed/preceded by on all paths: "
    "stores only in SetMembersMixin (deletes in DelMembersMixin), each followed by the parent/collection link; every alias retarget "
    "registers the back-reference; the self-target guard dominates the store; replacing a member retargets its aliases first; "
    "dotted keys recurse on the tail. The invariants over arbitrary operation sequences (heap model) are not decided; stale "
    "`aliases` entries after deletion are the source's own FIXME.",
    TB,
)
claim(
    "C10",
    "finite-domain abstract evaluation of the rule set's AST (own evaluator, no griffe code runs) into a decision table over abstract "
    "signatures (name x kind x default atom), compared with a reference table derived from CPython's binder on synthesised signatures",
    "The decision table of the parameter-breakage rule set is total over all abstract signature pairs with up to one (quick) / two "
    "(thorough, 37k pairs) parameters: silence on identity, soundness of every yield, always-reported changes, and completeness against "
    "the calling convention (every call shape up to arity+1 with every keyword subset). Any logically equivalent rewrite of the conditions "
    "passes; any changed row is the witness. Interplay of three or more parameters and expression-valued defaults are outside the domain.",
    TB + "; CPython's own function-call binder is the reference for 'binds'; variadics carry the marker defaults griffe's agents store",
)
claim(
    "C01",
    "typestate of the extension-event protocol on the statement CFG, def-use provenance of line spans, scoped-flag typestate, dominance of "
    "the tie-break guard, finite-domain abstract evaluation of the visibility predicates and get_docstring into decision tables, "
    "dispatch-table agreement",
    "Structural necessary conditions of C01 on every path of the visitor: handler coverage and child traversal, one announcement per "
    "built object in the documented order with the object just built, spans taken from the handled node, runtime flag passed everywhere "
    "and the type-guard flag scoped to the if body, the keep-existing tie-break dominated by both conditions, and the seven visibility "
    "predicates equal to the documented table on all (up to 960) abstract states. Does not decide one-member-per-name for arbitrary "
    "programs, docstring text equality or __all__ evaluation.",
    TB + "; reference visibility table transcribed from the is_public docstring / docs/guide/users/navigating.md / Language Reference 7.11",
)
claim(
    "C11",
    "dominance on the CFG (public frontier), finite-domain abstract evaluation of the dispatch / removal / base / value rules into decision "
    "tables, alias-dereference exception discipline (exception-flow summaries), registry agreement, def-use of the CLI's loads and exit code",
    "On every path: every breakage of the member walk is dominated by is_public and the walk uses all_members on both sides; the type "
    "dispatch table is total and routes alias/kind-mismatch/same-kind cases as documented; removal, base and value rules equal their "
    "tables; no alias error can escape the comparison; each breakage kind/style has its class/method; the CLI loads old from `against`, "
    "new from `base_ref`/tree, prints every breakage and exits 1 exactly when there is one; is_public equals the documented table. "
    "Silence after arbitrary compatible edit scripts is not decided.",
    TB,
)
claim(
    "C02",
    "finite-domain abstract evaluation of get_parameters' AST on the real ast.arguments of every parameter-list shape (756 quick / 5k "
    "thorough), compared with CPython's introspection of the same text; def-use agreement of the two consumers; typestate of the "
    "overload / setter / deleter paths on the CFG; kind-map bijection",
    "The alignment of names, kinds, annotations and defaults is decided for every parameter-list shape with up to two (thorough: three) "
    "parameters per group, every default pattern and both variadics - any equivalent rewrite of the alignment code passes, any misaligned "
    "shape is the witness. Consumers use the producer's slots; overloads are appended in order and never set as members; setters and "
    "deleters attach to the existing property. Expression equality of annotations/defaults is C03's.",
    TB + "; CPython's inspect.signature on a function compiled from the shape text is the reference",
)
claim(
    "C05",
    "finite-domain abstract evaluation (wildcard exposure table, overwrite/add conditions, import binding), table agreement (Alias proxy "
    "completeness and same-name forwarding, __all__ extraction table), must-pass-through on the CFG (sub-module recursion, recursion before "
    "read, import-map write before alias placement, self-alias guard dominance)",
    "Decided on every path / abstract state: what `from m import *` exposes, later-wins ordering of expanded wildcards, that every public "
    "member of the object classes is proxied by Alias to the same-named attribute of the target with members re-parented to the alias, how "
    "__all__ is collected and expanded (every path reaches the sub-modules), and how import statements bind names. Equality with CPython's "
    "import of generated packages is not decided.",
    TB,
)
claim(
    "C08",
    "table agreement between the JSON writers and readers extracted from the AST (key sets with emission conditions from CFG "
    "must-pass/dominance, constructor keywords), coverage of expression-typed fields by the re-parenting pass, enum revival, decoder "
    "branch dominance, def-use of `full` through the encoder and both arms of the CLI dump",
    "For every object kind, Parameter, Decorator and Docstring: required reader keys are always written, omittable writer keys are read "
    "optionally, nothing written is ignored and nothing read is unwritable; every Expr-typed field is re-parented after reload; enums "
    "are revived; expression (de)serialisation is symmetric; output is deterministic and `full` reaches every serialisation path; an "
    "alias writes its own target path; `cls` is tested before `kind`. Byte-identical re-serialisation over generated trees is not decided.",
    TB,
)
claim(
    "C09",
    "table agreement between docs/schema.json and the full-form JSON writers extracted from the AST: required vs always-written keys "
    "(CFG must-pass under full=True), declared keys, JSON type sets inferred from declared attribute types narrowed by guards, enum "
    "coverage; exception-flow check of the getters the full writer evaluates",
    "Every schema obligation that can be read off the writers is decided for all object kinds, aliases, docstrings, decorators, parameters "
    "and docstring sections: anything the schema requires is always written, anything written is declared, every JSON shape a value can "
    "take is allowed, every section kind the code can emit is listed. Validation of concrete generated dumps is not performed.",
    TB + "; docs/schema.json is read at run time; provenance tables (decorator linenos, parameter kinds) are verified structurally",
)
claim(
    "C19",
    "def-use direction of every store in the merge functions, finite-domain abstract evaluation of the member-merge dispatch, of "
    "merge_stubs' module selection and of the loader's stub-sub-module condition over directory layouts (pure path arithmetic), "
    "handler coverage, alias-dereference discipline",
    "Decided on every path / abstract state: stores go stubs -> runtime on the same field, the docstring only when missing, parameters per "
    "name with a per-parameter skip; the member dispatch table (stub-only, stub alias, kind mismatch, unresolvable runtime alias, same kind) "
    "is total and never raises; merge_stubs returns the regular module for either argument order and set_member stores that result; stub "
    "sub-modules are loaded for every layout except in-package stubs; no alias error escapes. Field-by-field outcomes on generated pairs are not decided.",
    TB,
)
claim(
    "C12",
    "difference-bound dataflow on the statement CFG (loop-cursor progress with interprocedural reader summaries; list-index slack with "
    "branch facts, short-circuit facts and caller-established preconditions), handler-coverage rules for catalogued partial operations, "
    "dispatch-table totality, effect analysis (purity), regex-AST lint for ambiguous nested unbounded repeats",
    "Decided for every loop and every path of the three parsers: each while loop strictly advances its cursor (so it terminates on any text); "
    "every `lines[x + c]` is in range; annotation-element, docstring.parent, section-value, split-unpack and compile() sites are guarded for the "
    "exceptions they can raise; every section kind and parser has a handler; nothing rooted at the docstring is mutated; no pattern can "
    "backtrack exponentially. That plain text comes back as a single text section is not decided.",
    TB + "; the data invariant 'last docstring line is not blank' (checked at Docstring.__init__) is used for the skip-blank loops; the "
    "partial-operation catalogue is the one listed in the rule, not every possible Python exception",
)
claim(
    "C04",
    "finite-domain abstract evaluation of the scope walk (Object/Function.resolve over a nest of module/class/nested class/method scopes), of "
    "ExprName.path/canonical_path and of the relative-import arithmetic (against importlib.util.resolve_name), plus explicit-raise and "
    "handler checks and chain-linking checks on the expression builders",
    "The resolution tables are total over the abstract scope nest x name classes (own member, import, enclosing class member, enclosing object "
    "name, __init__ parameter, unknown, module name) and over (depth, init?, level, module?) for relative imports; they are compared with "
    "Python's scoping rule / importlib. Resolution raises only NameResolutionError and the expression side swallows it. Resolution over "
    "generated multi-module packages is not decided.",
    TB + "; the reference scoping rule is written in the rule module (class scopes do not nest; functions see their class body)",
)
claim(
    "C07",
    "finite-domain abstract evaluation of Class.mro / c3linear_merge / inherited_members (own evaluator over their ASTs) on every class "
    "hierarchy of up to four (thorough: five) classes with every ordered choice of bases, compared with CPython's own type.__mro__; handler "
    "and frame checks for cycles and member lookup",
    "The computed order equals CPython's on all small hierarchies (309 rows quick, ~10k thorough), inconsistent ones raise ValueError, "
    "cycles raise instead of looping and are tolerated by the consumers; inherited members wrap the nearest definition as inherited aliases "
    "under the subclass and never shadow own members. Larger hierarchies are covered only through the algorithm being the same.",
    TB + "; CPython's type() is the reference for MRO and for which hierarchies are inconsistent",
)
claim(
    "C18",
    "finite-domain abstract evaluation of the dataclasses extension's functions on every small dataclass definition (two fields x twelve "
    "field forms x decorator kw_only x KW_ONLY position; single and three-level inheritance with overrides), compared with the __init__ "
    "CPython's dataclasses module generates for the same text; dominance (never replace / never invent), must-pass-through (always on, "
    "expansion before the event), effect rule (memoised list never mutated)",
    "The synthesised constructor's parameter names, order, kinds and required-ness equal CPython's on ~1.7k (thorough ~3.4k) definitions; "
    "a hand-written __init__ is never replaced, plain classes get none, subclasses of dataclasses are labelled; the extension is always "
    "loaded and runs after exports/wildcards were expanded; the cached per-class field list is never mutated. Larger definitions are "
    "covered only through the rules being the same.",
    TB + "; CPython's dataclasses + inspect.signature on a class compiled from the definition text is the reference; the abstract class model "
    "mirrors what the visitor stores (labels, annotation paths, field() call arguments)",
)
claim(
    "C17",
    "sibling agreement between the two agents: registry exhaustiveness (ObjectKind vs inspect_* handlers), finite-domain abstract evaluation "
    "of the kind decision list and of generic_inspect's alias decision, typestate of the extension-event protocol on the inspector's CFG, "
    "kind-map bijection, docstring-source rule, and the static parameter alignment against CPython's introspection",
    "Decided on every path / abstract state of the inspector: each runtime kind has a handler; specific kinds win over the general ones they "
    "imply; objects are announced with the visitor's protocol and properties become attributes on both sides; imported objects become aliases "
    "except a same-named direct sub-module; parameters convert through a bijective kind map; docstrings are the object's own; and the static "
    "side lists parameters exactly as inspect.signature does. Actual outputs on importable modules are not compared.",
    TB,
)
claim(
    "C14",
    "finite-domain abstract evaluation of the finder over a virtual file system (pure path arithmetic; three listing orders) - precedence "
    "table of find_package against the import system's rule, sub-module enumeration table, .pth scan, intermediate namespace modules, module "
    "classification table - plus listing-order taint: every directory-listing call must be sorted/min'ed or used for membership only before "
    "an order-sensitive consumer (consumers must sort with a total key)",
    "Decided on 81 two-search-path layouts x three listing orders and five package layouts: which file provides a package (first path wins, "
    "directory before module file, namespace portions, stubs), which sub-modules are listed under which dotted parts, that results do not "
    "depend on the listing order, how modules are classified, and that every listing source in finder.py is order-clean. Agreement with "
    "pkgutil.walk_packages on generated trees is not decided.",
    TB + "; the virtual file system stands for the OS; the import-system precedence rule is written in the rule module",
)
claim(
    "C13",
    "finite-domain abstract evaluation of the three parsers (their own ASTs interpreted on enumerated well-formed documents rendered from a model of "
    "sections: every ordered pair of section kinds, four description shapes per item kind, signature-fallback cases, Sphinx field orders), table "
    "agreement (documentation support table vs reader tables; Sphinx prefix order), offset-contract checks backed by the reader summaries of the "
    "bounds analysis, typestate on the CFG (admonition title re-assigned between flushes)",
    "Decided for about 500 generated documents per run (Google and Numpy: all ordered pairs of 14 section kinds, multi-paragraph / role / list "
    "descriptions for each item kind, annotations from the signature vs written ones; Sphinx: type given in-line, before, after or not at all): "
    "the parsed sections, item names, annotations and descriptions equal the model (descriptions up to trailing newlines; Sphinx up to white "
    "space). Plus the structural rules: supported sections have readers, field prefixes cannot shadow, generator/iterator/tuple slots, block "
    "readers' offset contract, stale admonition title, repeated :raises:. Documents with more than two sections after the summary, parser options "
    "other than the defaults and default values are NOT enumerated.",
    TB + "; docs/reference/docstrings.md is read at run time and is the authority for the well-formed syntax the renderer in sa/rules/C13.py emits",
)
claim(
    "C03",
    "finite-domain abstract evaluation of the builders and renderers (their own ASTs interpreted on an enumerated corpus of expression shapes: "
    "every node kind, every operator, every operand class in every operand slot, every operator pair on both sides), table agreement with the "
    "interpreter's ast classes and operator tokens, decision table of the string-annotation rule, field-coverage lint of the builders",
    "Decided for every shape of the corpus (about 2000 expressions up to depth 2, with the parentheses CPython's own unparser requires): the text "
    "produced by _build + Expr.iterate parses back to the same tree as the source, flat iteration yields the pieces of that text with every "
    "referenced name as a name element; string annotations are parsed exactly when the defining module does not postpone evaluation and never "
    "inside Literal; decorators/defaults/values/bases never parse strings; every builder reads every field of its node. Nesting deeper than two "
    "levels is covered only through the compositional structure of the renderers (each slot passes its own precedence), not enumerated.",
    TB + "; ast.parse / ast.unparse of the running interpreter are the reference for 'same tree' and for the required parentheses",
)
for _p in [f"C{n:02d}" for n in range(1, 21) if f"C{n:02d}" not in CLAIMED]:
    NOT_YET[_p] = "check under construction in this round (static rules designed in DESIGN.md section 3; not yet registered)"
