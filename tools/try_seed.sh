#!/bin/bash
# usage: tools/try_seed.sh <seed-name> <prop>...   - apply the stored patch to /repo, run the given quick checks, restore /repo
s=$1; shift
cd /verif
if ! git -C /repo apply /verif/seeded/$s/patch.diff 2>/tmp/apply.err; then echo "$s: patch does not apply: $(head -1 /tmp/apply.err)"; exit 3; fi
for p in "$@"; do
  out=$(/venv/bin/python sa/check.py $p 2>&1); rc=$?
  echo "$s $p exit=$rc $(echo "$out" | grep -m1 '^  rule\|^ANALYSIS' | cut -c1-230)"
done
git -C /repo checkout -- .
for p in "$@"; do /venv/bin/python sa/check.py $p >/dev/null 2>&1; done
