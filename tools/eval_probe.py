"""Probe of the evaluator: 28 small functions using constructs an ordinary refactoring may introduce (walrus, min/max with a key, reduce,
NamedTuple helpers, nested comprehensions, try/finally returns, ...) are evaluated in the slot of an existing module (overlay); any that is refused
(AnalysisError) or mis-evaluated shows here before a refactoring makes a check exit 2."""
import sys; sys.path.insert(0,'/verif')
from sa.srcmodel import Program, AnalysisError
from sa.absint import Interp, Raised
snips = {
 "walrus": "def f(xs):\n    if (n := len(xs)) > 1:\n        return n\n    return 0\n",
 "minkey": "def f(xs):\n    return min(xs, key=lambda x: -x), max(xs, default=None)\n",
 "removeprefix": "def f(xs):\n    return 'self.x'.removeprefix('self.'), 'a.pyi'.removesuffix('.pyi')\n",
 "reduce": "from functools import reduce\ndef f(xs):\n    return reduce(lambda a, b: a + b, xs, 0)\n",
 "chain_from_iterable": "from itertools import chain\ndef f(xs):\n    return list(chain.from_iterable([[x, x] for x in xs]))\n",
 "attrgetter": "from operator import attrgetter, itemgetter\ndef f(xs):\n    return sorted([(2,'b'),(1,'a')], key=itemgetter(0))\n",
 "enumerate_start": "def f(xs):\n    return [(i, x) for i, x in enumerate(xs, start=1)]\n",
 "zip_strict": "def f(xs):\n    return list(zip(xs, xs))\n",
 "nested_comp": "def f(xs):\n    return {x: [y for y in xs if y != x] for x in xs}\n",
 "tryfinally_return": "def f(xs):\n    try:\n        return xs[0]\n    finally:\n        xs.append(9)\n",
 "starred_call": "def g(*a, **k):\n    return a, k\ndef f(xs):\n    return g(*xs, **{'k': 1})\n",
 "dict_setdefault": "def f(xs):\n    d = {}\n    for x in xs:\n        d.setdefault(x % 2, []).append(x)\n    return d\n",
 "str_partition": "def f(xs):\n    return 'a.b.c'.rpartition('.'), 'a(b'.partition('(')\n",
 "ifexp_tuple_assign": "def f(xs):\n    a, b = (xs[0], xs[1]) if len(xs) > 1 else (None, None)\n    return a, b\n",
 "generator_next_default": "def f(xs):\n    return next((x for x in xs if x > 1), None)\n",
 "while_else": "def f(xs):\n    i = 0\n    while i < len(xs):\n        i += 1\n    else:\n        i = -i\n    return i\n",
 "local_class": "from typing import NamedTuple\nclass P(NamedTuple):\n    a: int\n    b: int = 2\ndef f(xs):\n    p = P(1)\n    return p.a + p.b, p._replace(a=5).a\n",
 "frozenset_ops": "def f(xs):\n    return frozenset(xs) | {9}, set(xs) - {1}\n",
 "any_gen": "def f(xs):\n    return any(x > 2 for x in xs) and not all(x > 2 for x in xs)\n",
 "lambda_default": "def f(xs):\n    fs = [lambda v, k=k: v + k for k in xs]\n    return [g(1) for g in fs]\n",
 "fstring_spec": "def f(xs):\n    return f'{xs[0]:>3}|{xs[1]!r}|{len(xs)=}'\n",
 "contextmanager": "from contextlib import contextmanager\n@contextmanager\ndef cm():\n    yield 1\ndef f(xs):\n    with cm() as v:\n        return v\n",
 "isinstance_tuple": "def f(xs):\n    return isinstance(xs, (list, tuple)), isinstance('a', str)\n",
 "del_slice": "def f(xs):\n    ys = list(xs)\n    del ys[0]\n    ys[:1] = []\n    return ys\n",
 "global_const_tuple_unpack": "A, B = 1, 2\ndef f(xs):\n    return A + B\n",
 "dataclass_local": "from dataclasses import dataclass, field\n@dataclass\nclass D:\n    a: int\n    b: list = field(default_factory=list)\ndef f(xs):\n    d = D(1)\n    d.b.append(2)\n    return d.a, d.b\n",
 "staticmethod_call": "class K:\n    @staticmethod\n    def s(x):\n        return x + 1\n    def m(self, x):\n        return self.s(x) + K.s(x)\ndef f(xs):\n    return K().m(1)\n",
 "str_methods": "def f(xs):\n    return 'A b'.casefold(), ' a '.strip(), 'a,b'.split(',', 1), 'x'.isidentifier(), 'ab'.startswith(('a','c'))\n",
}
ok=bad=0
for name, code in snips.items():
    prog = Program(overlay={"src/_griffe/debug.py": code})
    it = Interp(prog)
    try:
        r = it.call(prog.function("_griffe.debug.f"), [1,2,3])
        ok+=1
    except AnalysisError as e:
        bad+=1; print("REFUSED", name, "->", str(e)[:150])
    except Raised as e:
        bad+=1; print("RAISED", name, "->", e.exc)
    except Exception as e:
        bad+=1; print("CRASH", name, "->", type(e).__name__, str(e)[:150])
print(ok, "ok", bad, "not")
