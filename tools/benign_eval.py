"""Behaviour-preserving changes written by independent sub-agents (realistic refactorings near a property's anchors): every check must stay silent.

usage: benign_eval.py <dir with */b*/patch.diff demo.py meta.json> [--store]      (first evaluation: confirm, run the checks, optionally copy to /verif/benign)
       benign_eval.py                                                              (re-run the stored ones: /verif/benign/*/patch.diff) -> benign/MATRIX.md

For each change: a scratch worktree of /repo's HEAD (system temp directory, removed afterwards); the demo must print the same text before and after the
patch; the repository's test suite must pass with it; then the quick tier of all claimed checks runs against the patched tree (VERIF_REPO).  Any exit 1
is a false alarm, any exit 2 a check that a refactoring breaks.  /repo itself is never touched.
"""

from __future__ import annotations

import json
import os
import shutil
import subprocess
import sys
import tempfile
from concurrent.futures import ThreadPoolExecutor
from pathlib import Path

VERIF = Path(__file__).resolve().parent.parent
REPO = Path("/repo")
PY = "/venv/bin/python"


def sh(cmd: list[str], cwd: Path | None = None, env: dict | None = None, timeout: int = 3600) -> subprocess.CompletedProcess:
    e = dict(os.environ)
    if env:
        e.update(env)
    return subprocess.run(cmd, cwd=cwd, env=e, capture_output=True, text=True, timeout=timeout, check=False)


def main() -> int:
    args = [a for a in sys.argv[1:] if not a.startswith("--")]
    store = "--store" in sys.argv
    confirm = bool(args)
    if confirm:
        root = Path(args[0])
        items = sorted(d for d in root.glob("*/b*") if (d / "patch.diff").exists())
        names = {d: f"{d.parent.name}-{d.name}" for d in items}
    else:
        items = sorted(d for d in (VERIF / "benign").iterdir() if d.is_dir() and (d / "patch.diff").exists())
        names = {d: d.name for d in items}
    if sh(["git", "-C", str(REPO), "status", "--porcelain"]).stdout.strip():
        print("refusing: /repo has local modifications")
        return 2
    claimed = [c["property_id"] for c in json.loads((VERIF / "MANIFEST.json").read_text())["checks"]]
    scratch = Path(tempfile.mkdtemp(prefix="verif-benign-"))

    def one(d: Path) -> dict:
        name = names[d]
        row: dict = {"name": name, "summary": json.loads((d / "meta.json").read_text()).get("summary", "") if (d / "meta.json").exists() else ""}
        wt = scratch / name
        sh(["git", "-C", str(REPO), "worktree", "add", "--detach", str(wt), "HEAD"])
        try:
            before = sh([PY, str(d / "demo.py"), str(wt)])
            a = sh(["git", "-C", str(wt), "apply", str(d / "patch.diff")])
            row["applies"] = a.returncode == 0
            if a.returncode != 0:
                return row
            after = sh([PY, str(d / "demo.py"), str(wt)])
            row["demo_same"] = before.returncode == 0 and after.returncode == 0 and before.stdout == after.stdout
            if confirm:
                t = sh([PY, "-m", "pytest", "-q", "-p", "no:cacheprovider", "-p", "no:randomly", "-x", "-q"], cwd=wt, env={"PYTHONPATH": str(wt / "src")})
                row["suite_ok"] = t.returncode == 0
            env = {"VERIF_REPO": str(wt)}

            def chk(p: str) -> tuple[str, int, list[str]]:
                r = sh([PY, "sa/check.py", p], cwd=VERIF, env=env)
                return p, r.returncode, [l.strip() for l in r.stdout.splitlines() if l.startswith(("  rule ", "ANALYSIS-ERROR"))][:2]

            with ThreadPoolExecutor(max_workers=8) as ex:
                res = list(ex.map(chk, claimed))
            row["fired"] = {p: {"exit": c, "first": l} for p, c, l in res if c != 0}
        finally:
            sh(["git", "-C", str(REPO), "worktree", "remove", "--force", str(wt)])
        print(name, "demo-same" if row.get("demo_same") else "DEMO-DIFFERS", "suite-ok" if row.get("suite_ok", True) else "SUITE-FAILS",
              "silent" if not row.get("fired") else {p: v["exit"] for p, v in row["fired"].items()}, flush=True)
        return row

    try:
        with ThreadPoolExecutor(max_workers=int(os.environ.get("VERIF_MATRIX_JOBS", "3"))) as pool:
            rows = list(pool.map(one, items))
    finally:
        sh(["git", "-C", str(REPO), "worktree", "prune"])
        shutil.rmtree(scratch, ignore_errors=True)
    # restore evidence written while patched trees were analysed
    with ThreadPoolExecutor(max_workers=16) as ex:
        list(ex.map(lambda p: sh([PY, "sa/check.py", p], cwd=VERIF), claimed))
    if confirm:
        out = Path(args[0]) / "benign_eval.json"
        out.write_text(json.dumps(rows, indent=1))
        if store:
            for d in items:
                r = next(x for x in rows if x["name"] == names[d])
                if r.get("applies") and r.get("demo_same") and r.get("suite_ok"):
                    dst = VERIF / "benign" / names[d]
                    dst.mkdir(parents=True, exist_ok=True)
                    for f in ("patch.diff", "demo.py", "meta.json"):
                        shutil.copy(d / f, dst / f)
        return 0
    head = sh(["git", "-C", str(REPO), "log", "--format=%h", "-1"]).stdout.strip()
    lines = [f"# Behaviour-preserving changes x checks (quick tier), /repo at {head}", "",
             "Each row: a refactoring written by an independent sub-agent near the anchors of one property (same demo output before and after, suite green).",
             "Every check must stay silent on each of them.", "", "| change | what it does | checks not silent |", "|---|---|---|"]
    for r in rows:
        lines.append(f"| {r['name']} | {' '.join(r['summary'].split())[:160]} | {', '.join(f'{p} (exit {v['exit']})' for p, v in r.get('fired', {}).items()) or '-'} |")
    n_bad = sum(bool(r.get("fired")) for r in rows)
    lines += ["", f"{len(rows) - n_bad} of {len(rows)} behaviour-preserving changes leave all {len(claimed)} checks silent."]
    (VERIF / "benign" / "MATRIX.md").write_text("\n".join(lines) + "\n")
    return 1 if n_bad else 0


if __name__ == "__main__":
    sys.exit(main())
