"""Regenerates /verif/MANIFEST.json from the table below (run after adding a property's rule module)."""

from __future__ import annotations

import json
from pathlib import Path

VERIF = Path(__file__).resolve().parent.parent
PY = "/venv/bin/python"

# property -> (technique, level text, level note, design ref)
CLAIMED: dict[str, tuple[str, str, str]] = {}
NOT_YET: dict[str, str] = {}


def claim(pid: str, technique: str, text: str, note: str) -> None:
    CLAIMED[pid] = (technique, text, note)


exec((VERIF / "tools" / "manifest_table.py").read_text())  # noqa: S102 - our own table

checks = []
for pid in sorted(CLAIMED):
    technique, text, note = CLAIMED[pid]
    checks.append(
        {
            "property_id": pid,
            "quick_cmd": f"{PY} sa/check.py {pid} --tier quick",
            "thorough_cmd": f"{PY} sa/check.py {pid} --tier thorough",
            "evidence_file": f"/verif/evidence/{pid}.json",
            "replay_cmd_template": f"{PY} sa/check.py {pid} --replay {{path}}",
            "engine": "sa",
            "level_claimed": {"category": "other", "text": text, "design_ref": f"DESIGN.md section 3, {pid}"},
            "level_note": note,
            "technique": technique,
        }
    )
manifest = {
    "version": 1,
    "setup_cmd": f"{PY} -c \"import ast, sys; sys.exit(0 if sys.version_info >= (3, 10) else 1)\"",
    "hooks": {
        "guard": "GRIFFE_VERIF",
        "enable": "none needed: the checks are static and read /repo's working tree; no instrumentation exists",
        "baseline_off_cmd": "cd /repo && /venv/bin/python -m pytest -ra -q -p no:cacheprovider --timeout=900 --continue-on-collection-errors",
        "source_commits": [],
        "add_only": True,
    },
    "engines": [
        {
            "name": "sa",
            "path": "/verif/sa",
            "serves_properties": sorted(CLAIMED),
            "kind_free_text": "repository-specific static analysis on python ast: statement CFG with exceptional edges, "
            "call graph (MRO + CHA + dispatch tables), typestate/must-pass-through, exception-flow, effect ownership, "
            "finite-domain abstract evaluation of predicates into decision tables, table/registry agreement",
        }
    ],
    "checks": checks,
    "notes": "All checks are static (no griffe code is imported or run). exit 0 = all rule instances discharged; "
    "exit 1 = VIOLATION with replay file under /verif/out; exit 2 = ANALYSIS-ERROR (anchor vanished / unmodelled construct). "
    "Known findings: /verif/known_findings.txt. fix: commits in /repo are listed there as 'fixed:' lines.",
    "not_applicable": [{"property_id": p, "reason": r} for p, r in sorted(NOT_YET.items())],
}
(VERIF / "MANIFEST.json").write_text(json.dumps(manifest, indent=1) + "\n")
print(f"claimed={len(checks)} not_applicable={len(NOT_YET)}")
