"""Confirm a seeded change (demo passes clean / fails patched, suite green) in a scratch worktree, then run the checks against it.

usage: seed_eval.py <dir with patch.diff demo.py meta.json> [--keep-as NAME]
Never leaves /repo modified.
"""

from __future__ import annotations

import json
import shutil
import subprocess
import sys
from pathlib import Path

VERIF = Path(__file__).resolve().parent.parent
REPO = Path("/repo")
WT = Path("/tmp/wt/confirm")
PY = "/venv/bin/python"


def sh(cmd: list[str], cwd: Path | None = None, env: dict | None = None, timeout: int = 600) -> subprocess.CompletedProcess:
    import os

    e = dict(os.environ)
    if env:
        e.update(env)
    return subprocess.run(cmd, cwd=cwd, env=e, capture_output=True, text=True, timeout=timeout, check=False)


def main() -> int:
    d = Path(sys.argv[1]).resolve()
    keep = sys.argv[3] if len(sys.argv) > 3 and sys.argv[2] == "--keep-as" else None
    meta = json.loads((d / "meta.json").read_text())
    prop = meta["property"]
    out: dict = {"dir": str(d), "property": prop}
    if WT.exists():
        sh(["git", "-C", str(REPO), "worktree", "remove", "--force", str(WT)])
    sh(["git", "-C", str(REPO), "worktree", "add", "--detach", str(WT), "HEAD"])
    try:
        r = sh([PY, str(d / "demo.py"), str(WT)])
        out["demo_clean_exit"] = r.returncode
        a = sh(["git", "-C", str(WT), "apply", str(d / "patch.diff")])
        out["applies"] = a.returncode == 0
        if a.returncode != 0:
            out["apply_err"] = a.stderr[-300:]
            print(json.dumps(out, indent=1))
            return 1
        r = sh([PY, str(d / "demo.py"), str(WT)])
        out["demo_patched_exit"] = r.returncode
        out["demo_patched_out"] = (r.stdout + r.stderr)[-400:]
        t = sh([PY, "-m", "pytest", "-q", "-p", "no:cacheprovider", "-p", "no:randomly", "-x", "-q"], cwd=WT, env={"PYTHONPATH": str(WT / "src")})
        out["suite_exit"] = t.returncode
        out["suite_tail"] = t.stdout.strip().splitlines()[-1:] if t.stdout else []
    finally:
        sh(["git", "-C", str(REPO), "worktree", "remove", "--force", str(WT)])
    # checks against /repo with the patch applied
    st = sh(["git", "-C", str(REPO), "status", "--porcelain"])
    if st.stdout.strip():
        print("refusing: /repo has local modifications")
        return 2
    manifest = json.loads((VERIF / "MANIFEST.json").read_text())
    claimed = [c["property_id"] for c in manifest["checks"]]
    fired: dict[str, list[str]] = {}
    try:
        a = sh(["git", "-C", str(REPO), "apply", str(d / "patch.diff")])
        assert a.returncode == 0, a.stderr
        from concurrent.futures import ThreadPoolExecutor

        with ThreadPoolExecutor(max_workers=16) as ex:
            results = list(ex.map(lambda p: (p, sh([PY, "sa/check.py", p], cwd=VERIF)), claimed))
        for p, r in results:
            if r.returncode != 0:
                lines = [l.strip() for l in r.stdout.splitlines() if l.startswith("  rule ") or l.startswith("ANALYSIS-ERROR")]
                fired[p] = [f"exit={r.returncode}", *lines[:4]]
    finally:
        sh(["git", "-C", str(REPO), "checkout", "--", "."])
        # restore evidence files written while the patch was applied
        with ThreadPoolExecutor(max_workers=16) as ex:
            list(ex.map(lambda p: sh([PY, "sa/check.py", p], cwd=VERIF), claimed))
    out["checks_fired"] = fired
    out["detected_by_own_property"] = prop in fired and fired[prop][0] == "exit=1"
    out["confirmed"] = out.get("demo_clean_exit") == 0 and out.get("demo_patched_exit") == 1 and out.get("suite_exit") == 0
    print(json.dumps(out, indent=1))
    if keep and out["confirmed"]:
        dst = VERIF / "seeded" / keep
        dst.mkdir(parents=True, exist_ok=True)
        for f in ("patch.diff", "demo.py"):
            shutil.copy(d / f, dst / f)
        meta.update({"confirmed": {k: out[k] for k in ("demo_clean_exit", "demo_patched_exit", "suite_exit")},
                     "ran": [f"{PY} demo.py <worktree> (clean -> 0, patched -> 1)",
                             "PYTHONPATH=<worktree>/src /venv/bin/python -m pytest -q -p no:cacheprovider -p no:randomly -x (patched -> pass)",
                             "git -C /repo apply patch.diff; /venv/bin/python sa/check.py <each claimed property>; git -C /repo checkout -- ."],
                     "checks_fired": fired, "detected_by_own_property": out["detected_by_own_property"]})
        (dst / "meta.json").write_text(json.dumps(meta, indent=1))
    return 0


if __name__ == "__main__":
    sys.exit(main())
