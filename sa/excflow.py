"""A-EX: exception-flow analysis (may-raise summaries to a fixpoint over the call graph).

Sources: explicit `raise`, plus *intrinsic* partial operations supplied by the caller as a callback
(`intrinsic(fn, node) -> iterable of exception names`).  Sinks: `try/except` handlers and
`with suppress(...)`, matched with the class hierarchy (builtins of the running interpreter by name,
in-repo exception classes through the parsed class table).  A bare `raise` in a handler re-raises what
the handler caught; `raise err` where `err` is the handler's `as` name likewise.

Path refinement: an attribute/method edge whose candidates include `Alias` proxies is restricted to the
non-alias classes when the site is dominated by `<receiver>.is_alias` being false (and to `Alias` when
dominated by it being true).
"""

from __future__ import annotations

import ast
import builtins
from dataclasses import dataclass
from typing import Callable, Iterable

from sa.callgraph import CallGraph
from sa.cfg import suppress_types
from sa.srcmodel import FunctionInfo, Program, dotted, unparse
from sa.util import cfg_of, node_index


@dataclass(frozen=True)
class Raised:
    exc: str
    fn: str  # function where it originates
    line: int
    via: tuple[str, ...] = ()  # call chain (callee qualnames) from the summarised function down to the origin

    def describe(self) -> str:
        chain = " -> ".join(self.via) if self.via else ""
        return f"{self.exc} raised in {self.fn}:{self.line}" + (f" via {chain}" if chain else "")


class ExcFlow:
    def __init__(
        self,
        prog: Program,
        cg: CallGraph,
        intrinsic: Callable[[FunctionInfo, ast.AST], Iterable[str]] | None = None,
        *,
        refine_alias: bool = True,
        skip_callee: Callable[[FunctionInfo, FunctionInfo | str, ast.AST], bool] | None = None,
    ) -> None:
        self.prog = prog
        self.cg = cg
        self.intrinsic = intrinsic
        self.refine_alias = refine_alias
        self.skip_callee = skip_callee
        self.summary: dict[str, dict[str, Raised]] = {}
        self._mro_cache: dict[str, tuple[str, ...]] = {}
        self._alias_cls = prog.classes.get("_griffe.models.Alias")

    # ------------------------------------------------------------------ hierarchy
    def exc_mro(self, name: str) -> tuple[str, ...]:
        """Names of the classes in the MRO of exception `name` (short names)."""
        short = name.split(".")[-1]
        if short in self._mro_cache:
            return self._mro_cache[short]
        out: list[str] = []
        cls = None
        for c in self.prog.classes.values():
            if c.name == short and c.module.name.endswith("exceptions"):
                cls = c
                break
        if cls is None:
            for c in self.prog.classes.values():
                if c.name == short:
                    cls = c
                    break
        if cls is not None:
            out.append(short)
            for b in cls.base_names:
                for x in self.exc_mro(b):
                    if x not in out:
                        out.append(x)
        else:
            obj = getattr(builtins, short, None)
            if isinstance(obj, type) and issubclass(obj, BaseException):
                out = [k.__name__ for k in obj.__mro__ if k is not object]
            elif short.endswith("Error") or short.endswith("Exception"):
                # stdlib exception classes that are not builtins (subprocess.CalledProcessError, json.JSONDecodeError...)
                known = {"CalledProcessError": ("CalledProcessError", "SubprocessError", "Exception", "BaseException"),
                         "JSONDecodeError": ("JSONDecodeError", "ValueError", "Exception", "BaseException")}
                out = list(known.get(short, (short, "Exception", "BaseException")))
            else:
                out = [short, "Exception", "BaseException"]
        self._mro_cache[short] = tuple(out)
        return self._mro_cache[short]

    def catches(self, handler_names: list[str] | None, exc: str) -> bool:
        if handler_names is None:
            return True
        mro = self.exc_mro(exc)
        return any(h.split(".")[-1] in mro for h in handler_names)

    # ------------------------------------------------------------------ summaries
    def compute(self, roots: list[FunctionInfo]) -> None:
        fns = [self.prog.functions[q] for q in self.cg.reachable(roots)]
        for f in fns:
            self.summary.setdefault(f.qualname, {})
        changed = True
        rounds = 0
        while changed:
            changed = False
            rounds += 1
            for f in fns:
                new = self._function(f)
                cur = self.summary[f.qualname]
                for exc, r in new.items():
                    if exc not in cur:
                        cur[exc] = r
                        changed = True
            if rounds > 50:
                break
        self.rounds = rounds

    def escapes(self, fn: FunctionInfo) -> dict[str, Raised]:
        if fn.qualname not in self.summary:
            self.compute([fn])
        return self.summary[fn.qualname]

    def _function(self, fn: FunctionInfo) -> dict[str, Raised]:
        return self._stmts(fn, fn.node.body, ())

    def _merge(self, into: dict[str, Raised], more: dict[str, Raised]) -> None:
        for k, v in more.items():
            into.setdefault(k, v)

    def _stmts(self, fn: FunctionInfo, stmts: list[ast.stmt], caught: tuple[tuple[str, ...], ...]) -> dict[str, Raised]:
        out: dict[str, Raised] = {}
        for s in stmts:
            self._merge(out, self._stmt(fn, s, caught))
        return out

    def _handler_names(self, h: ast.ExceptHandler) -> list[str] | None:
        if h.type is None:
            return None
        if isinstance(h.type, ast.Tuple):
            return [dotted(e) or unparse(e) for e in h.type.elts]
        return [dotted(h.type) or unparse(h.type)]

    def _stmt(self, fn: FunctionInfo, s: ast.stmt, caught: tuple[tuple[str, ...], ...]) -> dict[str, Raised]:  # noqa: PLR0912
        out: dict[str, Raised] = {}
        if isinstance(s, (ast.FunctionDef, ast.AsyncFunctionDef, ast.ClassDef)):
            for d in s.decorator_list:
                self._merge(out, self._expr(fn, d))
            return out
        if isinstance(s, ast.Try):
            body = self._stmts(fn, s.body, caught)
            remaining = dict(body)
            for h in s.handlers:
                names = self._handler_names(h)
                got = {e: r for e, r in remaining.items() if self.catches(names, e)}
                for e in got:
                    remaining.pop(e)
                # the handler body; bare raise / raise <as-name> re-raises what was caught
                hb = self._stmts(fn, h.body, (*caught, tuple(got)))
                for node in self._raises_in(h.body):
                    if node.exc is None or (h.name and isinstance(node.exc, ast.Name) and node.exc.id == h.name):
                        for e, r in got.items():
                            hb.setdefault(e, r)
                        if not got and names:
                            pass
                self._merge(out, hb)
            self._merge(out, remaining)
            self._merge(out, self._stmts(fn, s.orelse, caught))
            self._merge(out, self._stmts(fn, s.finalbody, caught))
            return out
        if isinstance(s, (ast.With, ast.AsyncWith)):
            sup: list[str] = []
            for item in s.items:
                t = suppress_types(item)
                if t is not None:
                    sup += t
                else:
                    self._merge(out, self._expr(fn, item.context_expr))
            body = self._stmts(fn, s.body, caught)
            for e, r in body.items():
                if sup and self.catches(sup, e):
                    continue
                out.setdefault(e, r)
            return out
        if isinstance(s, ast.Raise):
            if s.exc is not None:
                self._merge(out, self._expr(fn, s.exc))
                target = s.exc.func if isinstance(s.exc, ast.Call) else s.exc
                name = dotted(target)
                if name and name[:1].isupper() or (name and "." in name and name.split(".")[-1][:1].isupper()):
                    short = name.split(".")[-1]
                    out.setdefault(short, Raised(short, fn.qualname, s.lineno))
                elif isinstance(s.exc, ast.Name):
                    pass  # re-raise of a bound exception: handled at the handler level
                else:
                    out.setdefault("Exception", Raised("Exception", fn.qualname, s.lineno))
            if s.cause is not None:
                self._merge(out, self._expr(fn, s.cause))
            return out
        if isinstance(s, (ast.If, ast.While)):
            self._merge(out, self._expr(fn, s.test))
            self._merge(out, self._stmts(fn, s.body, caught))
            self._merge(out, self._stmts(fn, s.orelse, caught))
            return out
        if isinstance(s, (ast.For, ast.AsyncFor)):
            self._merge(out, self._expr(fn, s.iter))
            self._merge(out, self._expr(fn, s.target))
            self._merge(out, self._stmts(fn, s.body, caught))
            self._merge(out, self._stmts(fn, s.orelse, caught))
            return out
        self._merge(out, self._expr(fn, s))
        return out

    @staticmethod
    def _raises_in(stmts: list[ast.stmt]) -> list[ast.Raise]:
        out = []
        stack: list[ast.AST] = list(stmts)
        while stack:
            n = stack.pop()
            if isinstance(n, ast.Raise):
                out.append(n)
            if isinstance(n, (ast.FunctionDef, ast.AsyncFunctionDef, ast.ClassDef, ast.Lambda)):
                continue
            if isinstance(n, ast.Try):
                # raises inside a nested try's handlers belong to that try
                stack.extend(n.body)
                stack.extend(n.orelse)
                stack.extend(n.finalbody)
                continue
            stack.extend(ast.iter_child_nodes(n))
        return out

    def _expr(self, fn: FunctionInfo, node: ast.AST) -> dict[str, Raised]:
        """Exceptions from the calls / property loads / intrinsic operations inside one statement or expression."""
        out: dict[str, Raised] = {}
        stack = [node]
        edges_by_site: dict[int, list] | None = None
        while stack:
            n = stack.pop()
            if isinstance(n, (ast.FunctionDef, ast.AsyncFunctionDef, ast.ClassDef)) and n is not node:
                continue
            stack.extend(ast.iter_child_nodes(n))
            if self.intrinsic is not None:
                for exc in self.intrinsic(fn, n):
                    out.setdefault(exc, Raised(exc, fn.qualname, getattr(n, "lineno", 0)))
            if isinstance(n, ast.Call) or (isinstance(n, ast.Attribute) and isinstance(n.ctx, ast.Load)):
                if edges_by_site is None:
                    edges_by_site = self._edges_index(fn)
                for e in edges_by_site.get(id(n), ()):
                    if not isinstance(e.callee, FunctionInfo):
                        continue
                    if self.skip_callee is not None and self.skip_callee(fn, e.callee, n):
                        continue
                    if self.refine_alias and not self._alias_feasible(fn, n, e.callee):
                        continue
                    for exc, r in self.summary.get(e.callee.qualname, {}).items():
                        if exc not in out:
                            out[exc] = Raised(exc, r.fn, r.line, (e.callee.qualname, *r.via)[:12])
        return out

    def _edges_index(self, fn: FunctionInfo) -> dict[int, list]:
        cache = self.__dict__.setdefault("_edge_idx", {})
        if fn.qualname not in cache:
            idx: dict[int, list] = {}
            for e in self.cg.edges_from(fn):
                idx.setdefault(id(e.site), []).append(e)
            cache[fn.qualname] = idx
        return cache[fn.qualname]

    def _alias_feasible(self, fn: FunctionInfo, site: ast.AST, callee: FunctionInfo) -> bool:
        """Drop Alias candidates when the receiver is known not to be an alias at this site (and vice versa)."""
        if self._alias_cls is None or callee.cls is None:
            return True
        recv = site.func.value if isinstance(site, ast.Call) and isinstance(site.func, ast.Attribute) else (
            site.value if isinstance(site, ast.Attribute) else None)
        if recv is None:
            return True
        rtext = unparse(recv)
        is_alias_callee = callee.cls is self._alias_cls
        facts = self._alias_facts(fn, site)
        if (rtext, False) in facts and is_alias_callee:
            return False
        if (rtext, True) in facts and not is_alias_callee and callee.cls.qualname.startswith("_griffe.models.") and callee.cls.name in (
            "Object", "Module", "Class", "Function", "Attribute"
        ):
            return False
        return True

    def _alias_facts(self, fn: FunctionInfo, site: ast.AST) -> set[tuple[str, bool]]:
        cache = self.__dict__.setdefault("_fact_cache", {})
        idx = node_index(fn)
        nodes = idx.get(id(site), [])
        out: set[tuple[str, bool]] | None = None
        cfg = cfg_of(fn)
        for n in nodes:
            k = (fn.qualname, n.idx)
            if k not in cache:
                facts = set()
                for text, truth in cfg.facts_on_all_paths(n):
                    if text.endswith(".is_alias"):
                        facts.add((text[: -len(".is_alias")], truth))
                # short-circuit facts inside the same expression: `x.is_alias and x.foo` / `not x.is_alias and ...`
                cache[k] = facts
            out = set(cache[k]) if out is None else out & cache[k]
        out = out or set()
        out |= _shortcircuit_alias_facts(site)
        return out


def _shortcircuit_alias_facts(site: ast.AST) -> set[tuple[str, bool]]:
    """Facts from `a.is_alias and <site>` / `not a.is_alias and <site>` / `<x> if a.is_alias else <site>` around the site."""
    from sa.cfg import implied
    from sa.srcmodel import parent

    out: set[tuple[str, bool]] = set()
    child = site
    cur = parent(site)
    while cur is not None and not isinstance(cur, ast.stmt):
        if isinstance(cur, ast.BoolOp):
            idx = next((i for i, v in enumerate(cur.values) if v is child), None)
            if idx:
                for prev in cur.values[:idx]:
                    for atom, truth in implied(prev, isinstance(cur.op, ast.And)):
                        t = unparse(atom)
                        if t.endswith(".is_alias"):
                            out.add((t[: -len(".is_alias")], truth))
        if isinstance(cur, ast.IfExp) and child is not cur.test:
            for atom, truth in implied(cur.test, child is cur.body):
                t = unparse(atom)
                if t.endswith(".is_alias"):
                    out.add((t[: -len(".is_alias")], truth))
        if isinstance(cur, (ast.ListComp, ast.SetComp, ast.DictComp, ast.GeneratorExp)):
            for gen in cur.generators:
                for cond in gen.ifs:
                    if not any(x is child for x in ast.walk(cond)):
                        for atom, truth in implied(cond, True):
                            t = unparse(atom)
                            if t.endswith(".is_alias"):
                                out.add((t[: -len(".is_alias")], truth))
        child = cur
        cur = parent(cur)
    return out
