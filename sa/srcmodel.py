"""Program model: parsed modules, import maps, class table with in-repo MRO, function index.

Built from source text only (``ast``).  An *overlay* (relative path -> replacement source) lets
the self-test analyse a mutated program without writing a copy of the repository.
"""

from __future__ import annotations

import ast
import os
from dataclasses import dataclass, field
from pathlib import Path
from typing import Callable, Iterator


class AnalysisError(Exception):
    """An anchor vanished or a construct is outside what the analysis models (exit 2)."""


REPO = Path(os.environ.get("VERIF_REPO", "/repo"))
SRC_DIRS = ("src/_griffe", "src/griffe")


def unparse(node: ast.AST | None) -> str:
    if node is None:
        return ""
    try:
        return ast.unparse(node)
    except Exception:  # noqa: BLE001
        return f"<{type(node).__name__}>"


def norm(node: ast.AST | str | None, limit: int = 160) -> str:
    """Normalised statement text used in finding keys (never a line number)."""
    text = node if isinstance(node, str) else unparse(node)
    text = " ".join(text.split())
    return text[:limit]


def set_parents(tree: ast.AST) -> None:
    for node in ast.walk(tree):
        for child in ast.iter_child_nodes(node):
            child._parent = node  # type: ignore[attr-defined]
    tree._parent = None  # type: ignore[attr-defined]


def parent(node: ast.AST) -> ast.AST | None:
    return getattr(node, "_parent", None)


def ancestors(node: ast.AST) -> Iterator[ast.AST]:
    cur = parent(node)
    while cur is not None:
        yield cur
        cur = parent(cur)


def enclosing_function(node: ast.AST) -> ast.FunctionDef | ast.AsyncFunctionDef | None:
    for anc in ancestors(node):
        if isinstance(anc, (ast.FunctionDef, ast.AsyncFunctionDef)):
            return anc
    return None


def dotted(node: ast.AST | None) -> str | None:
    """`a.b.c` for Name/Attribute chains, else None."""
    parts: list[str] = []
    while isinstance(node, ast.Attribute):
        parts.append(node.attr)
        node = node.value
    if isinstance(node, ast.Name):
        parts.append(node.id)
        return ".".join(reversed(parts))
    return None


def walk_no_nested(node: ast.AST, *, include_self: bool = False) -> Iterator[ast.AST]:
    """Walk a function body without descending into nested function/class/lambda definitions."""
    stack = [node] if include_self else list(ast.iter_child_nodes(node))
    while stack:
        cur = stack.pop()
        yield cur
        if cur is not node and isinstance(cur, (ast.FunctionDef, ast.AsyncFunctionDef, ast.ClassDef)):
            continue
        stack.extend(ast.iter_child_nodes(cur))


def in_type_checking(node: ast.AST) -> bool:
    for anc in ancestors(node):
        if isinstance(anc, ast.If):
            t = dotted(anc.test)
            if t in ("TYPE_CHECKING", "typing.TYPE_CHECKING"):
                return True
    return False


def is_annotation_context(node: ast.AST) -> bool:
    """True if node sits inside an annotation (never evaluated: `from __future__ import annotations`)."""
    child = node
    for anc in ancestors(node):
        if isinstance(anc, ast.AnnAssign) and anc.annotation is child:
            return True
        if isinstance(anc, ast.arg) and anc.annotation is child:
            return True
        if isinstance(anc, (ast.FunctionDef, ast.AsyncFunctionDef)) and anc.returns is child:
            return True
        child = anc
    return False


@dataclass
class FunctionInfo:
    qualname: str
    name: str
    node: ast.FunctionDef | ast.AsyncFunctionDef
    module: "Module"
    cls: "ClassInfo | None"
    outer: "FunctionInfo | None" = None

    @property
    def decorators(self) -> list[str]:
        cached = self.__dict__.get("_decorators")
        if cached is not None:
            return cached
        out = self.__dict__["_decorators"] = []
        for dec in self.node.decorator_list:
            target = dec.func if isinstance(dec, ast.Call) else dec
            out.append(dotted(target) or unparse(target))
        return out

    @property
    def is_property(self) -> bool:
        return any(d in ("property", "cached_property", "functools.cached_property") for d in self.decorators)

    @property
    def is_setter(self) -> bool:
        return any(d.endswith((".setter", ".deleter")) for d in self.decorators)

    @property
    def is_contextmanager(self) -> bool:
        return any(d.split(".")[-1] == "contextmanager" for d in self.decorators)

    @property
    def is_generator(self) -> bool:
        cached = self.__dict__.get("_is_generator")
        if cached is None:
            cached = any(isinstance(n, (ast.Yield, ast.YieldFrom)) for n in walk_no_nested(self.node))
            self.__dict__["_is_generator"] = cached
        return cached

    @property
    def params(self) -> list[str]:
        a = self.node.args
        return [x.arg for x in (*a.posonlyargs, *a.args, *a.kwonlyargs)]

    def __hash__(self) -> int:
        return hash(self.qualname)

    def __repr__(self) -> str:
        return f"<fn {self.qualname}>"


@dataclass
class ClassInfo:
    qualname: str
    name: str
    node: ast.ClassDef
    module: "Module"
    base_names: list[str] = field(default_factory=list)  # resolved dotted names (in-repo or external)
    methods: dict[str, list[FunctionInfo]] = field(default_factory=dict)  # name -> defs (getter, setter...)
    class_attrs: dict[str, ast.AST] = field(default_factory=dict)  # name -> value node
    class_annots: dict[str, ast.AST] = field(default_factory=dict)  # name -> annotation node

    def __hash__(self) -> int:
        return hash(self.qualname)

    def __repr__(self) -> str:
        return f"<class {self.qualname}>"


@dataclass
class Module:
    name: str
    relpath: str
    source: str
    tree: ast.Module
    imports: dict[str, str] = field(default_factory=dict)  # local name -> dotted target
    functions: dict[str, FunctionInfo] = field(default_factory=dict)  # top-level only
    classes: dict[str, ClassInfo] = field(default_factory=dict)  # top-level only
    assigns: dict[str, ast.AST] = field(default_factory=dict)  # module-level name -> value node
    future_annotations: bool = False

    def __repr__(self) -> str:
        return f"<module {self.name}>"


class Program:
    """All modules under src/_griffe and src/griffe of the repository working tree."""

    def __init__(self, root: Path | None = None, overlay: dict[str, str] | None = None) -> None:
        self.root = Path(root or REPO)
        self.overlay = overlay or {}
        self.modules: dict[str, Module] = {}
        self.by_relpath: dict[str, Module] = {}
        self.functions: dict[str, FunctionInfo] = {}
        self.classes: dict[str, ClassInfo] = {}
        self.fn_of_node: dict[int, FunctionInfo] = {}
        self._mro_cache: dict[str, list[ClassInfo]] = {}
        self._sub_cache: dict[str, list[ClassInfo]] = {}
        self._load()
        self._index()

    # ------------------------------------------------------------------ loading
    def _load(self) -> None:
        files: list[Path] = []
        for sub in SRC_DIRS:
            base = self.root / sub
            if not base.is_dir():
                raise AnalysisError(f"source directory missing: {base}")
            files.extend(sorted(p for p in base.rglob("*.py") if "__pycache__" not in p.parts))
        if len(files) < 30:
            raise AnalysisError(f"only {len(files)} source files found under {self.root}/src (expected >= 30)")
        for path in files:
            rel = str(path.relative_to(self.root))
            text = self.overlay.get(rel)
            if text is None:
                text = path.read_text(encoding="utf8")
            try:
                tree = ast.parse(text, filename=rel)
            except SyntaxError as exc:
                raise AnalysisError(f"cannot parse {rel}: {exc}") from exc
            set_parents(tree)
            parts = list(Path(rel).with_suffix("").parts[1:])  # drop 'src'
            if parts[-1] == "__init__":
                parts.pop()
            mod = Module(".".join(parts), rel, text, tree)
            self.modules[mod.name] = mod
            self.by_relpath[rel] = mod
        for rel in self.overlay:
            if rel not in self.by_relpath and rel.endswith(".py"):
                raise AnalysisError(f"overlay for unknown file {rel}")

    def _index(self) -> None:
        for mod in self.modules.values():
            self._index_module(mod)
        for cls in self.classes.values():
            cls.base_names = [self.resolve(cls.module, b) or unparse(b) for b in cls.node.bases]

    def _index_module(self, mod: Module) -> None:
        is_pkg = mod.relpath.endswith("__init__.py")
        for node in ast.walk(mod.tree):
            if isinstance(node, ast.Import):
                for alias in node.names:
                    if alias.asname:
                        mod.imports[alias.asname] = alias.name
                    else:
                        mod.imports[alias.name.split(".")[0]] = alias.name.split(".")[0]
            elif isinstance(node, ast.ImportFrom):
                base = node.module or ""
                if node.level:
                    pkg = mod.name.split(".")
                    if not is_pkg:
                        pkg = pkg[:-1]
                    pkg = pkg[: len(pkg) - (node.level - 1)]
                    base = ".".join([*pkg, base] if base else pkg)
                if base == "__future__":
                    if any(a.name == "annotations" for a in node.names):
                        mod.future_annotations = True
                    continue
                for alias in node.names:
                    if alias.name == "*":
                        continue
                    mod.imports.setdefault(alias.asname or alias.name, f"{base}.{alias.name}")
        for stmt in self._toplevel(mod.tree.body):
            if isinstance(stmt, (ast.FunctionDef, ast.AsyncFunctionDef)):
                self._index_function(stmt, mod, None, None, mod.name)
            elif isinstance(stmt, ast.ClassDef):
                self._index_class(stmt, mod, mod.name)
            elif isinstance(stmt, ast.Assign):
                for tgt in stmt.targets:
                    if isinstance(tgt, ast.Name):
                        mod.assigns[tgt.id] = stmt.value
                    elif isinstance(tgt, (ast.Tuple, ast.List)) and isinstance(stmt.value, (ast.Tuple, ast.List)) and len(tgt.elts) == len(stmt.value.elts):
                        # `A, B = 0, 1`: each name is bound to its own element
                        for t_, v_ in zip(tgt.elts, stmt.value.elts):
                            if isinstance(t_, ast.Name) and not isinstance(v_, ast.Starred):
                                mod.assigns[t_.id] = v_
            elif isinstance(stmt, ast.AnnAssign) and isinstance(stmt.target, ast.Name) and stmt.value is not None:
                mod.assigns[stmt.target.id] = stmt.value

    @staticmethod
    def _toplevel(body: list[ast.stmt]) -> Iterator[ast.stmt]:
        """Module/class-level statements, descending into if/try blocks (but not TYPE_CHECKING-only ones for defs)."""
        for stmt in body:
            if isinstance(stmt, ast.If):
                yield from Program._toplevel(stmt.body)
                yield from Program._toplevel(stmt.orelse)
            elif isinstance(stmt, ast.Try):
                yield from Program._toplevel(stmt.body)
                for h in stmt.handlers:
                    yield from Program._toplevel(h.body)
                yield from Program._toplevel(stmt.orelse)
                yield from Program._toplevel(stmt.finalbody)
            else:
                yield stmt

    def _index_class(self, node: ast.ClassDef, mod: Module, prefix: str) -> ClassInfo:
        qual = f"{prefix}.{node.name}"
        cls = ClassInfo(qual, node.name, node, mod)
        self.classes[qual] = cls
        if prefix == mod.name:
            mod.classes[node.name] = cls
        for stmt in self._toplevel(node.body):
            if isinstance(stmt, (ast.FunctionDef, ast.AsyncFunctionDef)):
                fn = self._index_function(stmt, mod, cls, None, qual)
                cls.methods.setdefault(stmt.name, []).append(fn)
            elif isinstance(stmt, ast.ClassDef):
                self._index_class(stmt, mod, qual)
            elif isinstance(stmt, ast.Assign):
                for tgt in stmt.targets:
                    if isinstance(tgt, ast.Name):
                        cls.class_attrs[tgt.id] = stmt.value
            elif isinstance(stmt, ast.AnnAssign) and isinstance(stmt.target, ast.Name):
                cls.class_annots[stmt.target.id] = stmt.annotation
                if stmt.value is not None:
                    cls.class_attrs[stmt.target.id] = stmt.value
        return cls

    def _index_function(
        self,
        node: ast.FunctionDef | ast.AsyncFunctionDef,
        mod: Module,
        cls: ClassInfo | None,
        outer: FunctionInfo | None,
        prefix: str,
    ) -> FunctionInfo:
        qual = f"{prefix}.{node.name}"
        fn = FunctionInfo(qual, node.name, node, mod, cls, outer)
        # property getter / setter / deleter share a name: keep the first under the plain key
        key = qual
        n = 1
        while key in self.functions:
            n += 1
            key = f"{qual}#{n}"
        fn.qualname = key
        self.functions[key] = fn
        self.fn_of_node[id(node)] = fn
        if cls is None and outer is None:
            mod.functions.setdefault(node.name, fn)
        for sub in walk_no_nested(node):
            if isinstance(sub, (ast.FunctionDef, ast.AsyncFunctionDef)):
                self._index_function(sub, mod, cls, fn, key)
        return fn

    # ------------------------------------------------------------------ queries
    def module(self, name: str) -> Module:
        try:
            return self.modules[name]
        except KeyError:
            raise AnalysisError(f"anchor module vanished: {name}") from None

    def function(self, qualname: str) -> FunctionInfo:
        try:
            return self.functions[qualname]
        except KeyError:
            raise AnalysisError(f"anchor function vanished: {qualname}") from None

    def cls(self, qualname: str) -> ClassInfo:
        try:
            return self.classes[qualname]
        except KeyError:
            raise AnalysisError(f"anchor class vanished: {qualname}") from None

    def resolve(self, mod: Module, node: ast.AST | str | None) -> str | None:
        """Resolve a Name/Attribute (or dotted string) used in `mod` to a dotted global path."""
        name = node if isinstance(node, str) else dotted(node)
        if not name:
            return None
        head, _, rest = name.partition(".")
        if head in mod.functions or head in mod.classes or head in mod.assigns:
            base = f"{mod.name}.{head}"
        elif head in mod.imports:
            base = mod.imports[head]
        else:
            return name if not rest else name
        full = f"{base}.{rest}" if rest else base
        return self.canonical(full)

    def canonical(self, path: str, _depth: int = 0) -> str:
        """Follow re-exports (`from _griffe.x import Y` in another module) to the defining module."""
        if _depth > 8:
            return path
        if path in self.functions or path in self.classes or path in self.modules:
            return path
        modname, _, attr = path.rpartition(".")
        mod = self.modules.get(modname)
        if mod is not None and attr in mod.imports:
            return self.canonical(mod.imports[attr], _depth + 1)
        # attribute of class / deeper path
        if modname and modname not in self.modules:
            head = self.canonical(modname, _depth + 1)
            if head != modname:
                return f"{head}.{attr}"
        return path

    def mro(self, cls: ClassInfo) -> list[ClassInfo]:
        """In-repo linearisation (C3 when consistent, else DFS order); external bases skipped."""
        cached = self._mro_cache.get(cls.qualname)
        if cached is not None:
            return cached
        seen: list[ClassInfo] = []

        def lin(c: ClassInfo, stack: tuple[str, ...]) -> list[ClassInfo]:
            if c.qualname in stack:
                return []
            seqs = [lin(self.classes[b], (*stack, c.qualname)) for b in c.base_names if b in self.classes]
            seqs.append([self.classes[b] for b in c.base_names if b in self.classes])
            out = [c]
            seqs = [list(s) for s in seqs if s]
            while seqs:
                for s in seqs:
                    head = s[0]
                    if not any(head in t[1:] for t in seqs):
                        break
                else:
                    head = seqs[0][0]
                out.append(head)
                seqs = [[x for x in s if x is not head] for s in seqs]
                seqs = [s for s in seqs if s]
            return out

        for c in lin(cls, ()):
            if c not in seen:
                seen.append(c)
        self._mro_cache[cls.qualname] = seen
        return seen

    def subclasses(self, cls: ClassInfo) -> list[ClassInfo]:
        cached = self._sub_cache.get(cls.qualname)
        if cached is None:
            cached = [c for c in self.classes.values() if c is not cls and cls in self.mro(c)]
            self._sub_cache[cls.qualname] = cached
        return cached

    def lookup_method(self, cls: ClassInfo, name: str, *, after: ClassInfo | None = None) -> list[FunctionInfo]:
        mro = self.mro(cls)
        if after is not None and after in mro:
            mro = mro[mro.index(after) + 1 :]
        for c in mro:
            if name in c.methods:
                return c.methods[name]
        return []

    def lookup_class_attr(self, cls: ClassInfo, name: str) -> tuple[ClassInfo, ast.AST] | None:
        for c in self.mro(cls):
            if name in c.class_attrs:
                return c, c.class_attrs[name]
        return None

    def methods_named(self, name: str) -> list[FunctionInfo]:
        out = []
        for c in self.classes.values():
            out.extend(c.methods.get(name, []))
        return out

    def iter_functions(self, predicate: Callable[[FunctionInfo], bool] | None = None) -> Iterator[FunctionInfo]:
        for fn in self.functions.values():
            if predicate is None or predicate(fn):
                yield fn

    def fn_containing(self, node: ast.AST) -> FunctionInfo | None:
        f = enclosing_function(node)
        return self.fn_of_node.get(id(f)) if f is not None else None

    def loc(self, mod: Module, node: ast.AST) -> str:
        return f"{mod.relpath}:{getattr(node, 'lineno', 0)}"

    def stats(self) -> dict[str, int]:
        calls = sum(1 for m in self.modules.values() for n in ast.walk(m.tree) if isinstance(n, ast.Call))
        return {
            "files": len(self.modules),
            "classes": len(self.classes),
            "functions": len(self.functions),
            "call_sites": calls,
        }
