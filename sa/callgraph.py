"""Call graph over the parsed program (ast only).

Resolution order for a call `f(...)` / `x.m(...)` in function F:
  1. names through F's nested defs, the module's definitions and import map (re-exports followed);
     a class resolves to its `__init__` (+ `__post_init__`); `partial(f, ...)` aliases resolve to f;
  2. `self.m` / `cls.m` through the in-repo MRO **plus overriding subclasses**; `super().m` through
     the MRO after the current class;
  3. `x.m` where x's class is known (parameter / local / `self.attr` annotation, constructor call)
     through that class and its subclasses;
  4. reflective dispatchers `getattr(self, f"visit_{...}", default)`: every method with that prefix;
  5. dispatch tables (module-level or class-level dict/list displays whose values are functions);
  6. otherwise class-hierarchy analysis by method name over all `_griffe` classes (over-approximation).
Attribute *loads* that name an in-repo property produce `prop` edges the same way.
External callees are reported as dotted strings (`importlib.import_module`, `subprocess.run`, ...).
"""

from __future__ import annotations

import ast
from dataclasses import dataclass
from typing import Iterator

from sa.srcmodel import ClassInfo, FunctionInfo, Program, dotted, unparse, walk_no_nested

# Method names so generic that by-name CHA would connect everything to everything; for these the
# receiver must be typed (or self) to produce an in-repo edge.  Reason per entry: dict/list/set/str API.
GENERIC_METHOD_NAMES = {
    "get", "items", "keys", "values", "append", "extend", "add", "update", "pop", "remove", "insert",
    "copy", "clear", "index", "count", "sort", "split", "join", "strip", "format", "startswith",
    "endswith", "replace", "lower", "upper", "setdefault", "discard", "read_text", "write", "exists",
}  # fmt: skip


@dataclass(frozen=True)
class Edge:
    caller: FunctionInfo
    callee: "FunctionInfo | str"  # FunctionInfo (in repo) or dotted external name
    site: ast.AST
    kind: str  # call | prop | table | cha

    @property
    def callee_name(self) -> str:
        return self.callee.qualname if isinstance(self.callee, FunctionInfo) else self.callee


class CallGraph:
    def __init__(self, prog: Program) -> None:
        self.prog = prog
        self._edges: dict[str, list[Edge]] = {}
        self._prop_names: dict[str, list[FunctionInfo]] = {}
        for cls in prog.classes.values():
            for name, defs in cls.methods.items():
                for fn in defs:
                    if fn.is_property:
                        self._prop_names.setdefault(name, []).append(fn)

    # ------------------------------------------------------------------ types
    def classes_of_annotation(self, mod, ann: ast.AST | None) -> list[ClassInfo]:
        if ann is None:
            return []
        if isinstance(ann, ast.Constant) and isinstance(ann.value, str):
            try:
                ann = ast.parse(ann.value, mode="eval").body
            except SyntaxError:
                return []
        out: list[ClassInfo] = []
        if isinstance(ann, ast.BinOp) and isinstance(ann.op, ast.BitOr):
            return self.classes_of_annotation(mod, ann.left) + self.classes_of_annotation(mod, ann.right)
        if isinstance(ann, ast.Subscript):
            head = dotted(ann.value) or ""
            if head.split(".")[-1] in ("Optional", "Union", "cast"):
                elts = ann.slice.elts if isinstance(ann.slice, ast.Tuple) else [ann.slice]
                for e in elts:
                    out += self.classes_of_annotation(mod, e)
                return out
            return self.classes_of_annotation(mod, ann.value)
        name = dotted(ann)
        if name:
            full = self.prog.resolve(mod, name)
            if full in self.prog.classes:
                out.append(self.prog.classes[full])
        return out

    def type_of(self, fn: FunctionInfo, expr: ast.AST, _depth: int = 0) -> list[ClassInfo]:
        """Best-effort in-repo class set of an expression inside fn."""
        prog, mod = self.prog, fn.module
        if _depth > 4:
            return []
        if isinstance(expr, ast.Name):
            if expr.id in ("self", "cls") and fn.cls is not None:
                return [fn.cls]
            # parameter annotation (this function or enclosing ones)
            cur: FunctionInfo | None = fn
            while cur is not None:
                a = cur.node.args
                for arg in (*a.posonlyargs, *a.args, *a.kwonlyargs, *(x for x in (a.vararg, a.kwarg) if x)):
                    if arg.arg == expr.id:
                        return self.classes_of_annotation(mod, arg.annotation)
                # local assignments
                found: list[ClassInfo] = []
                for node in walk_no_nested(cur.node):
                    if isinstance(node, ast.AnnAssign) and isinstance(node.target, ast.Name) and node.target.id == expr.id:
                        found += self.classes_of_annotation(mod, node.annotation)
                    elif isinstance(node, ast.Assign) and any(
                        isinstance(t, ast.Name) and t.id == expr.id for t in node.targets
                    ):
                        found += self.type_of(cur, node.value, _depth + 1)
                    elif isinstance(node, (ast.With, ast.AsyncWith)):
                        for item in node.items:
                            if isinstance(item.optional_vars, ast.Name) and item.optional_vars.id == expr.id:
                                found += self.type_of(cur, item.context_expr, _depth + 1)
                    elif isinstance(node, (ast.For, ast.AsyncFor)) and any(isinstance(t, ast.Name) and t.id == expr.id for t in ast.walk(node.target)):
                        # also bound by a loop: typed only when the element type of the iterable is known (a later `x = cast(T, x)` does not
                        # type the earlier uses)
                        el = self.elem_types(cur, node.iter, _depth + 1) if isinstance(node.target, ast.Name) else []
                        if not el and isinstance(node.target, ast.Tuple) and isinstance(node.iter, (ast.Tuple, ast.List)) and node.iter.elts and all(
                                isinstance(row, (ast.Tuple, ast.List)) and len(row.elts) == len(node.target.elts) for row in node.iter.elts):
                            # `for a, b in ((x, y), (y, x))`: a display of displays - each target takes the types of its column
                            col = next((i for i, t in enumerate(node.target.elts) if isinstance(t, ast.Name) and t.id == expr.id), None)
                            if col is not None:
                                per_row = [self.type_of(cur, row.elts[col], _depth + 1) for row in node.iter.elts]
                                if all(per_row):
                                    el = [c for r in per_row for c in r]
                        if not el:
                            return []
                        found += el
                if found:
                    return list(dict.fromkeys(found))
                cur = cur.outer
            full = prog.resolve(mod, expr.id)
            if full in prog.classes:
                return []  # the class object itself, not an instance
            return []
        if isinstance(expr, ast.Call):
            f = expr.func
            name = dotted(f)
            if name:
                full = prog.resolve(mod, name)
                if full in prog.classes:
                    return [prog.classes[full]]
                if full in prog.functions:
                    return self.classes_of_annotation(prog.functions[full].module, prog.functions[full].node.returns)
                if name.split(".")[-1] == "cast" and len(expr.args) == 2:
                    return self.classes_of_annotation(mod, expr.args[0])
            if isinstance(f, ast.Attribute) and f.attr in ("pop", "popleft") and isinstance(f.value, ast.Name):
                # an element taken from a local declared `name: list[T] = ...` (a work list): T - provided every other binding of the name
                # and everything appended to it is accounted for by that declaration (no other assignment to the name)
                decls = [n for n in walk_no_nested(fn.node) if isinstance(n, ast.AnnAssign) and isinstance(n.target, ast.Name) and n.target.id == f.value.id]
                others = [n for n in walk_no_nested(fn.node) if isinstance(n, ast.Name) and n.id == f.value.id and isinstance(n.ctx, ast.Store)]
                if len(decls) == 1 and len(others) == 1 and f.value.id not in fn.params:
                    el = self._elem_classes_of_annotation(mod, decls[0].annotation)
                    if el:
                        return el
            if isinstance(f, ast.Attribute):
                out: list[ClassInfo] = []
                for c in self.type_of(fn, f.value, _depth + 1):
                    for m in prog.lookup_method(c, f.attr):
                        out += self.classes_of_annotation(m.module, m.node.returns)
                return list(dict.fromkeys(out))
            return []
        if isinstance(expr, ast.Attribute):
            out = []
            for c in self.type_of(fn, expr.value, _depth + 1):
                out += self.attr_types(c, expr.attr)
            return list(dict.fromkeys(out))
        if isinstance(expr, ast.Subscript):
            out = []
            for c in self.type_of(fn, expr.value, _depth + 1):
                for m in prog.lookup_method(c, "__getitem__"):
                    out += self.classes_of_annotation(m.module, m.node.returns)
            return list(dict.fromkeys(out))
        if isinstance(expr, ast.BoolOp):
            out = []
            for v in expr.values:
                out += self.type_of(fn, v, _depth + 1)
            return list(dict.fromkeys(out))
        if isinstance(expr, ast.IfExp):
            return list(dict.fromkeys(self.type_of(fn, expr.body, _depth + 1) + self.type_of(fn, expr.orelse, _depth + 1)))
        return []

    _ELEMENT_CONTAINERS = {"list", "List", "Sequence", "Iterable", "Iterator", "set", "Set", "frozenset", "Collection", "MutableSequence", "Generator", "tuple", "Tuple"}

    def _elem_classes_of_annotation(self, mod, ann: ast.AST | None) -> list[ClassInfo]:
        """Element classes of `list[T]` / `Sequence[T]` / `tuple[T, ...]` style annotations; [] when not of that form or T is not one in-repo class set."""
        if isinstance(ann, ast.Constant) and isinstance(ann.value, str):
            try:
                ann = ast.parse(ann.value, mode="eval").body
            except SyntaxError:
                return []
        if isinstance(ann, ast.Subscript) and (dotted(ann.value) or "").split(".")[-1] in self._ELEMENT_CONTAINERS:
            sl = ann.slice
            if isinstance(sl, ast.Tuple):
                elts = [e for e in sl.elts if not (isinstance(e, ast.Constant) and e.value is Ellipsis)]
                if len(elts) != 1:
                    return []
                sl = elts[0]
            # every alternative of the element type must be known: `list[Expr | str]` says nothing about `str`-typed elements having griffe properties
            parts: list[ast.AST] = []
            stack = [sl]
            while stack:
                x = stack.pop()
                if isinstance(x, ast.BinOp) and isinstance(x.op, ast.BitOr):
                    stack += [x.left, x.right]
                else:
                    parts.append(x)
            out: list[ClassInfo] = []
            for part in parts:
                if isinstance(part, ast.Name) and part.id in ("str", "int", "bool", "float", "bytes", "None"):
                    continue
                if isinstance(part, ast.Constant) and part.value is None:
                    continue
                cs = self.classes_of_annotation(mod, part)
                if not cs:
                    return []
                out += cs
            return out
        return []

    def elem_types(self, fn: FunctionInfo, it: ast.AST, _depth: int = 0) -> list[ClassInfo]:
        """In-repo class set of the elements of an iterable expression, or [] when unknown."""
        if _depth > 4:
            return []
        if isinstance(it, ast.Call) and isinstance(it.func, ast.Name) and it.func.id in ("reversed", "sorted", "list", "tuple", "iter") and it.args:
            return self.elem_types(fn, it.args[0], _depth + 1)
        if isinstance(it, ast.ListComp) and len(it.generators) == 1 and isinstance(it.elt, ast.Name) and isinstance(it.generators[0].target, ast.Name) \
                and it.elt.id == it.generators[0].target.id:
            # `[m for m in xs if isinstance(m, T)]`
            for cond in it.generators[0].ifs:
                if isinstance(cond, ast.Call) and dotted(cond.func) == "isinstance" and len(cond.args) == 2 and unparse(cond.args[0]) == it.elt.id:
                    cs = self.classes_of_annotation(fn.module, cond.args[1])
                    if cs:
                        return cs
            return self.elem_types(fn, it.generators[0].iter, _depth + 1)
        if isinstance(it, ast.Name):
            cur: FunctionInfo | None = fn
            while cur is not None:
                a = cur.node.args
                for arg in (*a.posonlyargs, *a.args, *a.kwonlyargs):
                    if arg.arg == it.id:
                        return self._elem_classes_of_annotation(cur.module, arg.annotation)
                vals = [n for n in walk_no_nested(cur.node) if isinstance(n, ast.Assign) and any(isinstance(t, ast.Name) and t.id == it.id for t in n.targets)]
                anns = [n for n in walk_no_nested(cur.node) if isinstance(n, ast.AnnAssign) and isinstance(n.target, ast.Name) and n.target.id == it.id]
                if vals or anns:
                    out: list[ClassInfo] = []
                    for n in anns:
                        el = self._elem_classes_of_annotation(cur.module, n.annotation)
                        if not el:
                            return []
                        out += el
                    for n in vals:
                        if isinstance(n.value, (ast.Tuple, ast.List, ast.Set)) and not n.value.elts:
                            continue  # an empty literal contributes no element
                        el = self.elem_types(cur, n.value, _depth + 1)
                        if not el:
                            return []
                        out += el
                    return list(dict.fromkeys(out))
                cur = cur.outer
            return []
        if isinstance(it, ast.Call):
            f = it.func
            name = dotted(f)
            if name:
                full = self.prog.resolve(fn.module, name)
                if full in self.prog.functions:
                    g = self.prog.functions[full]
                    return self._elem_classes_of_annotation(g.module, g.node.returns)
            if isinstance(f, ast.Attribute):
                out = []
                for c in self.type_of(fn, f.value, _depth + 1):
                    for m in self.prog.lookup_method(c, f.attr):
                        el = self._elem_classes_of_annotation(m.module, m.node.returns)
                        if not el:
                            return []
                        out += el
                return list(dict.fromkeys(out))
            return []
        if isinstance(it, ast.Attribute):
            out = []
            for c in self.type_of(fn, it.value, _depth + 1):
                for k in self.prog.mro(c):
                    ann = k.class_annots.get(it.attr)
                    props = [m for defs in k.methods.values() for m in defs if m.name == it.attr and m.is_property]
                    inits = [n for defs in k.methods.values() for m in defs if m.name in ("__init__", "__post_init__") for n in walk_no_nested(m.node)
                             if isinstance(n, ast.AnnAssign) and isinstance(n.target, ast.Attribute) and dotted(n.target) == f"self.{it.attr}"]
                    cands = ([ann] if ann is not None else []) + [m.node.returns for m in props] + [n.annotation for n in inits]
                    if cands:
                        for a_ in cands:
                            el = self._elem_classes_of_annotation(k.module, a_)
                            if not el:
                                return []
                            out += el
                        break
            return list(dict.fromkeys(out))
        return []

    def externally_typed(self, fn: FunctionInfo, expr: ast.AST) -> bool:
        """The expression is a parameter whose annotation names only classes from outside the repository (`ast.AST | None`, `Path`): an attribute
        read on it cannot be one of the repository's properties."""
        if not isinstance(expr, ast.Name):
            return False
        cur: FunctionInfo | None = fn
        while cur is not None:
            a = cur.node.args
            for arg in (*a.posonlyargs, *a.args, *a.kwonlyargs):
                if arg.arg == expr.id:
                    return self._external_annotation(cur.module, arg.annotation)
            cur = cur.outer
        return False

    def _external_annotation(self, mod, ann: ast.AST | None) -> bool:
        if ann is None:
            return False
        if isinstance(ann, ast.Constant) and isinstance(ann.value, str):
            try:
                ann = ast.parse(ann.value, mode="eval").body
            except SyntaxError:
                return False
        if isinstance(ann, ast.Constant) and ann.value is None:
            return True
        if isinstance(ann, ast.BinOp) and isinstance(ann.op, ast.BitOr):
            return self._external_annotation(mod, ann.left) and self._external_annotation(mod, ann.right)
        name = dotted(ann)
        if not name:
            return False
        root = name.split(".")[0]
        target = mod.imports.get(root)
        # only names imported from outside the package count: builtins and generics (`Any`, `object`, type variables) say nothing
        return target is not None and not target.startswith(("_griffe", "griffe")) and target.split(".")[0] not in ("typing", "typing_extensions", "collections")

    def attr_types(self, cls: ClassInfo, attr: str) -> list[ClassInfo]:
        """Declared in-repo class set of `instance.attr` (self.attr: T in any method, class annotation, property return)."""
        out: list[ClassInfo] = []
        for c in self.prog.mro(cls):
            if attr in c.class_annots:
                out += self.classes_of_annotation(c.module, c.class_annots[attr])
            for defs in c.methods.values():
                for m in defs:
                    if m.name == attr and m.is_property:
                        out += self.classes_of_annotation(m.module, m.node.returns)
                    if m.name in ("__init__", "__post_init__"):
                        for node in walk_no_nested(m.node):
                            if (
                                isinstance(node, ast.AnnAssign)
                                and isinstance(node.target, ast.Attribute)
                                and dotted(node.target) == f"self.{attr}"
                            ):
                                out += self.classes_of_annotation(c.module, node.annotation)
            if out:
                break
        return list(dict.fromkeys(out))

    # ------------------------------------------------------------------ resolution
    def _class_ctor(self, cls: ClassInfo) -> list[FunctionInfo]:
        out = []
        for name in ("__init__", "__post_init__", "__new__"):
            out += self.prog.lookup_method(cls, name)
        return out

    def _methods_with_overrides(self, cls: ClassInfo, name: str) -> list[FunctionInfo]:
        out = list(self.prog.lookup_method(cls, name))
        for sub in self.prog.subclasses(cls):
            out += sub.methods.get(name, [])
        return list(dict.fromkeys(out))

    def _table_values(self, fn: FunctionInfo, node: ast.AST) -> list[FunctionInfo] | None:
        """Functions stored in a dict/list display or partial(...)."""
        prog, mod = self.prog, fn.module
        if isinstance(node, ast.Call) and (dotted(node.func) or "").split(".")[-1] == "partial" and node.args:
            full = prog.resolve(mod, node.args[0])
            if full in prog.functions:
                return [prog.functions[full]]
            return None
        vals: list[ast.AST] = []
        if isinstance(node, ast.Dict):
            vals = list(node.values)
        elif isinstance(node, (ast.List, ast.Tuple, ast.Set)):
            vals = list(node.elts)
        else:
            return None
        out = []
        for v in vals:
            full = prog.resolve(mod, v) if v is not None else None
            if full in prog.functions:
                out.append(prog.functions[full])
            elif full in prog.classes:
                out += self._class_ctor(prog.classes[full])
            elif isinstance(v, ast.Attribute) and isinstance(v.value, ast.Name) and v.value.id in ("self", "cls") and fn.cls:
                out += self._methods_with_overrides(fn.cls, v.attr)
        return out or None

    def resolve_name_target(self, fn: FunctionInfo, name: str) -> tuple[list[FunctionInfo], str | None]:
        prog, mod = self.prog, fn.module
        # nested defs
        cur: FunctionInfo | None = fn
        while cur is not None:
            key = f"{cur.qualname}.{name}"
            if key in prog.functions:
                return [prog.functions[key]], None
            cur = cur.outer
        full = prog.resolve(mod, name)
        if full in prog.functions:
            return [prog.functions[full]], None
        if full in prog.classes:
            return self._class_ctor(prog.classes[full]), None
        # module-level alias to partial / table
        head = name.split(".")[0]
        owner = mod
        if full and "." in full:
            m2, _, attr = full.rpartition(".")
            if m2 in prog.modules and attr in prog.modules[m2].assigns:
                owner, head = prog.modules[m2], attr
        if head in owner.assigns:
            dummy = FunctionInfo("", "", fn.node, owner, None)
            tv = self._table_values(dummy, owner.assigns[head])
            if tv:
                return tv, None
        return [], full

    def callees_of_call(self, fn: FunctionInfo, call: ast.Call) -> list[tuple["FunctionInfo | str", str]]:
        prog = self.prog
        f = call.func
        out: list[tuple[FunctionInfo | str, str]] = []
        if isinstance(f, ast.Name):
            # local variable holding a reflective dispatch or a table lookup
            local = self._local_callable(fn, f.id)
            if local is not None:
                return [(x, "table") for x in local]
            fns, ext = self.resolve_name_target(fn, f.id)
            out += [(x, "call") for x in fns]
            if not fns and ext:
                out.append((ext, "call"))
            return out
        if isinstance(f, ast.Attribute):
            recv = f.value
            # super().m
            if isinstance(recv, ast.Call) and isinstance(recv.func, ast.Name) and recv.func.id == "super" and fn.cls:
                return [(x, "call") for x in prog.lookup_method(fn.cls, f.attr, after=fn.cls)] or [(f"super.{f.attr}", "call")]
            # module attribute / imported name chain
            name = dotted(f)
            if name:
                head = name.split(".")[0]
                if head not in ("self", "cls") and not self._is_local(fn, head):
                    fns, ext = self.resolve_name_target(fn, name)
                    if fns:
                        return [(x, "call") for x in fns]
                    if ext and (head in fn.module.imports):
                        # Class.method via imported class?
                        modpart, _, attr = ext.rpartition(".")
                        if modpart in prog.classes:
                            ms = prog.lookup_method(prog.classes[modpart], attr)
                            if ms:
                                return [(x, "call") for x in ms]
                        return [(ext, "call")]
                    if head in fn.module.classes or (prog.resolve(fn.module, head) in prog.classes):
                        c = prog.classes.get(prog.resolve(fn.module, head) or "")
                        if c is not None and len(name.split(".")) == 2:
                            ms = prog.lookup_method(c, f.attr)
                            if ms:
                                return [(x, "call") for x in ms]
            # table lookup call: TABLE[key](...)
            types = self.type_of(fn, recv)
            if types:
                for c in types:
                    for m in self._methods_with_overrides(c, f.attr):
                        out.append((m, "call"))
                if out:
                    return list(dict.fromkeys(out))
                return [(f"{types[0].qualname}.{f.attr}?", "call")]
            if f.attr in GENERIC_METHOD_NAMES:
                return [(f"?.{f.attr}", "cha")]
            cands = prog.methods_named(f.attr)
            if cands:
                return [(x, "cha") for x in cands]
            return [(f"?.{f.attr}", "cha")]
        if isinstance(f, ast.Subscript):
            tbl = self._table_of(fn, f.value)
            if tbl:
                return [(x, "table") for x in tbl]
            return [("?[...]", "table")]
        if isinstance(f, ast.Call):
            # getattr(self, f"...", default)(...)
            disp = self._reflective(fn, f)
            if disp is not None:
                return [(x, "table") for x in disp]
        return [("?", "call")]

    def _is_local(self, fn: FunctionInfo, name: str) -> bool:
        cur: FunctionInfo | None = fn
        while cur is not None:
            if name in cur.params or (cur.node.args.vararg and cur.node.args.vararg.arg == name) or (
                cur.node.args.kwarg and cur.node.args.kwarg.arg == name
            ):
                return True
            for node in walk_no_nested(cur.node):
                if isinstance(node, ast.Name) and isinstance(node.ctx, ast.Store) and node.id == name:
                    return True
            cur = cur.outer
        return False

    def _table_of(self, fn: FunctionInfo, node: ast.AST) -> list[FunctionInfo] | None:
        prog = self.prog
        name = dotted(node)
        if not name:
            return None
        parts = name.split(".")
        if parts[0] in ("self", "cls") and len(parts) == 2 and fn.cls is not None:
            hit = prog.lookup_class_attr(fn.cls, parts[1])
            if hit:
                owner_cls, value = hit
                dummy = FunctionInfo("", "", fn.node, owner_cls.module, owner_cls)
                return self._table_values(dummy, value)
            return None
        if len(parts) == 1 and not self._is_local(fn, parts[0]):
            fns, _ = self.resolve_name_target(fn, parts[0])
            return fns or None
        return None

    def _reflective(self, fn: FunctionInfo, call: ast.Call) -> list[FunctionInfo] | None:
        """getattr(self, f"prefix_{...}", default) -> every method named prefix_* plus the default."""
        if not (isinstance(call.func, ast.Name) and call.func.id == "getattr" and len(call.args) >= 2):
            return None
        target, key = call.args[0], call.args[1]
        if isinstance(key, ast.Name) and key.id in fn.params and fn.cls is not None and fn.cls.qualname == "_griffe.extensions.base.Extensions":
            # Extensions.call(event, ...): getattr(extension, event)(**kwargs) -> every hook of every in-repo extension
            base = self.prog.classes.get("_griffe.extensions.base.Extension")
            hooks: list[FunctionInfo] = []
            if base is not None:
                for c in [base, *self.prog.subclasses(base)]:
                    for name, defs in c.methods.items():
                        if name.startswith("on_"):
                            hooks += defs
            return hooks
        classes = self.type_of(fn, target)
        if not classes:
            return None
        prefix = None
        if isinstance(key, ast.JoinedStr) and key.values and isinstance(key.values[0], ast.Constant):
            prefix = str(key.values[0].value)
        if prefix is None:
            return None
        out: list[FunctionInfo] = []
        for c in classes:
            for k in [*self.prog.mro(c), *self.prog.subclasses(c)]:
                for name, defs in k.methods.items():
                    if name.startswith(prefix):
                        out += defs
        if len(call.args) >= 3:
            d = call.args[2]
            if isinstance(d, ast.Attribute) and isinstance(d.value, ast.Name) and d.value.id in ("self", "cls"):
                for c in classes:
                    out += self._methods_with_overrides(c, d.attr)
        return list(dict.fromkeys(out))

    def _local_callable(self, fn: FunctionInfo, name: str) -> list[FunctionInfo] | None:
        """`f = getattr(self, f"visit_{..}", self.generic_visit)` / `f = TABLE[k]` / `f = TABLE.get(k, d)` then `f(...)`."""
        if not self._is_local(fn, name) or name in fn.params:
            return None
        out: list[FunctionInfo] = []
        for node in walk_no_nested(fn.node):
            if isinstance(node, ast.Assign) and any(isinstance(t, ast.Name) and t.id == name for t in node.targets):
                v = node.value
                if isinstance(v, ast.Call):
                    r = self._reflective(fn, v)
                    if r:
                        out += r
                        continue
                    if isinstance(v.func, ast.Attribute) and v.func.attr == "get":
                        t = self._table_of(fn, v.func.value)
                        if t:
                            out += t
                            continue
                if isinstance(v, ast.Subscript):
                    t = self._table_of(fn, v.value)
                    if t:
                        out += t
        return out or None

    # ------------------------------------------------------------------ edges
    def edges_from(self, fn: FunctionInfo) -> list[Edge]:
        if fn.qualname in self._edges:
            return self._edges[fn.qualname]
        edges: list[Edge] = []
        for node in walk_no_nested(fn.node):
            if isinstance(node, ast.Call):
                for callee, kind in self.callees_of_call(fn, node):
                    edges.append(Edge(fn, callee, node, kind))
            elif isinstance(node, ast.Attribute) and isinstance(node.ctx, ast.Load) and node.attr in self._prop_names:
                types = self.type_of(fn, node.value)
                if types:
                    for c in types:
                        for m in self._methods_with_overrides(c, node.attr):
                            if m.is_property:
                                edges.append(Edge(fn, m, node, "prop"))
                elif not self.externally_typed(fn, node.value):
                    for m in self._prop_names[node.attr]:
                        edges.append(Edge(fn, m, node, "prop"))
            elif isinstance(node, ast.Subscript):
                dunder = {ast.Load: "__getitem__", ast.Store: "__setitem__", ast.Del: "__delitem__"}[type(node.ctx)]
                for c in self.type_of(fn, node.value):
                    for m in self._methods_with_overrides(c, dunder):
                        edges.append(Edge(fn, m, node, "dunder"))
            elif isinstance(node, ast.Compare) and any(isinstance(op, (ast.In, ast.NotIn)) for op in node.ops):
                for op, right in zip(node.ops, node.comparators):
                    if isinstance(op, (ast.In, ast.NotIn)):
                        for c in self.type_of(fn, right):
                            for m in self._methods_with_overrides(c, "__contains__"):
                                edges.append(Edge(fn, m, node, "dunder"))
            elif isinstance(node, (ast.For, ast.comprehension)):
                for c in self.type_of(fn, node.iter):
                    for m in self._methods_with_overrides(c, "__iter__"):
                        edges.append(Edge(fn, m, node.iter, "dunder"))
        # nested functions defined here are considered called (closures passed around)
        for key, sub in self.prog.functions.items():
            if sub.outer is fn:
                edges.append(Edge(fn, sub, sub.node, "nested"))
        self._edges[fn.qualname] = edges
        return edges

    def reachable(self, roots: list[FunctionInfo], *, prune=None) -> dict[str, list[Edge]]:
        """Functions reachable from roots -> the edge path that reached them first (BFS)."""
        seen: dict[str, list[Edge]] = {r.qualname: [] for r in roots}
        queue = list(roots)
        while queue:
            cur = queue.pop(0)
            for e in self.edges_from(cur):
                if prune is not None and prune(e):
                    continue
                if isinstance(e.callee, FunctionInfo) and e.callee.qualname not in seen:
                    seen[e.callee.qualname] = [*seen[cur.qualname], e]
                    queue.append(e.callee)
        return seen

    def iter_all_edges(self) -> Iterator[Edge]:
        for fn in list(self.prog.functions.values()):
            yield from self.edges_from(fn)


def fmt_path(prog: Program, path: list[Edge]) -> list[str]:
    return [
        f"{e.caller.qualname} --{e.kind}--> {e.callee_name} @ {e.caller.module.relpath}:{getattr(e.site, 'lineno', 0)}"
        for e in path
    ]


def describe(node: ast.AST) -> str:
    return unparse(node).split("\n")[0][:100]
