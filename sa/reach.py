"""A-CP: guarded reachability by constant propagation of named atoms through branch conditions."""

from __future__ import annotations

import ast
from typing import Callable

from sa.callgraph import CallGraph, Edge
from sa.cfg import CFG, CNode
from sa.srcmodel import FunctionInfo, dotted
from sa.util import cfg_of


def eval3(expr: ast.expr, facts: dict[str, bool]) -> bool | None:
    """Three-valued evaluation of a condition under the assumed atoms (dotted text -> bool)."""
    if isinstance(expr, ast.Constant):
        return bool(expr.value)
    name = dotted(expr)
    if name is not None:
        return facts.get(name)
    if isinstance(expr, ast.UnaryOp) and isinstance(expr.op, ast.Not):
        v = eval3(expr.operand, facts)
        return None if v is None else not v
    if isinstance(expr, ast.BoolOp):
        vals = [eval3(v, facts) for v in expr.values]
        if isinstance(expr.op, ast.And):
            if any(v is False for v in vals):
                return False
            return True if all(v is True for v in vals) else None
        if any(v is True for v in vals):
            return True
        return False if all(v is False for v in vals) else None
    if isinstance(expr, ast.Compare) and len(expr.ops) == 1 and isinstance(expr.ops[0], (ast.Is, ast.IsNot, ast.Eq, ast.NotEq)):
        left = eval3(expr.left, facts)
        right = expr.comparators[0]
        if left is not None and isinstance(right, ast.Constant) and isinstance(right.value, bool):
            same = left is right.value
            return same if isinstance(expr.ops[0], (ast.Is, ast.Eq)) else not same
    return None


def live_nodes(cfg: CFG, facts: dict[str, bool]) -> set[CNode]:
    def dead_edge(a: CNode, _b: CNode, label: str) -> bool:
        if a.kind != "test" or a.expr is None or label not in ("T", "F"):
            return False
        v = eval3(a.expr, facts)
        return v is not None and v != (label == "T")

    return cfg.reach(cfg.entry, avoid_edge=dead_edge)


def node_roots(n: CNode) -> list[ast.AST]:
    if n.stmt is None:
        return []
    if n.kind == "test":
        return [n.expr] if n.expr is not None else []
    if n.kind == "for":
        return [n.stmt.iter, n.stmt.target]  # type: ignore[union-attr]
    if n.kind == "with_enter":
        return [i.context_expr for i in n.stmt.items]  # type: ignore[union-attr]
    if n.kind == "handler":
        return [n.expr] if n.expr is not None else []
    if n.kind in ("with_exit", "with_exc", "dispatch"):
        return []
    if n.kind == "return":
        return [n.expr] if n.expr is not None else []
    return [n.stmt]


def live_ast_ids(fn: FunctionInfo, facts: dict[str, bool]) -> set[int]:
    cfg = cfg_of(fn)
    ids: set[int] = set()
    for n in live_nodes(cfg, facts):
        for root in node_roots(n):
            if isinstance(root, (ast.FunctionDef, ast.AsyncFunctionDef, ast.ClassDef)):
                ids.add(id(root))
                for d in root.decorator_list:
                    ids.update(id(x) for x in ast.walk(d))
                continue
            ids.update(id(x) for x in ast.walk(root))
    return ids


def guarded_reachable(
    cg: CallGraph,
    roots: list[FunctionInfo],
    facts_for: Callable[[FunctionInfo], dict[str, bool]],
    cut: Callable[[Edge], bool] | None = None,
) -> tuple[dict[str, list[Edge]], list[tuple[list[Edge], Edge]]]:
    """BFS over call edges whose call site survives pruning.  Returns (reached functions -> path, external edges seen)."""
    seen: dict[str, list[Edge]] = {r.qualname: [] for r in roots}
    ext: list[tuple[list[Edge], Edge]] = []
    queue = list(roots)
    while queue:
        cur = queue.pop(0)
        facts = facts_for(cur)
        live = live_ast_ids(cur, facts) if facts else None
        for e in cg.edges_from(cur):
            if e.kind != "nested" and live is not None and id(e.site) not in live:
                continue
            if cut is not None and cut(e):
                continue
            if isinstance(e.callee, FunctionInfo):
                if e.callee.qualname not in seen:
                    seen[e.callee.qualname] = [*seen[cur.qualname], e]
                    queue.append(e.callee)
            else:
                ext.append((seen[cur.qualname], e))
    return seen, ext
