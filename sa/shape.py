"""Minimum-length / element-shape analysis for lists and tuples.

Decides `X[c]` (constant c) cannot raise IndexError because X has at least c+1 elements *by construction*: flow-insensitive join over the
bindings of a name inside a function (displays, `split(sep)`, tuple unpacking, loop targets, growth-only mutation), return summaries of in-repo
callees, and parameter shapes joined over all call sites found in the analysed scope.  Unknown is always the safe answer (the caller of this
module then looks for a dominating guard or handler); nothing here ever claims more than every binding justifies.

Not tracked (stated in evidence as assumptions): shrinking through an alias of the list (`m = x; m.pop()`), shrinking by a callee the list is
passed to.
"""

from __future__ import annotations

import ast
from dataclasses import dataclass

from sa.srcmodel import FunctionInfo, Program, dotted, parent, unparse, walk_no_nested


class _Bot:
    def __repr__(self) -> str:
        return "BOT"


BOT = _Bot()  # element shape of a container no element of which has been seen yet


@dataclass(frozen=True)
class Shape:
    minlen: int = 0
    elem: object = None  # Shape | None (unknown) | BOT
    fields: tuple | None = None  # fixed-arity tuple: per-position shapes (None = unknown value)

    def __repr__(self) -> str:
        f = f" fields={self.fields}" if self.fields is not None else ""
        return f"<len>={self.minlen} elem={self.elem}{f}>"


SHRINK = {"pop", "clear", "remove", "popleft", "__delitem__"}
GROW_UNKNOWN = {"extend", "insert", "__iadd__"}


NEUTRAL = Shape(10**6, BOT, None)  # identity of the join (no binding seen yet)


def join(a: Shape | None, b: Shape | None) -> Shape | None:
    if a is NEUTRAL:
        return b
    if b is NEUTRAL:
        return a
    if a is None or b is None:
        return None
    fields = None
    if a.fields is not None and b.fields is not None and len(a.fields) == len(b.fields):
        fields = tuple(join(x, y) if isinstance(x, Shape) and isinstance(y, Shape) else None for x, y in zip(a.fields, b.fields))
    return Shape(min(a.minlen, b.minlen), join_elem(a.elem, b.elem), fields)


def join_elem(x: object, y: object) -> object:
    if x is BOT:
        return y
    if y is BOT:
        return x
    if isinstance(x, Shape) and isinstance(y, Shape):
        return join(x, y)
    return None


class Shapes:
    def __init__(self, prog: Program, scope: list[FunctionInfo]) -> None:
        self.prog = prog
        self.scope = scope
        self._name: dict[tuple, Shape | None] = {}
        self._ret: dict[str, Shape | None] = {}
        self._param: dict[tuple[str, str], Shape | None] = {}
        self._busy: set[tuple] = set()
        self._calls: dict[str, list[tuple[FunctionInfo, ast.Call]]] | None = None

    # ------------------------------------------------------------------ callees / callers
    def callee(self, fn: FunctionInfo, call: ast.Call) -> FunctionInfo | None:
        if isinstance(call.func, ast.Name):
            q = self.prog.resolve(fn.module, call.func.id)
            if q and q in self.prog.functions:
                return self.prog.functions[q]
        return None

    def call_sites(self, g: FunctionInfo) -> list[tuple[FunctionInfo, ast.Call]]:
        if self._calls is None:
            self._calls = {}
            for f in self.scope:
                for n in ast.walk(f.node):
                    if isinstance(n, ast.Call):
                        c = self.callee(f, n)
                        if c is not None:
                            self._calls.setdefault(c.qualname, []).append((f, n))
                        elif isinstance(n.func, ast.Name) and n.func.id == "map" and len(n.args) == 2 and not n.keywords and isinstance(n.args[0], ast.Name):
                            # `map(g, xs)`: g is called with every element of xs as its first argument
                            q = self.prog.resolve(f.module, n.args[0].id)
                            if q and q in self.prog.functions:
                                self._calls.setdefault(q, []).append((f, n))
        return self._calls.get(g.qualname, [])

    def escapes(self, g: FunctionInfo) -> bool:
        """g is referenced other than as the callee of a direct call (dispatch table, partial, ...): its callers are not all known."""
        for f in self.prog.functions.values():
            if f.module is not g.module:
                continue
            for n in ast.walk(f.node):
                if isinstance(n, ast.Name) and n.id == g.name and isinstance(n.ctx, ast.Load):
                    p = parent(n)
                    if isinstance(p, ast.Call) and isinstance(p.func, ast.Name) and p.func.id == "map" and len(p.args) == 2 and p.args[0] is n and not p.keywords:
                        continue  # mapped over an iterable: a call per element (see call_sites)
                    if not (isinstance(p, ast.Call) and p.func is n):
                        return True
        for tbl in g.module.assigns.values():
            for n in ast.walk(tbl):
                if isinstance(n, ast.Name) and n.id == g.name:
                    return True
        return False

    # ------------------------------------------------------------------ summaries
    def ret(self, g: FunctionInfo) -> Shape | None:
        if g.qualname in self._ret:
            return self._ret[g.qualname]
        key = (g.qualname, "<return>")
        if key in self._busy:
            return NEUTRAL  # recursion: neutral element of the join
        self._busy.add(key)
        try:
            out: Shape | None = NEUTRAL
            seen = False
            for n in walk_no_nested(g.node):
                if isinstance(n, ast.Return):
                    seen = True
                    out = join(out, self.expr(g, n.value, n.value) if n.value is not None else None)
                    if out is None:
                        break
            if not seen or g.is_generator:
                out = None
        finally:
            self._busy.discard(key)
        self._ret[g.qualname] = out
        return out

    def param(self, g: FunctionInfo, name: str) -> Shape | None:
        k = (g.qualname, name)
        if k in self._param:
            return self._param[k]
        bk = (g.qualname, f"<param {name}>")
        if bk in self._busy:
            return NEUTRAL
        self._busy.add(bk)
        try:
            sites = self.call_sites(g)
            out: Shape | None = None
            if sites and not self.escapes(g):
                a = g.node.args
                pos = [x.arg for x in (*a.posonlyargs, *a.args)]
                out = NEUTRAL
                for f, c in sites:
                    if isinstance(c.func, ast.Name) and c.func.id == "map" and c.args and isinstance(c.args[0], ast.Name) and c.args[0].id == g.name:
                        xs = self.expr(f, c.args[1], c.args[1]) if pos and pos[0] == name else None
                        out = join(out, xs.elem if xs is not None and isinstance(xs.elem, Shape) else None)
                        if out is None:
                            break
                        continue
                    arg = next((kw.value for kw in c.keywords if kw.arg == name), None)
                    if arg is None and name in pos and pos.index(name) < len(c.args) and not any(isinstance(x, ast.Starred) for x in c.args):
                        arg = c.args[pos.index(name)]
                    out = join(out, self.expr(f, arg, arg) if arg is not None else None)
                    if out is None:
                        break
        finally:
            self._busy.discard(bk)
        self._param[k] = out
        return out

    # ------------------------------------------------------------------ names
    def reaching(self, fn: FunctionInfo, ident: str, at: ast.AST | None) -> tuple[frozenset[int], bool, tuple]:
        """(ids of AST nodes inside the binding statements of `ident` that reach `at`, does function entry reach?, cache key).

        `at=None` (or a node the CFG does not know) means every binding in the function (flow-insensitive)."""
        from sa.reach import node_roots
        from sa.util import cfg_of, node_index

        if at is None:
            return frozenset(), True, ("*",)
        starts = node_index(fn).get(id(at), [])
        if not starts:
            return frozenset(), True, ("*",)
        cfg = cfg_of(fn)

        def defines(n) -> bool:
            roots = list(node_roots(n))
            if n.kind == "with_enter":
                roots += [i.optional_vars for i in n.stmt.items if i.optional_vars is not None]
            if n.kind == "handler" and getattr(n.stmt, "name", None) == ident:
                return True
            for root in roots:
                stack = [root]
                while stack:
                    x = stack.pop()
                    if isinstance(x, (ast.FunctionDef, ast.AsyncFunctionDef, ast.Lambda, ast.ClassDef)) and x is not root:
                        continue
                    if isinstance(x, ast.comprehension):
                        stack += [x.iter, *x.ifs]
                        continue
                    if isinstance(x, ast.Name) and x.id == ident and isinstance(x.ctx, ast.Store):
                        return True
                    stack += list(ast.iter_child_nodes(x))
            return False

        seen: set = set()
        defs: list = []
        entry = False
        work = [p for st in starts for p, _l in cfg.pred[st]]
        while work:
            n = work.pop()
            if n in seen:
                continue
            seen.add(n)
            if n is cfg.entry:
                entry = True
                continue
            if defines(n):
                defs.append(n)
                continue
            work += [p for p, _l in cfg.pred[n]]
        ids: set[int] = set()
        for n in defs:
            roots = list(node_roots(n))
            if n.kind == "with_enter":
                roots += [i.optional_vars for i in n.stmt.items if i.optional_vars is not None]
            for root in roots:
                ids.update(id(x) for x in ast.walk(root))
        return frozenset(ids), entry, tuple(sorted(n.idx for n in defs)) + (("entry",) if entry else ())

    def name(self, fn: FunctionInfo, ident: str, at: ast.AST | None = None) -> Shape | None:
        allowed, entry, rk = self.reaching(fn, ident, at)
        k = (fn.qualname, ident, rk)
        if k in self._name:
            return self._refine(fn, ident, at, self._name[k])
        if k in self._busy:
            return NEUTRAL
        self._busy.add(k)
        try:
            out = self._name_uncached(fn, ident, None if rk == ("*",) else allowed, entry)
        finally:
            self._busy.discard(k)
        self._name[k] = out
        return self._refine(fn, ident, at, out)

    def _refine(self, fn: FunctionInfo, ident: str, at: ast.AST | None, shape: Shape | None) -> Shape | None:
        """Raise the minimum length by what a dominating test says (`if not x: return`), for names bound exactly once in the function."""
        from sa.util import cfg_of, node_index

        if at is None or shape is None:
            return shape
        stores = sum(1 for n in ast.walk(fn.node) if isinstance(n, ast.Name) and n.id == ident and isinstance(n.ctx, ast.Store))
        a = fn.node.args
        stores += ident in [x.arg for x in (*a.posonlyargs, *a.args, *a.kwonlyargs)]
        if stores != 1:
            return shape
        nodes = node_index(fn).get(id(at), [])
        if not nodes:
            return shape
        cfg = cfg_of(fn)
        lo = min(guard_len(cfg.facts_on_all_paths(cn), ident) for cn in nodes)
        return Shape(lo, shape.elem, shape.fields) if lo > shape.minlen else shape

    def _target_shapes(self, fn: FunctionInfo, target: ast.AST, value: Shape | None, ident: str) -> list[Shape | None]:
        """Shapes bound to `ident` when `target` receives a value of shape `value`."""
        if isinstance(target, ast.Name):
            return [value] if target.id == ident else []
        if isinstance(target, (ast.Tuple, ast.List)):
            out: list[Shape | None] = []
            star = any(isinstance(e, ast.Starred) for e in target.elts)
            for i, e in enumerate(target.elts):
                sub: Shape | None = None
                if value is not None and not star:
                    if value.fields is not None and len(value.fields) == len(target.elts):
                        sub = value.fields[i]
                    elif isinstance(value.elem, Shape):
                        sub = value.elem
                out += self._target_shapes(fn, e.value if isinstance(e, ast.Starred) else e, None if isinstance(e, ast.Starred) else sub, ident)
            return out
        return []

    def _name_uncached(self, fn: FunctionInfo, ident: str, allowed: frozenset[int] | None = None, entry: bool = True) -> Shape | None:
        out: Shape | None = NEUTRAL
        bound = False
        a = fn.node.args

        def ok(x: ast.AST) -> bool:  # does this binding reach the use?
            return allowed is None or id(x) in allowed

        if ident in [x.arg for x in (*a.posonlyargs, *a.args, *a.kwonlyargs)] and entry:
            bound = True
            out = join(out, self.param(fn, ident))
        if (a.vararg and a.vararg.arg == ident) or (a.kwarg and a.kwarg.arg == ident):
            return None
        shrink_fields: set[int] = set()
        for n in ast.walk(fn.node):
            if out is None:
                return None
            if isinstance(n, (ast.FunctionDef, ast.AsyncFunctionDef, ast.Lambda)) and n is not fn.node:
                continue
            got: list[Shape | None] = []
            if isinstance(n, ast.Assign):
                v = None
                need = ok(n) and any(ident in {x.id for x in ast.walk(t) if isinstance(x, ast.Name)} for t in n.targets)
                if need:
                    v = self.expr(fn, n.value, n)
                    for t in n.targets:
                        got += self._target_shapes(fn, t, v, ident)
            elif isinstance(n, ast.AnnAssign) and n.value is not None and isinstance(n.target, ast.Name) and n.target.id == ident:
                if ok(n):
                    got.append(self.expr(fn, n.value, n))
            elif isinstance(n, ast.NamedExpr) and n.target.id == ident:
                if ok(n):
                    got.append(self.expr(fn, n.value, n))
            elif isinstance(n, (ast.For, ast.AsyncFor, ast.comprehension)):
                if ident in {x.id for x in ast.walk(n.target) if isinstance(x, ast.Name)} and (ok(n.target) or isinstance(n, ast.comprehension)):
                    it = self.expr(fn, n.iter, n.iter)
                    el = it.elem if it is not None and isinstance(it.elem, Shape) else None
                    got += self._target_shapes(fn, n.target, el, ident)
            elif isinstance(n, ast.AugAssign) and isinstance(n.target, ast.Name) and n.target.id == ident and ok(n):
                got.append(Shape(0, None, None) if not isinstance(n.op, ast.Add) else None)
                if isinstance(n.op, ast.Add):
                    got = []  # growth only; element shape unknown from here on
                    out = Shape(out.minlen, None, out.fields) if out is not None else None
            elif isinstance(n, (ast.With, ast.AsyncWith)):
                for item in n.items:
                    if item.optional_vars is not None and ident in {x.id for x in ast.walk(item.optional_vars) if isinstance(x, ast.Name)}:
                        got.append(None)
            elif isinstance(n, ast.ExceptHandler) and n.name == ident:
                got.append(None)
            elif isinstance(n, ast.Delete):
                for t in n.targets:
                    if isinstance(t, ast.Subscript) and isinstance(t.value, ast.Name) and t.value.id == ident:
                        got.append(Shape(0, None, None))
            elif isinstance(n, ast.Call) and isinstance(n.func, ast.Attribute):
                recv, meth = n.func.value, n.func.attr
                if isinstance(recv, ast.Name) and recv.id == ident:
                    if meth in SHRINK:
                        got.append(Shape(0, None, None))
                    elif meth == "append" and n.args:
                        got.append(Shape(10**6, self.expr(fn, n.args[0], n), None))  # contributes an element shape, not a length
                    elif meth in GROW_UNKNOWN:
                        got.append(Shape(10**6, None, None))
                elif isinstance(recv, ast.Subscript) and isinstance(recv.value, ast.Name) and recv.value.id == ident and meth in SHRINK:
                    if isinstance(recv.slice, ast.Constant) and isinstance(recv.slice.value, int):
                        shrink_fields.add(recv.slice.value)
                    else:
                        got.append(None)
            for g in got:
                bound = True
                out = join(out, g)
                if out is None:
                    return None
        if not bound or out is None or out is NEUTRAL:
            return None
        if shrink_fields and out.fields is not None:
            out = Shape(out.minlen, None, tuple(None if i in shrink_fields else f for i, f in enumerate(out.fields)))
        elif shrink_fields:
            out = Shape(out.minlen, None, None)
        if out.minlen >= 10**6:  # only element contributions were seen (append on a parameter...)
            return None
        return out

    # ------------------------------------------------------------------ expressions
    def expr(self, fn: FunctionInfo, e: ast.AST | None, at: ast.AST | None = None) -> Shape | None:  # noqa: PLR0911,PLR0912
        """Shape of expression `e` of `fn`; names are resolved through the bindings that reach `at` (default: the expression itself)."""
        if e is None:
            return None
        if at is None:
            at = e
        if isinstance(e, (ast.List, ast.Tuple)):
            n = 0
            el: object = BOT
            fields: list | None = [] if isinstance(e, ast.Tuple) else None
            for x in e.elts:
                if isinstance(x, ast.Starred):
                    s = self.expr(fn, x.value, at)
                    el = join_elem(el, s.elem if s is not None else None)
                    n += s.minlen if s is not None else 0
                    fields = None
                else:
                    n += 1
                    s = self.expr(fn, x, at)
                    el = join_elem(el, s)
                    if fields is not None:
                        fields.append(s)
            return Shape(n, el, tuple(fields) if fields is not None else None)
        if isinstance(e, ast.Name):
            return self.name(fn, e.id, at)
        if isinstance(e, ast.Call):
            if isinstance(e.func, ast.Attribute):
                m = e.func.attr
                if m in ("split", "rsplit"):
                    sep = e.args[0] if e.args else next((k.value for k in e.keywords if k.arg == "sep"), None)
                    if sep is not None and not (isinstance(sep, ast.Constant) and sep.value is None):
                        return Shape(1, None, None)
                    return Shape(0, None, None)
                if m in ("splitlines", "copy"):
                    return Shape(0, None, None) if m == "splitlines" else self.expr(fn, e.func.value, at)
                if m in ("partition", "rpartition"):
                    return Shape(3, None, (None, None, None))
                return None
            d = dotted(e.func)
            if d in ("list", "tuple", "sorted", "reversed") and len(e.args) == 1:
                s = self.expr(fn, e.args[0], at)
                return Shape(s.minlen, s.elem, None) if s is not None else None
            if d == "enumerate" and e.args:
                s = self.expr(fn, e.args[0], at)
                return Shape(s.minlen if s else 0, Shape(2, None, (None, s.elem if s is not None and isinstance(s.elem, Shape) else None)), None)
            g = self.callee(fn, e)
            if g is not None:
                return self.ret(g)
            return None
        if isinstance(e, ast.Subscript):
            base = self.expr(fn, e.value, at)
            if base is None:
                return None
            if isinstance(e.slice, ast.Slice):
                return Shape(0, base.elem, None)
            if isinstance(e.slice, ast.Constant) and isinstance(e.slice.value, int) and base.fields is not None and -len(base.fields) <= e.slice.value < len(base.fields):
                f = base.fields[e.slice.value]
                return f if isinstance(f, Shape) else None
            return base.elem if isinstance(base.elem, Shape) else None
        if isinstance(e, ast.IfExp):
            return join(self.expr(fn, e.body, at), self.expr(fn, e.orelse, at))
        if isinstance(e, ast.BoolOp):
            out = self.expr(fn, e.values[0], at)
            for v in e.values[1:]:
                out = join(out, self.expr(fn, v, at))
            return out
        if isinstance(e, ast.ListComp):
            return Shape(0, None, None)
        if isinstance(e, ast.NamedExpr):
            return self.expr(fn, e.value, at)
        return None


def module_int_consts(mod) -> dict[str, object]:
    """Module-level names bound once to an integer, or to a tuple / set / frozenset of integers (other such names allowed inside)."""
    out: dict[str, object] = {}

    def val(node: ast.AST) -> object:
        if isinstance(node, ast.Constant) and isinstance(node.value, int) and not isinstance(node.value, bool):
            return node.value
        if isinstance(node, ast.Name) and node.id in out:
            return out[node.id]
        if isinstance(node, (ast.Tuple, ast.Set, ast.List)):
            vs = [val(e) for e in node.elts]
            return frozenset(vs) if vs and all(isinstance(v, int) for v in vs) else None
        if isinstance(node, ast.Call) and dotted(node.func) in ("frozenset", "set", "tuple") and len(node.args) == 1 and not node.keywords:
            return val(node.args[0])
        return None

    stores: dict[str, int] = {}
    for st in mod.tree.body:
        for t in (st.targets if isinstance(st, ast.Assign) else [st.target] if isinstance(st, ast.AnnAssign) else []):
            if isinstance(t, ast.Name):
                stores[t.id] = stores.get(t.id, 0) + 1
    for st in mod.tree.body:
        if isinstance(st, (ast.Assign, ast.AnnAssign)) and st.value is not None:
            for t in (st.targets if isinstance(st, ast.Assign) else [st.target]):
                if isinstance(t, ast.Name) and stores.get(t.id) == 1:
                    v = val(st.value)
                    if v is not None:
                        out[t.id] = v
    return out


def guard_len(facts: list[tuple[str, bool]], subject: str, consts: dict[str, object] | None = None) -> int:
    """Lower bound on len(subject) implied by branch facts (text, truth) known on every path to the use."""
    lo = 0
    consts = consts or {}
    for text, truth in facts:
        try:
            t = ast.parse(text, mode="eval").body
        except SyntaxError:
            continue
        if unparse(t) == subject and truth:
            lo = max(lo, 1)
        if isinstance(t, ast.Compare) and len(t.ops) == 1:
            left, op, right = t.left, t.ops[0], t.comparators[0]

            def is_len(x: ast.AST) -> bool:
                return isinstance(x, ast.Call) and dotted(x.func) == "len" and len(x.args) == 1 and unparse(x.args[0]) == subject

            def const(x: ast.AST) -> int | None:
                if isinstance(x, ast.Name) and isinstance(consts.get(x.id), int):
                    return consts[x.id]  # type: ignore[return-value]
                return x.value if isinstance(x, ast.Constant) and isinstance(x.value, int) and not isinstance(x.value, bool) else None

            def const_set(x: ast.AST) -> frozenset | None:
                if isinstance(x, ast.Name) and isinstance(consts.get(x.id), frozenset):
                    return consts[x.id]  # type: ignore[return-value]
                if isinstance(x, (ast.Tuple, ast.Set, ast.List)) and x.elts and all(const(e) is not None for e in x.elts):
                    return frozenset(const(e) for e in x.elts)
                return None

            if is_len(left) and isinstance(op, (ast.In, ast.NotIn)) and const_set(right) is not None and truth == isinstance(op, ast.In):
                lo = max(lo, min(const_set(right)))  # type: ignore[type-var]

            if is_len(right) and const(left) is not None:  # k OP len(X)  ->  len(X) OP' k
                mirror = {ast.Lt: ast.Gt, ast.LtE: ast.GtE, ast.Gt: ast.Lt, ast.GtE: ast.LtE, ast.Eq: ast.Eq, ast.NotEq: ast.NotEq}
                if type(op) in mirror:
                    left, op, right = right, mirror[type(op)](), left
            if is_len(left) and const(right) is not None:
                k = const(right)
                assert k is not None
                if truth:
                    if isinstance(op, ast.Gt):
                        lo = max(lo, k + 1)
                    elif isinstance(op, (ast.GtE, ast.Eq)):
                        lo = max(lo, k)
                    elif isinstance(op, ast.NotEq) and k == 0:
                        lo = max(lo, 1)
                else:
                    if isinstance(op, ast.Lt):
                        lo = max(lo, k)
                    elif isinstance(op, ast.LtE):
                        lo = max(lo, k + 1)
                    elif isinstance(op, ast.Eq) and k == 0:
                        lo = max(lo, 1)
    return lo
