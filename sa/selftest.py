"""Checker self-test: mutants (must be reported by the named rule) and benign variants (must stay silent).

Variants are source edits applied to an in-memory overlay of /repo's files; nothing is written to disk.
A variant whose `old` text is no longer present on the current tree is *stale* and skipped (reported, never a failure):
the self-test validates the checker, it is not a property of the repository.
"""

from __future__ import annotations

import importlib
import json
import os
import sys
import time
from concurrent.futures import ProcessPoolExecutor
from dataclasses import dataclass
from pathlib import Path

sys.path.insert(0, str(Path(__file__).resolve().parent.parent))

from sa.srcmodel import REPO, AnalysisError  # noqa: E402


@dataclass
class Variant:
    prop: str
    name: str
    file: str  # path relative to the repository root
    old: str
    new: str
    expect: str | None  # rule id expected to fire ("R2"), "" = any rule of the property, None = benign (silence expected)
    also: tuple[tuple[str, str, str], ...] = ()  # further (file, old, new) edits of the same variant
    every: bool = False  # replace every occurrence of `old` (renames)


def _apply(v: Variant) -> dict[str, str] | None:
    overlay: dict[str, str] = {}
    for file, old, new in ((v.file, v.old, v.new), *v.also):
        text = overlay.get(file)
        if text is None:
            text = (REPO / file).read_text(encoding="utf8")
        if text.count(old) < 1 or (text.count(old) != 1 and not v.every):
            return None
        overlay[file] = text.replace(old, new)
    return overlay


def run_variant(v: Variant) -> dict:
    from sa import check

    overlay = _seed_overlay(v) if isinstance(v, SeedVariant) else _apply(v)
    if overlay is None:
        return {"name": v.name, "status": "stale"}
    try:
        code, ctx = check.run_property(v.prop, "quick", overlay, emit=False)
        new = ctx.analysed.get("_new", [])
        rules = sorted({o.rule for o in new})
        first = next((f"{o.rule} {o.where} {o.what[:90]}" for o in new), "")
    except AnalysisError as exc:
        code, rules, first = 2, [], f"ANALYSIS-ERROR {exc}"
    except SyntaxError as exc:
        return {"name": v.name, "status": "broken-variant", "detail": str(exc)}
    if v.expect is None:
        ok = code == 0
    else:
        ok = code == 1 and (v.expect == "" or v.expect in rules)
    return {"name": v.name, "status": "ok" if ok else "FAIL", "exit": code, "rules": rules, "expect": v.expect, "first": first}


@dataclass
class SeedVariant:
    """A stored seeded change (seeded/<name>/patch.diff, written by an independent sub-agent against the property text only) used as a mutant."""

    prop: str
    name: str
    patch: str
    expect: str | None = ""  # any rule of the property


def _seed_overlay(v: SeedVariant) -> dict[str, str] | None:
    import re
    import subprocess
    import tempfile

    text = Path(v.patch).read_text(encoding="utf8")
    files = sorted(set(re.findall(r"^\+\+\+ b/(\S+)", text, flags=re.M)) | set(re.findall(r"^--- a/(\S+)", text, flags=re.M)))
    with tempfile.TemporaryDirectory(prefix="verif-seed-") as tmp:
        for f in files:
            src = REPO / f
            if src.exists():
                dst = Path(tmp) / f
                dst.parent.mkdir(parents=True, exist_ok=True)
                dst.write_text(src.read_text(encoding="utf8"), encoding="utf8")
        r = subprocess.run(["git", "apply", "-p1", str(Path(v.patch).resolve())], cwd=tmp, capture_output=True, text=True, check=False)
        if r.returncode != 0:
            return None
        return {f: (Path(tmp) / f).read_text(encoding="utf8") for f in files if (Path(tmp) / f).exists()}


def seed_variants(prop: str) -> list[SeedVariant]:
    root = Path(__file__).resolve().parent.parent / "seeded"
    try:
        not_own = json.loads((root / "NOT_OWN.json").read_text())
    except FileNotFoundError:
        not_own = {}
    try:
        # changes confirmed to break the property that no rule reports yet (recorded with the reason; not mutants of the self-test until a rule does)
        not_own = {**not_own, **json.loads((root / "UNDETECTED.json").read_text())}
    except FileNotFoundError:
        pass
    out = []
    for d in sorted(root.glob(f"{prop}-m*")):
        if (d / "patch.diff").exists() and d.name not in not_own:
            out.append(SeedVariant(prop, f"seed {d.name}", str(d / "patch.diff")))
    return out


def load_variants(prop: str) -> list:
    try:
        mod = importlib.import_module(f"sa.variants.{prop}")
    except ModuleNotFoundError:
        return seed_variants(prop)
    return [*mod.VARIANTS, *seed_variants(prop)]


def run_for(prop: str, *, jobs: int | None = None, verbose: bool = True) -> int:
    variants = load_variants(prop)
    if not variants:
        print(f"[{prop}] self-test: no variants registered")
        return 0
    started = time.time()
    jobs = jobs or min(16, os.cpu_count() or 4, len(variants))
    with ProcessPoolExecutor(max_workers=jobs) as ex:
        results = list(ex.map(run_variant, variants))
    bad = [r for r in results if r["status"] == "FAIL" or r["status"] == "broken-variant"]
    stale = [r for r in results if r["status"] == "stale"]
    killed = [r for r in results if r["status"] == "ok" and r.get("expect") is not None]
    silent = [r for r in results if r["status"] == "ok" and r.get("expect") is None]
    print(f"[{prop}] self-test: {len(killed)} mutants reported by the expected rule, {len(silent)} benign variants silent, "
          f"{len(stale)} stale, {len(bad)} FAILED in {time.time() - started:.1f}s")
    if verbose:
        for r in results:
            if r["status"] != "ok":
                print("   ", json.dumps(r))
    # append the kill matrix to the evidence file written by the main run
    ev_path = Path(__file__).resolve().parent.parent / "evidence" / f"{prop}.json"
    if ev_path.exists():
        ev = json.loads(ev_path.read_text())
        ev["coverage"]["selftest"] = {"mutants_killed": len(killed), "benign_silent": len(silent), "stale": len(stale),
                                      "failed": [r["name"] for r in bad], "matrix": results}
        ev_path.write_text(json.dumps(ev, indent=1, default=str))
    if bad:
        print(f"ANALYSIS-ERROR property={prop}: checker self-test failed ({', '.join(r['name'] for r in bad)})")
        return 2
    # behaviour-preserving rewrites of the whole tree (re-emitted source, renamed locals, suppress -> try/except, inverted if/else): must stay silent
    try:
        sys.path.insert(0, str(Path(__file__).resolve().parent.parent / "tools"))
        import robustness  # type: ignore[import-not-found]

        overlay = robustness.build_overlay("all")
        _p, code, lines = robustness._run((prop, overlay))
    except Exception as exc:  # noqa: BLE001
        print(f"ANALYSIS-ERROR property={prop}: rewrite self-test could not run ({exc})")
        return 2
    print(f"[{prop}] self-test: behaviour-preserving rewrite of the tree -> exit {code}")
    if code != 0:
        for ln in lines:
            print("    ", ln)
        print(f"ANALYSIS-ERROR property={prop}: the check is not silent on a behaviour-preserving rewrite of the source")
        return 2
    return 0


if __name__ == "__main__":
    props = sys.argv[1:] or [f"C{n:02d}" for n in range(1, 21)]
    rc = 0
    for p in props:
        rc = max(rc, run_for(p))
    sys.exit(rc)
