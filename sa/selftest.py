"""Checker self-test (mutants / benign variants); filled in later."""


def run_for(prop: str) -> int:
    return 0
