"""Obligation bookkeeping, known findings, evidence and violation reports."""

from __future__ import annotations

import json
import os
import re
import time
from dataclasses import dataclass, field
from pathlib import Path
from typing import Any

VERIF = Path(__file__).resolve().parent.parent
KNOWN = VERIF / "known_findings.txt"
EVIDENCE_DIR = VERIF / "evidence"
OUT_DIR = VERIF / "out"


@dataclass
class Obligation:
    rule: str  # e.g. "R3"
    key: str  # stable instance key: qualified function | normalised statement / table row
    ok: bool
    what: str = ""  # human-readable: what was checked / what fails
    where: str = ""  # file:line (diagnostic only, never part of the key)
    detail: Any = None
    nontrivial: bool = True


@dataclass
class KnownEntry:
    status: str  # open | fixed
    prop: str
    rule: str = ""
    key: str = ""
    what: str = ""
    raw: str = ""


def load_known(path: Path = KNOWN) -> list[KnownEntry]:
    out: list[KnownEntry] = []
    if not path.exists():
        return out
    for line in path.read_text().splitlines():
        line = line.strip()
        if not line or line.startswith("#"):
            continue
        m = re.match(r"open: property=(\S+) rule=(\S+) key=(.*?) what=(.*)$", line)
        if m:
            out.append(KnownEntry("open", m.group(1), m.group(2), m.group(3).strip(), m.group(4).strip(), line))
            continue
        m = re.match(r"fixed: property=(\S+) (\S+) (.*)$", line)
        if m:
            out.append(KnownEntry("fixed", m.group(1), what=m.group(3), raw=line))
    return out


@dataclass
class Ctx:
    prop: str
    tier: str = "quick"
    obligations: list[Obligation] = field(default_factory=list)
    analysed: dict[str, Any] = field(default_factory=dict)
    notes: list[str] = field(default_factory=list)
    minimums: list[tuple[str, int, int]] = field(default_factory=list)  # (rule, got, min)
    rules_applied: dict[str, str] = field(default_factory=dict)

    def rule(self, rule: str, text: str) -> None:
        self.rules_applied[rule] = text

    def ob(self, rule: str, key: str, ok: bool, what: str = "", where: str = "", detail: Any = None, *, nontrivial: bool = True) -> bool:
        self.obligations.append(Obligation(rule, key, bool(ok), what, where, detail, nontrivial))
        return bool(ok)

    def expect_min(self, rule: str, got: int, minimum: int) -> None:
        """Instance-count floor confirmed by hand; below it the rule would pass vacuously."""
        self.minimums.append((rule, got, minimum))

    def note(self, text: str) -> None:
        self.notes.append(text)


def finish(ctx: Ctx, started: float, stats: dict[str, int], *, seed: int = 0, emit: bool = True) -> int:
    """Match violations against known findings, write evidence/out files, print verdict lines; return exit code."""
    from sa.srcmodel import AnalysisError

    known = [k for k in load_known() if k.prop == ctx.prop]
    open_known = {(k.rule, k.key): k for k in known if k.status == "open"}
    failed = [o for o in ctx.obligations if not o.ok]
    new: list[Obligation] = []
    hit_known: list[tuple[Obligation, KnownEntry]] = []
    for o in failed:
        k = open_known.get((o.rule, o.key))
        if k is not None:
            hit_known.append((o, k))
        else:
            new.append(o)
    stale = [k for k in open_known.values() if not any(k is kk for _, kk in hit_known)]
    if not new:
        # instance-count floors: a rule that lost its subjects must not pass vacuously (a definite violation wins over this)
        # The floor is two thirds of the count confirmed by hand on the reference tree: refactorings that merge duplicated sites into a shared
        # helper (seen in the behaviour-preserving wave: two loops, two stores, two constructions becoming one) lower the count without
        # making the rule vacuous; losing a third of the subjects does.
        for rule, got, minimum in ctx.minimums:
            if got < max(1, (2 * minimum + 2) // 3):
                raise AnalysisError(f"{ctx.prop}-{rule}: only {got} instances found, the count confirmed by hand is {minimum} (floor: two thirds of it)")

    lines: list[str] = []
    for o, k in hit_known:
        lines.append(f"KNOWN-FINDING: property={ctx.prop} rule={o.rule} {k.what} [{o.where}]")
    replay_paths: list[str] = []
    if new and emit:
        OUT_DIR.mkdir(exist_ok=True)
    MAX_REPORTED = 12
    for i, o in enumerate(new):
        if i >= MAX_REPORTED:
            lines.append(f"  ... and {len(new) - MAX_REPORTED} more violations of {ctx.prop} (all listed in the evidence file)")
            break
        path = OUT_DIR / f"{ctx.prop}-{o.rule}-{i}.json"
        if emit:
            path.write_text(
                json.dumps(
                    {
                        "property": ctx.prop,
                        "rule": o.rule,
                        "rule_text": ctx.rules_applied.get(o.rule, ""),
                        "key": o.key,
                        "where": o.where,
                        "what": o.what,
                        "detail": o.detail,
                    },
                    indent=1,
                    default=str,
                )
            )
        replay_paths.append(str(path))
        lines.append(f"  rule {ctx.prop}-{o.rule} violated at {o.where}: {o.what}\n    key={o.key}")
        lines.append(f"VIOLATION property={ctx.prop} replay={path}")

    distinct = {(o.rule, o.key) for o in ctx.obligations if o.nontrivial}
    samples = []
    seen_rules: set[str] = set()
    for o in ctx.obligations:
        if o.rule not in seen_rules or not o.ok:
            seen_rules.add(o.rule)
            samples.append({"rule": o.rule, "key": o.key, "ok": o.ok, "where": o.where, "what": o.what})
        if len(samples) >= 40:
            break
    per_rule: dict[str, dict[str, int]] = {}
    for o in ctx.obligations:
        d = per_rule.setdefault(o.rule, {"obligations": 0, "discharged": 0})
        d["obligations"] += 1
        d["discharged"] += int(o.ok)
    evidence = {
        "property_id": ctx.prop,
        "tier": ctx.tier,
        "seed": seed,
        "level": "other",
        "coverage": {
            "explanation": (
                "Static analysis of /repo's current source (ast, statement CFG, call graph, finite-domain abstract "
                "evaluation). Each obligation is one rule instance (construct, path or decision-table row) that was "
                "discharged from the source without importing or running griffe. Rules: "
                + "; ".join(f"{r}: {t}" for r, t in sorted(ctx.rules_applied.items()))
            ),
            "obligations": len(ctx.obligations),
            "discharged": sum(1 for o in ctx.obligations if o.ok),
            "evaluations": len(ctx.obligations),
            "distinct_nontrivial": len(distinct),
            "rule": "one evaluation = one rule instance keyed by (rule, construct/table row); non-trivial = the rule "
            "had a real construct to inspect (instance-count floors make vacuous passes an ANALYSIS-ERROR)",
            "samples": samples,
            "per_rule": per_rule,
            "analysed": {**stats, **ctx.analysed},
            "instance_floors": [{"rule": r, "found": g, "confirmed_by_hand": m, "floor": max(1, (2 * m + 2) // 3)} for r, g, m in ctx.minimums],
            "known_findings_reproduced": [k.raw for _, k in hit_known],
            "known_findings_not_reproduced": [k.raw for k in stale],
            "notes": ctx.notes,
            "checker_cmd": f"/venv/bin/python sa/check.py {ctx.prop} --tier {ctx.tier}",
            "trusted_base": ["python ast", "sa/cfg.py", "sa/srcmodel.py", "sa/absint.py", "reference tables in sa/rules"],
            "exhaustive": False,
        },
        "assumptions": [
            "no monkey-patching / user extensions; reflection limited to the getattr(self, f'visit_...') dispatchers",
            "decides the structural clauses listed in DESIGN.md section 3 for this property, not the behaviour as a whole",
        ],
        "wall_s": round(time.time() - started, 3),
        "violations": len(new),
    }
    if emit:
        EVIDENCE_DIR.mkdir(exist_ok=True)
        (EVIDENCE_DIR / f"{ctx.prop}.json").write_text(json.dumps(evidence, indent=1, default=str))
        print(
            f"[{ctx.prop}] tier={ctx.tier} files={stats.get('files')} functions={stats.get('functions')} "
            f"obligations={len(ctx.obligations)} discharged={evidence['coverage']['discharged']} "
            f"known={len(hit_known)} new={len(new)} wall={evidence['wall_s']}s"
        )
        for r, d in sorted(per_rule.items()):
            print(f"  {ctx.prop}-{r}: {d['discharged']}/{d['obligations']}  {ctx.rules_applied.get(r, '')[:110]}")
        for line in lines:
            print(line)
    ctx.analysed["_new"] = new
    ctx.analysed["_known_hit"] = hit_known
    return 1 if new else 0


def env_seed() -> int:
    try:
        return int(os.environ.get("VERIF_SEED", "0"))
    except ValueError:
        return 0
