"""Statement-level control-flow graph for the statement kinds the repository uses.

Construction is backwards (continuation style), so `finally` bodies are naturally duplicated
for each way of leaving the protected region (fall-through, return, exception, break, continue).
`with suppress(E...)` is modelled as an implicit handler that resumes after the `with`.

Queries offered (all exact on the graph, no path enumeration needed):
* ``reach(start, avoid=...)``      nodes reachable from start without entering `avoid` nodes / edges
* ``must_pass(a, targets, via)``   every path a -> targets passes a `via` node
* ``dominated_by_fact(n, pred)``   every path entry -> n crosses a branch edge on which `pred` holds
"""

from __future__ import annotations

import ast
from dataclasses import dataclass, field
from typing import Callable, Iterable, Iterator

from sa.srcmodel import AnalysisError, dotted, unparse, walk_no_nested


@dataclass(eq=False)
class CNode:
    idx: int
    kind: str  # entry exit raise stmt test for with_enter with_exit with_exc handler dispatch return
    stmt: ast.AST | None = None
    expr: ast.AST | None = None  # test expression for kind == test
    copy: str = ""  # which duplication of a finally body this node belongs to

    def __repr__(self) -> str:
        s = unparse(self.expr or self.stmt).split("\n")[0][:60] if (self.expr or self.stmt) is not None else ""
        return f"<{self.idx}:{self.kind} L{getattr(self.stmt, 'lineno', '-')} {s}>"

    @property
    def lineno(self) -> int:
        return getattr(self.stmt, "lineno", 0)


@dataclass
class _Ctx:
    ret: CNode
    exc: CNode
    brk: CNode | None = None
    cont: CNode | None = None
    copy: str = ""


_RAISING = (
    ast.Call,
    ast.Subscript,
    ast.Attribute,
    ast.Yield,
    ast.YieldFrom,
    ast.Await,
    ast.BinOp,
    ast.Compare,
    ast.Starred,
)


def may_raise(node: ast.AST) -> bool:
    if isinstance(node, (ast.Raise, ast.Assert, ast.Delete, ast.Import, ast.ImportFrom)):
        return True
    if isinstance(node, (ast.FunctionDef, ast.AsyncFunctionDef, ast.ClassDef)):
        return bool(node.decorator_list)
    return any(isinstance(n, _RAISING) for n in walk_no_nested(node, include_self=True))


SUPPRESS_NAMES = {"suppress", "contextlib.suppress"}


def _exc_names(at: ast.AST, elts: list[ast.expr], depth: int = 0) -> list[str]:
    """Exception class names of a handler / suppress() argument list; a name (or `*name`) bound once at module level to a tuple of exception
    classes stands for its elements (`_ALIAS_ERRORS = (AliasResolutionError, CyclicAliasError)`)."""
    mod = at
    while getattr(mod, "_parent", None) is not None:
        mod = mod._parent  # type: ignore[attr-defined]
    out: list[str] = []
    for e in elts:
        inner = e.value if isinstance(e, ast.Starred) else e
        if isinstance(inner, ast.Name) and isinstance(mod, ast.Module) and depth < 3:
            defs = [st for st in mod.body if isinstance(st, (ast.Assign, ast.AnnAssign)) and st.value is not None and any(
                isinstance(t, ast.Name) and t.id == inner.id for t in (st.targets if isinstance(st, ast.Assign) else [st.target]))]
            if len(defs) == 1 and isinstance(defs[0].value, ast.Tuple):
                out += _exc_names(at, list(defs[0].value.elts), depth + 1)
                continue
        out.append(dotted(inner) or unparse(e))
    return out


def suppress_types(item: ast.withitem) -> list[str] | None:
    ce = item.context_expr
    if isinstance(ce, ast.Call) and dotted(ce.func) in SUPPRESS_NAMES:
        return _exc_names(ce, list(ce.args))
    return None


class CFG:
    def __init__(self, fn: ast.FunctionDef | ast.AsyncFunctionDef | ast.Module) -> None:
        self.fn = fn
        self.nodes: list[CNode] = []
        self.succ: dict[CNode, list[tuple[CNode, str]]] = {}
        self.pred: dict[CNode, list[tuple[CNode, str]]] = {}
        self.exit = self._new("exit")
        self.raise_exit = self._new("raise")
        ctx = _Ctx(ret=self.exit, exc=self.raise_exit)
        body_entry = self._seq(fn.body, self.exit, ctx)
        self.entry = self._new("entry")
        self._edge(self.entry, body_entry)
        self._reachable = self.reach(self.entry)

    # ------------------------------------------------------------------ construction
    def _new(self, kind: str, stmt: ast.AST | None = None, expr: ast.AST | None = None, copy: str = "") -> CNode:
        node = CNode(len(self.nodes), kind, stmt, expr, copy)
        self.nodes.append(node)
        self.succ[node] = []
        self.pred[node] = []
        return node

    def _edge(self, a: CNode, b: CNode, label: str = "") -> None:
        if (b, label) not in self.succ[a]:
            self.succ[a].append((b, label))
            self.pred[b].append((a, label))

    def _seq(self, stmts: list[ast.stmt], succ: CNode, ctx: _Ctx) -> CNode:
        for stmt in reversed(stmts):
            succ = self._stmt(stmt, succ, ctx)
        return succ

    @staticmethod
    def _const_true(test: ast.expr) -> bool:
        return isinstance(test, ast.Constant) and bool(test.value) is True

    def _stmt(self, stmt: ast.stmt, succ: CNode, ctx: _Ctx) -> CNode:  # noqa: PLR0911,PLR0912,PLR0915
        if isinstance(stmt, ast.If):
            node = self._new("test", stmt, stmt.test, ctx.copy)
            self._edge(node, self._seq(stmt.body, succ, ctx), "T")
            self._edge(node, self._seq(stmt.orelse, succ, ctx), "F")
            if may_raise(stmt.test):
                self._edge(node, ctx.exc, "exc")
            return node
        if isinstance(stmt, ast.While):
            head = self._new("test", stmt, stmt.test, ctx.copy)
            inner = _Ctx(ret=ctx.ret, exc=ctx.exc, brk=succ, cont=head, copy=ctx.copy)
            self._edge(head, self._seq(stmt.body, head, inner), "T")
            if not self._const_true(stmt.test):
                self._edge(head, self._seq(stmt.orelse, succ, ctx), "F")
            if may_raise(stmt.test):
                self._edge(head, ctx.exc, "exc")
            return head
        if isinstance(stmt, (ast.For, ast.AsyncFor)):
            head = self._new("for", stmt, stmt.iter, ctx.copy)
            inner = _Ctx(ret=ctx.ret, exc=ctx.exc, brk=succ, cont=head, copy=ctx.copy)
            self._edge(head, self._seq(stmt.body, head, inner), "T")
            self._edge(head, self._seq(stmt.orelse, succ, ctx), "F")
            self._edge(head, ctx.exc, "exc")
            return head
        if isinstance(stmt, (ast.Try, getattr(ast, "TryStar", ast.Try))):
            return self._try(stmt, succ, ctx)
        if isinstance(stmt, (ast.With, ast.AsyncWith)):
            enter = self._new("with_enter", stmt, None, ctx.copy)
            wexit = self._new("with_exit", stmt, None, ctx.copy)
            wexc = self._new("with_exc", stmt, None, ctx.copy)
            self._edge(wexit, succ)
            self._edge(wexc, ctx.exc, "exc")
            if any(suppress_types(item) is not None for item in stmt.items):
                self._edge(wexc, succ, "suppressed")
            # return/break/continue inside the body run __exit__ too; model as pass-through nodes
            wret = self._new("with_exit", stmt, None, ctx.copy + "r")
            self._edge(wret, ctx.ret)
            inner = _Ctx(ret=wret, exc=wexc, brk=ctx.brk, cont=ctx.cont, copy=ctx.copy)
            self._edge(enter, self._seq(stmt.body, wexit, inner))
            self._edge(enter, ctx.exc, "exc")
            return enter
        if isinstance(stmt, ast.Return):
            node = self._new("return", stmt, stmt.value, ctx.copy)
            self._edge(node, ctx.ret)
            if stmt.value is not None and may_raise(stmt.value):
                self._edge(node, ctx.exc, "exc")
            return node
        if isinstance(stmt, ast.Raise):
            node = self._new("stmt", stmt, None, ctx.copy)
            self._edge(node, ctx.exc, "exc")
            return node
        if isinstance(stmt, ast.Break):
            node = self._new("stmt", stmt, None, ctx.copy)
            if ctx.brk is None:
                raise AnalysisError("break outside loop")
            self._edge(node, ctx.brk)
            return node
        if isinstance(stmt, ast.Continue):
            node = self._new("stmt", stmt, None, ctx.copy)
            if ctx.cont is None:
                raise AnalysisError("continue outside loop")
            self._edge(node, ctx.cont)
            return node
        if isinstance(stmt, getattr(ast, "Match", ())):
            raise AnalysisError(f"match statement not modelled (line {stmt.lineno})")
        node = self._new("stmt", stmt, None, ctx.copy)
        self._edge(node, succ)
        if may_raise(stmt):
            self._edge(node, ctx.exc, "exc")
        return node

    def _try(self, stmt: ast.Try, succ: CNode, ctx: _Ctx) -> CNode:
        if stmt.finalbody:
            tag = f"{ctx.copy}f{stmt.lineno}"
            normal = self._seq(stmt.finalbody, succ, _Ctx(ctx.ret, ctx.exc, ctx.brk, ctx.cont, tag + "n"))
            ctx2 = _Ctx(
                ret=self._seq(stmt.finalbody, ctx.ret, _Ctx(ctx.ret, ctx.exc, ctx.brk, ctx.cont, tag + "r")),
                exc=self._seq(stmt.finalbody, ctx.exc, _Ctx(ctx.ret, ctx.exc, ctx.brk, ctx.cont, tag + "x")),
                brk=self._seq(stmt.finalbody, ctx.brk, _Ctx(ctx.ret, ctx.exc, ctx.brk, ctx.cont, tag + "b"))
                if ctx.brk is not None
                else None,
                cont=self._seq(stmt.finalbody, ctx.cont, _Ctx(ctx.ret, ctx.exc, ctx.brk, ctx.cont, tag + "c"))
                if ctx.cont is not None
                else None,
                copy=ctx.copy,
            )
        else:
            normal = succ
            ctx2 = ctx
        dispatch = self._new("dispatch", stmt, None, ctx.copy)
        catch_all = False
        for handler in stmt.handlers:
            hnode = self._new("handler", handler, handler.type, ctx.copy)
            self._edge(dispatch, hnode, "exc")
            self._edge(hnode, self._seq(handler.body, normal, ctx2))
            names = handler_types(handler)
            if names is None or "BaseException" in names:
                catch_all = True
        if not catch_all:
            self._edge(dispatch, ctx2.exc, "exc")
        body_ctx = _Ctx(ret=ctx2.ret, exc=dispatch, brk=ctx2.brk, cont=ctx2.cont, copy=ctx.copy)
        orelse_entry = self._seq(stmt.orelse, normal, ctx2)
        return self._seq(stmt.body, orelse_entry, body_ctx)

    # ------------------------------------------------------------------ queries
    def reach(
        self,
        start: CNode | Iterable[CNode],
        avoid: Callable[[CNode], bool] | None = None,
        avoid_edge: Callable[[CNode, CNode, str], bool] | None = None,
        *,
        normal_only: bool = False,
    ) -> set[CNode]:
        starts = [start] if isinstance(start, CNode) else list(start)
        seen: set[CNode] = set()
        stack = [s for s in starts if not (avoid and avoid(s))]
        while stack:
            cur = stack.pop()
            if cur in seen:
                continue
            seen.add(cur)
            for nxt, label in self.succ[cur]:
                if normal_only and label == "exc":
                    continue
                if avoid and avoid(nxt):
                    continue
                if avoid_edge and avoid_edge(cur, nxt, label):
                    continue
                if nxt not in seen:
                    stack.append(nxt)
        return seen

    def live_nodes(self) -> list[CNode]:
        return [n for n in self.nodes if n in self._reachable]

    def find(self, pred: Callable[[CNode], bool]) -> list[CNode]:
        return [n for n in self.live_nodes() if pred(n)]

    def nodes_of(self, stmt: ast.AST) -> list[CNode]:
        return [n for n in self.live_nodes() if n.stmt is stmt]

    def must_pass(
        self,
        start: CNode | Iterable[CNode],
        targets: Iterable[CNode],
        via: Callable[[CNode], bool],
        *,
        normal_only: bool = False,
    ) -> bool:
        """True iff every path start -> any target passes a node satisfying `via` (strictly after start)."""
        tset = set(targets)
        starts = [start] if isinstance(start, CNode) else list(start)
        seen: set[CNode] = set()
        stack: list[CNode] = []
        for s in starts:
            for nxt, label in self.succ[s]:
                if not (normal_only and label == "exc"):
                    stack.append(nxt)
        while stack:
            cur = stack.pop()
            if cur in seen or via(cur):
                continue
            seen.add(cur)
            if cur in tset:
                return False
            for nxt, label in self.succ[cur]:
                if normal_only and label == "exc":
                    continue
                stack.append(nxt)
        return True

    def witness_path(
        self,
        start: CNode,
        targets: Iterable[CNode],
        avoid: Callable[[CNode], bool] | None = None,
        avoid_edge: Callable[[CNode, CNode, str], bool] | None = None,
        *,
        normal_only: bool = False,
    ) -> list[CNode] | None:
        """A shortest path start -> target avoiding `avoid` nodes (for diagnostics)."""
        tset = set(targets)
        prev: dict[CNode, CNode | None] = {start: None}
        queue = [start]
        while queue:
            cur = queue.pop(0)
            if cur in tset and cur is not start:
                path = [cur]
                while prev[path[-1]] is not None:
                    path.append(prev[path[-1]])  # type: ignore[arg-type]
                return list(reversed(path))
            for nxt, label in self.succ[cur]:
                if normal_only and label == "exc":
                    continue
                if nxt in prev or (avoid and avoid(nxt)) or (avoid_edge and avoid_edge(cur, nxt, label)):
                    continue
                prev[nxt] = cur
                queue.append(nxt)
        return None

    def dominated_by_node(self, node: CNode, via: Callable[[CNode], bool], *, normal_only: bool = True) -> bool:
        """Every path entry -> node passes a `via` node first."""
        if via(node):
            return True
        return node not in self.reach(self.entry, avoid=via, normal_only=normal_only)

    def dominated_by_fact(
        self,
        node: CNode,
        fact: Callable[[ast.expr, bool], bool],
        *,
        normal_only: bool = True,
    ) -> bool:
        """Every path entry -> node crosses a test edge on which `fact(atom, truth)` is implied for some atom."""

        def edge_has_fact(a: CNode, _b: CNode, label: str) -> bool:
            if a.kind != "test" or label not in ("T", "F") or a.expr is None:
                return False
            return any(fact(atom, truth) for atom, truth in implied(a.expr, label == "T"))

        if normal_only and node not in self._normal_reachable():
            # the node sits in an exception handler (reached through exceptional edges only): "every path" includes those edges, otherwise
            # the answer would be vacuously true
            normal_only = False
        return node not in self.reach(self.entry, avoid_edge=edge_has_fact, normal_only=normal_only)

    def _normal_reachable(self) -> set:
        cache = self.__dict__.get("_normal_reach_cache")
        if cache is None:
            cache = self.reach(self.entry, normal_only=True)
            self.__dict__["_normal_reach_cache"] = cache
        return cache

    def facts_on_all_paths(self, node: CNode, *, normal_only: bool = True) -> list[tuple[str, bool]]:
        """Atoms (as text) known true/false on every path to node (dominating branch facts)."""
        cache = self.__dict__.setdefault("_facts_cache", {})
        if (node, normal_only) in cache:
            return list(cache[(node, normal_only)])
        out = []
        cands: set[tuple[str, bool]] = set()
        for n in self.live_nodes():
            if n.kind == "test" and n.expr is not None:
                for br in (True, False):
                    for atom, truth in implied(n.expr, br):
                        cands.add((unparse(atom), truth))
        for text, truth in sorted(cands):
            if self.dominated_by_fact(
                node, lambda a, t, text=text, truth=truth: unparse(a) == text and t == truth, normal_only=normal_only
            ):
                out.append((text, truth))
        cache[(node, normal_only)] = list(out)
        return out

    def exits(self, *, exceptional: bool = True) -> list[CNode]:
        return [self.exit, self.raise_exit] if exceptional else [self.exit]

    def paths(
        self, start: CNode, targets: Iterable[CNode], *, max_visits: int = 1, limit: int = 20000, normal_only: bool = False
    ) -> Iterator[list[CNode]]:
        """Enumerate paths with each node visited at most `max_visits` times."""
        tset = set(targets)
        count = 0
        stack: list[tuple[CNode, list[CNode]]] = [(start, [start])]
        while stack:
            cur, path = stack.pop()
            if cur in tset and len(path) > 1:
                count += 1
                if count > limit:
                    raise AnalysisError(f"path explosion (> {limit}) in {getattr(self.fn, 'name', '?')}")
                yield path
                continue
            for nxt, label in self.succ[cur]:
                if normal_only and label == "exc":
                    continue
                if path.count(nxt) >= max_visits:
                    continue
                stack.append((nxt, [*path, nxt]))


def handler_types(handler: ast.ExceptHandler) -> list[str] | None:
    """Exception class names a handler catches; None for a bare except."""
    if handler.type is None:
        return None
    if isinstance(handler.type, ast.Tuple):
        return _exc_names(handler, list(handler.type.elts))
    return _exc_names(handler, [handler.type])


def implied(expr: ast.expr, branch: bool) -> list[tuple[ast.expr, bool]]:
    """Atoms whose truth value is implied when `expr` evaluates to `branch`."""
    if isinstance(expr, ast.UnaryOp) and isinstance(expr.op, ast.Not):
        return implied(expr.operand, not branch)
    if isinstance(expr, ast.BoolOp):
        if isinstance(expr.op, ast.And) and branch:
            return [f for v in expr.values for f in implied(v, True)]
        if isinstance(expr.op, ast.Or) and not branch:
            return [f for v in expr.values for f in implied(v, False)]
        return [(expr, branch)]
    if isinstance(expr, ast.NamedExpr):
        return [(expr, branch), *implied(expr.value, branch), (expr.target, branch)]
    if isinstance(expr, ast.Compare) and len(expr.ops) == 1:
        op = expr.ops[0]
        flip = {ast.IsNot: ast.Is, ast.NotEq: ast.Eq, ast.NotIn: ast.In}
        for neg, pos in flip.items():
            if isinstance(op, neg):
                twin = ast.Compare(left=expr.left, ops=[pos()], comparators=expr.comparators)
                return [(expr, branch), (twin, not branch)]
    return [(expr, branch)]
