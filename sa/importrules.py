"""Import-statement rules shared by C04 (R6) and C05 (R6): import-map writes, self-alias guard, `import a.b.c` binding."""

from __future__ import annotations

import ast

from sa.absint import Env, Interp, Obj
from sa.cfg import implied
from sa.report import Ctx
from sa.srcmodel import AnalysisError, Program, dotted, unparse, walk_no_nested
from sa.util import cfg_of, key, where


def import_rules(prog: Program, ctx: Ctx, rule: str) -> None:
    """`import ...` decision table: Visitor.visit_import evaluated on abstract visitors, against CPython's binding rule.

    `import a.b.c` binds the top-level package `a`; `import a.b.c as x` binds `x` to `a.b.c`; the import map records the same target."""
    from sa.absint import Native, Raised

    ctx.rule(rule, "visit_import binds the top-level package for a dotted import without `as`, the full path under the given name with `as`, records the "
                   "same target in the import map, and never creates an alias that points at its own path")
    vi = prog.function("_griffe.agents.visitor.Visitor.visit_import")
    it = Interp(prog)
    it.class_stubs["_griffe.models.Alias"] = lambda _i, name, target, **k_: Obj(None, {"name": name, "target_path": target, "runtime": k_.get("runtime", True)}, label=f"alias {name}")
    n_rows = 0
    # an import under `if TYPE_CHECKING:` binds nothing at run time: the alias says so (wildcard imports of the module then leave it out)
    for guarded in (False, True):
        flags: list = []
        current = Obj(prog.cls("_griffe.models.Module"), {"name": "m", "path": "m", "imports": {}}, label="m")
        current.attrs["set_member"] = Native(lambda n, a, flags=flags: flags.append((n, a.attrs.get("runtime"))))
        visitor = Obj(prog.cls("_griffe.agents.visitor.Visitor"), {"current": current, "type_guarded": guarded, "extensions": Obj(None, {"call": Native(lambda *a, **k: None)})}, label="visitor")
        try:
            it.call(vi, visitor, ast.parse("import decimal, heavy.sub as hs").body[0])
            gotf: object = flags
        except Raised as r:
            gotf = f"raises {r.exc}"
        n_rows += 1
        ctx.ob(rule, f"import|runtime flag|type-guarded={guarded}", gotf == [("decimal", not guarded), ("hs", not guarded)],
               f"`import decimal, heavy.sub as hs` {'under `if TYPE_CHECKING:`' if guarded else 'at run time'}: aliases and their runtime flags {gotf}", where(vi))
    for scope_path in ("m", "a"):
        for src, want in (("import a", [("a", "a")]), ("import a.b.c", [("a", "a")]), ("import a.b.c as x", [("x", "a.b.c")]), ("import a as y", [("y", "a")]),
                          ("import a.b, d.e as f", [("a", "a"), ("f", "d.e")]), ("import m.sub", [("m", "m")])):
            node = ast.parse(src).body[0]
            recorded: list[tuple[str, str]] = []
            imports: dict = {}
            current = Obj(prog.cls("_griffe.models.Module"), {"name": scope_path, "path": scope_path, "imports": imports}, label=scope_path)
            current.attrs["set_member"] = Native(lambda n, a, recorded=recorded: recorded.append((n, it.getattr(a, "target_path"))))
            visitor = Obj(prog.cls("_griffe.agents.visitor.Visitor"), {"current": current, "type_guarded": False,
                                                                       "extensions": Obj(None, {"call": Native(lambda *a, **k: None)})}, label="visitor")
            try:
                it.steps = 0
                it.call(vi, visitor, node)
                got: object = recorded
            except Raised as r:
                got = f"raises {r.exc}"
            n_rows += 1
            ok = got == want and all(imports.get(n) == t for n, t in want)
            ctx.ob(rule, f"import|{scope_path}|{src}", ok, f"`{src}` in module {scope_path}: griffe binds {got} (import map {imports}); Python binds {want}", where(vi))
    ctx.expect_min(rule, n_rows, 10)


def importfrom_table(prog: Program, ctx: Ctx, rule: str) -> None:
    """`from ... import ...` decision table: Visitor.visit_importfrom evaluated on abstract visitors, against CPython's binding rule.

    Python binds `asname or name` in the *current scope* to the object `<resolved package>.<module>.<name>`, where the package is resolved from
    the *module* the statement is written in (importlib.util.resolve_name), whatever class or function the statement sits in.  Griffe must
    create exactly that alias, except when the alias would point at its own path (then nothing is created)."""
    import importlib.util
    import itertools
    from pathlib import PurePosixPath

    from sa.absint import Native, Raised

    ctx.rule(rule, "visit_importfrom binds `asname or name` in the current scope to the path CPython resolves from the enclosing *module* "
                   "(any level, with or without module, in modules, packages and class bodies); only an alias that would point at itself is skipped")
    vif = prog.function("_griffe.agents.visitor.Visitor.visit_importfrom")
    it = Interp(prog)
    it.class_stubs["_griffe.models.Alias"] = lambda _i, name, target, **_k: Obj(None, {"name": name, "target_path": target}, label=f"alias {name}")
    M = "_griffe.models"
    layouts = {  # dotted module path -> is it an __init__ module
        "pkg": True, "pkg.mod": False, "pkg.sub": True, "pkg.sub.mod": False, "pkg.sub.deep": True, "pkg.sub.deep.leaf": False,
    }
    mods: dict[str, Obj] = {}
    for path, init in layouts.items():
        parts = path.split(".")
        fp = PurePosixPath("/s/" + "/".join(parts) + ("/__init__.py" if init else ".py"))
        mods[path] = Obj(prog.cls(f"{M}.Module"), {"name": parts[-1], "parent": mods.get(".".join(parts[:-1])), "path": path, "_filepath": fp}, label=path)
        mods[path].attrs["module"] = mods[path]
    n_rows = 0
    for (mpath, init), in_class, level, module, asname, star in itertools.product(layouts.items(), (False, True), (0, 1, 2, 3), (None, "x", "<own module>"), (None, "t", "thing"),
                                                                                     (False, True)):
        if module == "<own module>":
            if level != 0 or in_class:
                continue
            module = mpath  # `from pkg.mod import thing as thing` written in pkg.mod itself: the alias would point at its own path
        if level == 0 and module is None:
            continue
        if star and (asname or module is None):
            continue
        package = mpath if init else mpath.rpartition(".")[0]
        if level:
            try:
                base = importlib.util.resolve_name("." * level + (module or ""), package)
            except ImportError:
                continue  # beyond the top-level package: CPython rejects the statement
        else:
            base = module
        name = "*" if star else "thing"
        src = f"from {'.' * level}{module or ''} import {name}" + (f" as {asname}" if asname else "")
        node = ast.parse(src).body[0]
        recorded: list[tuple[str, str]] = []
        imports: dict = {}
        module_obj = mods[mpath]
        if in_class:
            current = Obj(prog.cls(f"{M}.Class"), {"name": "K", "parent": module_obj, "path": f"{mpath}.K", "module": module_obj}, label=f"{mpath}.K")
        else:
            current = module_obj
        saved = dict(current.attrs)
        current.attrs["imports"] = imports
        current.attrs["set_member"] = Native(lambda n, a, recorded=recorded: recorded.append((n, it.getattr(a, "target_path"))))
        visitor = Obj(prog.cls("_griffe.agents.visitor.Visitor"), {"current": current, "type_guarded": False,
                                                                   "extensions": Obj(None, {"call": Native(lambda *a, **k: None)})}, label="visitor")
        try:
            it.steps = 0
            it.call(vif, visitor, node)
            got: object = recorded
        except Raised as r:
            got = f"raises {r.exc}"
        finally:
            current.attrs.clear()
            current.attrs.update(saved)
        if star:
            want = [(f"{base.replace('.', '/')}/*", base)]
        else:
            local = asname or name
            target = f"{base}.{name}"
            want = [] if target == f"{current.attrs['path']}.{local}" else [(local, target)]
        n_rows += 1
        # the import map records the name whenever Python binds it, also when no alias is created because it would point at itself
        # (`from . import sub as sub`); only the bare `from . import sub` of an __init__ module - the sub-module itself - is left out
        bare_own_submodule = (not in_class) and init and level == 1 and module in (None,) and not asname
        map_ok = True if (star or bare_own_submodule) else imports.get(local) == target
        ok = got == want and map_ok
        scope = f"class in {mpath}" if in_class else mpath
        ctx.ob(rule, f"importfrom|{scope}{' (__init__)' if init else ''}|{src}", ok,
               f"`{src}` in {scope}{' (__init__)' if init else ''}: griffe binds {got}" + ("" if ok else f" (import map {imports}); Python binds {want}"), where(vif))
    ctx.expect_min(rule, n_rows, 150)


def wildcard_table(prog: Program, ctx: Ctx, rule: str, *, importers: bool = False) -> None:
    """`from m import *` decision table: GriffeLoader.expand_wildcards evaluated end to end on small packages built with the models' constructors.

    At run time the statement rebinds every public name of m at its own line: it displaces an earlier binding of the same name (a definition, an
    explicit import, an earlier wildcard import) and is displaced by a later one; private names are not imported; the placeholder goes away."""
    import itertools
    from pathlib import PurePosixPath as _PP

    from sa.absint import Native, Raised

    ctx.rule(rule, "expand_wildcards: each public name of the star-imported module becomes an alias placed at the line of the import statement; an "
                   "existing member (definition, explicitly imported name, name from an earlier wildcard import) is displaced exactly when the "
                   "wildcard import sits on a later line (missing line = 0); a name is never aliased to itself; private names stay out")
    L = "_griffe.loader.GriffeLoader"
    xw = prog.function(f"{L}.expand_wildcards")
    itw = Interp(prog, max_depth=60, max_steps=3_000_000)
    MD = "_griffe.models"

    def new(cls: str, *a: object, **k: object) -> Obj:
        return itw._construct(prog.cls(f"{MD}.{cls}"), list(a), dict(k))

    def setm(o: Obj, n: str, v: Obj) -> None:
        itw.call(prog.lookup_method(o.cls, "set_member")[0], o, n, v)

    def world() -> tuple[Obj, Obj, Obj, Obj, Obj]:
        coll = itw._construct(prog.cls("_griffe.collections.ModulesCollection"), [], {})
        pkg = new("Module", "pkg", filepath=_PP("/s/pkg/__init__.py"))
        setm(coll, "pkg", pkg)
        a, b, c = (new("Module", n_, filepath=_PP(f"/s/pkg/{n_}.py")) for n_ in "abc")
        for m_ in (a, b, c):
            setm(pkg, m_.attrs["name"], m_)
        for nm, ln in (("x", 1), ("y", 2), ("_p", 3)):
            setm(a, nm, new("Attribute", nm, lineno=ln, endlineno=ln))
        for nm, ln in (("x", 1), ("w", 2)):
            setm(c, nm, new("Attribute", nm, lineno=ln, endlineno=ln))
        return coll, pkg, a, b, c

    def run_and_describe(coll: Obj, pkg: Obj, b: Obj) -> dict:
        loader = Obj(prog.cls(L), {"modules_collection": coll, "extensions": Obj(None, {"call": Native(lambda *_a, **_k: None)})}, label="loader")
        itw.steps = 0
        try:
            itw.call(xw, loader, pkg)
            return {k_: (v_.cls.name, v_.attrs.get("target_path"), v_.attrs.get("alias_lineno") if v_.cls.name == "Alias" else v_.attrs.get("lineno")) for k_, v_ in b.attrs["members"].items()}
        except Raised as r:
            return {"<raises>": r.exc}

    n_rows = 0
    for old_kind, old_line, star_line in itertools.product(("none", "attribute", "explicitly imported name", "alias back to the importing module"), (None, 2, 4), (1, 3, 5)):
        if old_kind == "none" and old_line is not None:
            continue
        coll, pkg, a, b, _c = world()
        if old_kind == "alias back to the importing module":
            setm(a, "z", new("Alias", "z", "pkg.b.z", lineno=4, endlineno=4))  # `from pkg.b import z` in a: star-importing it into b would alias b.z to itself
            setm(b, "z", new("Attribute", "z", lineno=old_line, endlineno=old_line))
        elif old_kind == "attribute":
            setm(b, "x", new("Attribute", "x", lineno=old_line, endlineno=old_line))
        elif old_kind == "explicitly imported name":
            setm(b, "x", new("Alias", "x", "other.x", lineno=old_line, endlineno=old_line))
            b.attrs["imports"]["x"] = "other.x"  # what `from other import x` records
        setm(b, "pkg/a/*", new("Alias", "pkg/a/*", "pkg.a", lineno=star_line, endlineno=star_line))
        got = run_and_describe(coll, pkg, b)
        star_wins = star_line > (old_line or 0)
        want = {"y": ("Alias", "pkg.a.y", star_line)}
        if old_kind == "alias back to the importing module":
            want["x"] = ("Alias", "pkg.a.x", star_line)
            want["z"] = ("Attribute", None, old_line)  # never replaced by an alias to itself
        elif old_kind == "none" or star_wins:
            want["x"] = ("Alias", "pkg.a.x", star_line)
        else:
            want["x"] = ("Attribute", None, old_line) if old_kind == "attribute" else ("Alias", "other.x", old_line)
        n_rows += 1
        ctx.ob(rule, f"wildcard|existing={old_kind}@{old_line}|star@{star_line}", got == want,
               f"`from pkg.a import *` on line {star_line} of pkg.b, existing member: {old_kind} on line {old_line}: members of pkg.b {got}; at run time {want}", where(xw))
    # the star-imported module declares `__all__`: exactly the listed names are bound - none for an empty list (an empty `__all__` is still an `__all__`)
    for all_ in (["y"], ["x", "_p"], []):
        coll, pkg, a, b, _c = world()
        a.attrs["exports"] = list(all_)
        setm(b, "pkg/a/*", new("Alias", "pkg/a/*", "pkg.a", lineno=2, endlineno=2))
        got = run_and_describe(coll, pkg, b)
        want = {n_: ("Alias", f"pkg.a.{n_}", 2) for n_ in all_}
        n_rows += 1
        ctx.ob(rule, f"wildcard|source declares __all__ = {all_}", got == want,
               f"`from pkg.a import *` in pkg.b where pkg.a has `__all__ = {all_}` (and defines x, y, _p): members of pkg.b {got}; at run time {want}", where(xw))
    # two wildcard imports in one module exposing the same name: the later statement rebinds it
    for line_a, line_c in ((1, 3), (3, 1)):
        coll, pkg, a, b, c = world()
        setm(b, "pkg/a/*", new("Alias", "pkg/a/*", "pkg.a", lineno=line_a, endlineno=line_a))
        setm(b, "pkg/c/*", new("Alias", "pkg/c/*", "pkg.c", lineno=line_c, endlineno=line_c))
        got = run_and_describe(coll, pkg, b)
        later = ("pkg.a.x", line_a) if line_a > line_c else ("pkg.c.x", line_c)
        want = {"x": ("Alias", *later), "y": ("Alias", "pkg.a.y", line_a), "w": ("Alias", "pkg.c.w", line_c)}
        n_rows += 1
        ctx.ob(rule, f"wildcard|two star imports|a@{line_a}|c@{line_c}", got == want,
               f"`from pkg.a import *` (line {line_a}) and `from pkg.c import *` (line {line_c}) in pkg.b, both exposing x: members of pkg.b {got}; at run time {want}", where(xw))
    # a name defined in pkg.b, imported from there by pkg.c (and already looked at: aliases resolve on first use), then re-bound in pkg.b by a later star
    # import: what pkg.c imported is the re-bound object (the import runs after pkg.b's body)
    for existing in (("attribute", "explicitly imported name") if importers else ()):  # (decided once, under C05)
        coll, pkg, a, b, c = world()
        if existing == "attribute":
            setm(b, "y", new("Attribute", "y", lineno=1, endlineno=1))
        else:
            setm(b, "y", new("Alias", "y", "pkg.c.w", lineno=1, endlineno=1))
        setm(b, "pkg/a/*", new("Alias", "pkg/a/*", "pkg.a", lineno=3, endlineno=3))
        imported = new("Alias", "yy", "pkg.b.y", lineno=5, endlineno=5)
        setm(c, "yy", imported)
        try:
            first = itw.getattr(itw.getattr(imported, "final_target"), "path")
            run_and_describe(coll, pkg, b)
            after: object = itw.getattr(itw.getattr(imported, "final_target"), "path")
        except Raised as r:
            first, after = "?", f"raises {r.exc}"
        n_rows += 1
        ctx.ob(rule, f"wildcard|importer of a name re-bound by a later star import|existing={existing}", after == "pkg.a.y",
               f"pkg.c does `from pkg.b import y as yy` (resolved to {first} before the expansion); pkg.b defines y as {existing} on line 1 and star-imports pkg.a "
               f"(which defines y) on line 3: pkg.c.yy now leads to {after}; at run time it is pkg.a.y", where(xw))
    ctx.expect_min(rule, n_rows, 25)
