"""Import-statement rules shared by C04 (R6) and C05 (R6): import-map writes, self-alias guard, `import a.b.c` binding."""

from __future__ import annotations

import ast

from sa.absint import Env, Interp, Obj
from sa.cfg import implied
from sa.report import Ctx
from sa.srcmodel import AnalysisError, Program, dotted, unparse, walk_no_nested
from sa.util import cfg_of, key, where


def import_rules(prog: Program, ctx: Ctx, rule: str) -> None:
    ctx.rule(rule, "visit_import / visit_importfrom record every non-wildcard name in the import map before placing the alias; no alias is "
                   "created that points at its own path; an import of a dotted module without `as` binds the top-level package")
    for name in ("visit_import", "visit_importfrom"):
        fn = prog.function(f"_griffe.agents.visitor.Visitor.{name}")
        cfg = cfg_of(fn)
        imp = [n for n in cfg.live_nodes() if n.kind == "stmt" and isinstance(n.stmt, ast.Assign) and isinstance(n.stmt.targets[0], ast.Subscript)
               and unparse(n.stmt.targets[0].value).endswith(".imports")]
        sm = [n for n in cfg.live_nodes() if n.kind == "stmt" and any(isinstance(c, ast.Call) and isinstance(c.func, ast.Attribute) and c.func.attr == "set_member" for c in walk_no_nested(n.stmt, include_self=True))]
        ctx.ob(rule, key(fn, "imports-write"), len(imp) == 1 and unparse(imp[0].stmt.targets[0].slice) == "alias_name" and unparse(imp[0].stmt.value) == "alias_path",
               "imports[alias_name] = alias_path", where(fn))
        if imp and sm:
            if name == "visit_import":
                ok = all(cfg.dominated_by_node(s, lambda x: x in imp) for s in sm)
            else:
                # wildcard imports have no name to record: set_member is preceded by the write unless name == '*'
                def star(a, _b, label):
                    return a.kind == "test" and a.expr is not None and label in "TF" and any(unparse(at) == "name.name == '*'" and tr for at, tr in implied(a.expr, label == "T"))

                ok = not (cfg.reach(cfg.entry, avoid=lambda x: x in imp, avoid_edge=star, normal_only=True) & set(sm))
            ctx.ob(rule, key(fn, "imports-before-alias"), ok, "the import map is written before the alias is placed (for every non-wildcard name)", where(fn))
    vif = prog.function("_griffe.agents.visitor.Visitor.visit_importfrom")
    cfg = cfg_of(vif)
    cons = [n for n in cfg.live_nodes() if n.kind == "stmt" and isinstance(n.stmt, ast.Assign) and isinstance(n.stmt.value, ast.Call) and dotted(n.stmt.value.func) == "Alias"]
    for c in cons:
        ok = cfg.dominated_by_fact(c, lambda a, t: t and isinstance(a, ast.Compare) and isinstance(a.ops[0], ast.NotEq) and unparse(a.left) == "alias_path"
                                   and "self.current.path" in unparse(a.comparators[0]) and "alias_name" in unparse(a.comparators[0]))
        ctx.ob(rule, key(vif, "no-self-alias"), ok, "an alias whose target path equals its own path is never created", where(vif, c.stmt))
    ctx.expect_min(rule, len(cons), 1)
    vi = prog.function("_griffe.agents.visitor.Visitor.visit_import")
    it2 = Interp(prog)
    for mod_name, asname, want in (("a", None, ("a", "a")), ("a.b.c", None, ("a", "a")), ("a.b.c", "x", ("x", "a.b.c")), ("a", "y", ("y", "a"))):
        # evaluate the two local definitions alias_path / alias_name
        env = Env(vi.module)
        from sa.absint import Obj

        env.set("name", Obj(None, {"name": mod_name, "asname": asname}))
        defs = {unparse(s.targets[0]): s.value for s in walk_no_nested(vi.node) if isinstance(s, ast.Assign) and unparse(s.targets[0]) in ("alias_path", "alias_name")}
        if set(defs) != {"alias_path", "alias_name"}:
            raise AnalysisError("C05-R6: alias_path / alias_name definitions not found in visit_import")
        env.set("alias_path", it2.eval(defs["alias_path"], env))
        env.set("alias_name", it2.eval(defs["alias_name"], env))
        got = (env.vars["alias_name"], env.vars["alias_path"])
        ctx.ob(rule, f"import|{mod_name} as {asname}", got == want, f"`import {mod_name}{' as ' + asname if asname else ''}` binds {got[0]} -> {got[1]}, expected {want[0]} -> {want[1]}", where(vi))


def importfrom_table(prog: Program, ctx: Ctx, rule: str) -> None:
    """`from ... import ...` decision table: Visitor.visit_importfrom evaluated on abstract visitors, against CPython's binding rule.

    Python binds `asname or name` in the *current scope* to the object `<resolved package>.<module>.<name>`, where the package is resolved from
    the *module* the statement is written in (importlib.util.resolve_name), whatever class or function the statement sits in.  Griffe must
    create exactly that alias, except when the alias would point at its own path (then nothing is created)."""
    import importlib.util
    import itertools
    from pathlib import PurePosixPath

    from sa.absint import Native, Raised

    ctx.rule(rule, "visit_importfrom binds `asname or name` in the current scope to the path CPython resolves from the enclosing *module* "
                   "(any level, with or without module, in modules, packages and class bodies); only an alias that would point at itself is skipped")
    vif = prog.function("_griffe.agents.visitor.Visitor.visit_importfrom")
    it = Interp(prog)
    it.class_stubs["_griffe.models.Alias"] = lambda _i, name, target, **_k: Obj(None, {"name": name, "target_path": target}, label=f"alias {name}")
    M = "_griffe.models"
    layouts = {  # dotted module path -> is it an __init__ module
        "pkg": True, "pkg.mod": False, "pkg.sub": True, "pkg.sub.mod": False, "pkg.sub.deep": True, "pkg.sub.deep.leaf": False,
    }
    mods: dict[str, Obj] = {}
    for path, init in layouts.items():
        parts = path.split(".")
        fp = PurePosixPath("/s/" + "/".join(parts) + ("/__init__.py" if init else ".py"))
        mods[path] = Obj(prog.cls(f"{M}.Module"), {"name": parts[-1], "parent": mods.get(".".join(parts[:-1])), "path": path, "_filepath": fp}, label=path)
        mods[path].attrs["module"] = mods[path]
    n_rows = 0
    for (mpath, init), in_class, level, module, asname, star in itertools.product(layouts.items(), (False, True), (0, 1, 2, 3), (None, "x"), (None, "t"), (False, True)):
        if level == 0 and module is None:
            continue
        if star and (asname or module is None):
            continue
        package = mpath if init else mpath.rpartition(".")[0]
        if level:
            try:
                base = importlib.util.resolve_name("." * level + (module or ""), package)
            except ImportError:
                continue  # beyond the top-level package: CPython rejects the statement
        else:
            base = module
        name = "*" if star else "thing"
        src = f"from {'.' * level}{module or ''} import {name}" + (f" as {asname}" if asname else "")
        node = ast.parse(src).body[0]
        recorded: list[tuple[str, str]] = []
        imports: dict = {}
        module_obj = mods[mpath]
        if in_class:
            current = Obj(prog.cls(f"{M}.Class"), {"name": "K", "parent": module_obj, "path": f"{mpath}.K", "module": module_obj}, label=f"{mpath}.K")
        else:
            current = module_obj
        saved = dict(current.attrs)
        current.attrs["imports"] = imports
        current.attrs["set_member"] = Native(lambda n, a, recorded=recorded: recorded.append((n, it.getattr(a, "target_path"))))
        visitor = Obj(prog.cls("_griffe.agents.visitor.Visitor"), {"current": current, "type_guarded": False,
                                                                   "extensions": Obj(None, {"call": Native(lambda *a, **k: None)})}, label="visitor")
        try:
            it.steps = 0
            it.call(vif, visitor, node)
            got: object = recorded
        except Raised as r:
            got = f"raises {r.exc}"
        finally:
            current.attrs.clear()
            current.attrs.update(saved)
        if star:
            want = [(f"{base.replace('.', '/')}/*", base)]
        else:
            local = asname or name
            target = f"{base}.{name}"
            want = [] if target == f"{current.attrs['path']}.{local}" else [(local, target)]
        n_rows += 1
        ok = got == want and (star or not want or imports.get(want[0][0]) == want[0][1])
        scope = f"class in {mpath}" if in_class else mpath
        ctx.ob(rule, f"importfrom|{scope}{' (__init__)' if init else ''}|{src}", ok,
               f"`{src}` in {scope}{' (__init__)' if init else ''}: griffe binds {got}" + ("" if ok else f" (import map {imports}); Python binds {want}"), where(vif))
    ctx.expect_min(rule, n_rows, 150)
