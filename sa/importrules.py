"""Import-statement rules shared by C04 (R6) and C05 (R6): import-map writes, self-alias guard, `import a.b.c` binding."""

from __future__ import annotations

import ast

from sa.absint import Env, Interp, Obj
from sa.cfg import implied
from sa.report import Ctx
from sa.srcmodel import AnalysisError, Program, dotted, unparse, walk_no_nested
from sa.util import cfg_of, key, where


def import_rules(prog: Program, ctx: Ctx, rule: str) -> None:
    """`import ...` decision table: Visitor.visit_import evaluated on abstract visitors, against CPython's binding rule.

    `import a.b.c` binds the top-level package `a`; `import a.b.c as x` binds `x` to `a.b.c`; the import map records the same target."""
    from sa.absint import Native, Raised

    ctx.rule(rule, "visit_import binds the top-level package for a dotted import without `as`, the full path under the given name with `as`, records the "
                   "same target in the import map, and never creates an alias that points at its own path")
    vi = prog.function("_griffe.agents.visitor.Visitor.visit_import")
    it = Interp(prog)
    it.class_stubs["_griffe.models.Alias"] = lambda _i, name, target, **_k: Obj(None, {"name": name, "target_path": target}, label=f"alias {name}")
    n_rows = 0
    for scope_path in ("m", "a"):
        for src, want in (("import a", [("a", "a")]), ("import a.b.c", [("a", "a")]), ("import a.b.c as x", [("x", "a.b.c")]), ("import a as y", [("y", "a")]),
                          ("import a.b, d.e as f", [("a", "a"), ("f", "d.e")]), ("import m.sub", [("m", "m")])):
            node = ast.parse(src).body[0]
            recorded: list[tuple[str, str]] = []
            imports: dict = {}
            current = Obj(prog.cls("_griffe.models.Module"), {"name": scope_path, "path": scope_path, "imports": imports}, label=scope_path)
            current.attrs["set_member"] = Native(lambda n, a, recorded=recorded: recorded.append((n, it.getattr(a, "target_path"))))
            visitor = Obj(prog.cls("_griffe.agents.visitor.Visitor"), {"current": current, "type_guarded": False,
                                                                       "extensions": Obj(None, {"call": Native(lambda *a, **k: None)})}, label="visitor")
            try:
                it.steps = 0
                it.call(vi, visitor, node)
                got: object = recorded
            except Raised as r:
                got = f"raises {r.exc}"
            n_rows += 1
            ok = got == want and all(imports.get(n) == t for n, t in want)
            ctx.ob(rule, f"import|{scope_path}|{src}", ok, f"`{src}` in module {scope_path}: griffe binds {got} (import map {imports}); Python binds {want}", where(vi))
    ctx.expect_min(rule, n_rows, 10)


def importfrom_table(prog: Program, ctx: Ctx, rule: str) -> None:
    """`from ... import ...` decision table: Visitor.visit_importfrom evaluated on abstract visitors, against CPython's binding rule.

    Python binds `asname or name` in the *current scope* to the object `<resolved package>.<module>.<name>`, where the package is resolved from
    the *module* the statement is written in (importlib.util.resolve_name), whatever class or function the statement sits in.  Griffe must
    create exactly that alias, except when the alias would point at its own path (then nothing is created)."""
    import importlib.util
    import itertools
    from pathlib import PurePosixPath

    from sa.absint import Native, Raised

    ctx.rule(rule, "visit_importfrom binds `asname or name` in the current scope to the path CPython resolves from the enclosing *module* "
                   "(any level, with or without module, in modules, packages and class bodies); only an alias that would point at itself is skipped")
    vif = prog.function("_griffe.agents.visitor.Visitor.visit_importfrom")
    it = Interp(prog)
    it.class_stubs["_griffe.models.Alias"] = lambda _i, name, target, **_k: Obj(None, {"name": name, "target_path": target}, label=f"alias {name}")
    M = "_griffe.models"
    layouts = {  # dotted module path -> is it an __init__ module
        "pkg": True, "pkg.mod": False, "pkg.sub": True, "pkg.sub.mod": False, "pkg.sub.deep": True, "pkg.sub.deep.leaf": False,
    }
    mods: dict[str, Obj] = {}
    for path, init in layouts.items():
        parts = path.split(".")
        fp = PurePosixPath("/s/" + "/".join(parts) + ("/__init__.py" if init else ".py"))
        mods[path] = Obj(prog.cls(f"{M}.Module"), {"name": parts[-1], "parent": mods.get(".".join(parts[:-1])), "path": path, "_filepath": fp}, label=path)
        mods[path].attrs["module"] = mods[path]
    n_rows = 0
    for (mpath, init), in_class, level, module, asname, star in itertools.product(layouts.items(), (False, True), (0, 1, 2, 3), (None, "x", "<own module>"), (None, "t", "thing"),
                                                                                     (False, True)):
        if module == "<own module>":
            if level != 0 or in_class:
                continue
            module = mpath  # `from pkg.mod import thing as thing` written in pkg.mod itself: the alias would point at its own path
        if level == 0 and module is None:
            continue
        if star and (asname or module is None):
            continue
        package = mpath if init else mpath.rpartition(".")[0]
        if level:
            try:
                base = importlib.util.resolve_name("." * level + (module or ""), package)
            except ImportError:
                continue  # beyond the top-level package: CPython rejects the statement
        else:
            base = module
        name = "*" if star else "thing"
        src = f"from {'.' * level}{module or ''} import {name}" + (f" as {asname}" if asname else "")
        node = ast.parse(src).body[0]
        recorded: list[tuple[str, str]] = []
        imports: dict = {}
        module_obj = mods[mpath]
        if in_class:
            current = Obj(prog.cls(f"{M}.Class"), {"name": "K", "parent": module_obj, "path": f"{mpath}.K", "module": module_obj}, label=f"{mpath}.K")
        else:
            current = module_obj
        saved = dict(current.attrs)
        current.attrs["imports"] = imports
        current.attrs["set_member"] = Native(lambda n, a, recorded=recorded: recorded.append((n, it.getattr(a, "target_path"))))
        visitor = Obj(prog.cls("_griffe.agents.visitor.Visitor"), {"current": current, "type_guarded": False,
                                                                   "extensions": Obj(None, {"call": Native(lambda *a, **k: None)})}, label="visitor")
        try:
            it.steps = 0
            it.call(vif, visitor, node)
            got: object = recorded
        except Raised as r:
            got = f"raises {r.exc}"
        finally:
            current.attrs.clear()
            current.attrs.update(saved)
        if star:
            want = [(f"{base.replace('.', '/')}/*", base)]
        else:
            local = asname or name
            target = f"{base}.{name}"
            want = [] if target == f"{current.attrs['path']}.{local}" else [(local, target)]
        n_rows += 1
        ok = got == want and (star or not want or imports.get(want[0][0]) == want[0][1])
        scope = f"class in {mpath}" if in_class else mpath
        ctx.ob(rule, f"importfrom|{scope}{' (__init__)' if init else ''}|{src}", ok,
               f"`{src}` in {scope}{' (__init__)' if init else ''}: griffe binds {got}" + ("" if ok else f" (import map {imports}); Python binds {want}"), where(vif))
    ctx.expect_min(rule, n_rows, 150)
