"""Extension-event protocol checks shared by C01 (Visitor) and C17 (Inspector).

For every model object constructed in an agent handler the automaton
    on_node -> on_<k>_node -> construct o -> place o -> on_instance(obj=o) -> on_<k>_instance(<k>=o)
            -> [recursive visit -> on_members(obj=o) -> on_<k>_members(<k>=o)]
is checked on the statement CFG (must-pass-through / precedence queries).
"""

from __future__ import annotations

import ast
from dataclasses import dataclass

from sa.cfg import CFG, CNode
from sa.report import Ctx
from sa.srcmodel import FunctionInfo, Program, dotted, norm, unparse, walk_no_nested
from sa.util import cfg_of, key, kwarg, node_index, stmt_of, where

MODEL_KINDS = {"Module": ("module", "mod"), "Class": ("class", "cls"), "Function": ("function", "func"), "Attribute": ("attribute", "attr")}


@dataclass
class EventCall:
    node: ast.Call
    event: str
    kwargs: dict[str, str]


def event_calls(fn: FunctionInfo) -> list[EventCall]:
    out = []
    for n in walk_no_nested(fn.node):
        if isinstance(n, ast.Call) and isinstance(n.func, ast.Attribute) and n.func.attr == "call" and unparse(n.func.value).endswith("extensions") \
                and n.args and isinstance(n.args[0], ast.Constant) and isinstance(n.args[0].value, str):
            out.append(EventCall(n, n.args[0].value, {kw.arg: unparse(kw.value) for kw in n.keywords if kw.arg}))
    return out


def constructions(prog: Program, fn: FunctionInfo) -> list[tuple[str, str, ast.Call, ast.stmt]]:
    """(variable, model class name, constructor call, assignment statement) for model objects built in fn."""
    out = []
    for n in walk_no_nested(fn.node):
        if isinstance(n, (ast.Assign, ast.AnnAssign)) and isinstance(n.value, ast.Call):
            full = prog.resolve(fn.module, dotted(n.value.func) or "")
            if full and full.startswith("_griffe.models.") and full.split(".")[-1] in (*MODEL_KINDS, "Alias"):
                targets = n.targets if isinstance(n, ast.Assign) else [n.target]
                names = [t.id for t in targets if isinstance(t, ast.Name)]
                if names:
                    out.append((names[-1], full.split(".")[-1], n.value, n))
    return out


def _nodes(fn: FunctionInfo, node: ast.AST) -> list[CNode]:
    return node_index(fn).get(id(node), [])


_CONTEXT: dict = {}  # set by check_protocol: the program, the function under analysis and its finite-domain discriminators


def _helper_places(call: ast.Call, var: str) -> bool:
    """`self._helper(..., var, ...)`: a private method of the same class that attaches the parameter `var` is bound to on every normal path
    (finite-domain discriminators of the caller are carried over to the parameters they are passed as)."""
    prog, fn, domains = _CONTEXT.get("prog"), _CONTEXT.get("fn"), _CONTEXT.get("domains") or {}
    if prog is None or fn is None or fn.cls is None or not (isinstance(call.func, ast.Attribute) and unparse(call.func.value) == "self"):
        return False
    if not call.func.attr.startswith("_") or _CONTEXT.get("depth", 0) > 1:
        return False
    hs = prog.lookup_method(fn.cls, call.func.attr)
    if len(hs) != 1 or any(isinstance(a, ast.Starred) for a in call.args) or any(k.arg is None for k in call.keywords):
        return False
    h = hs[0]
    a = h.node.args
    pos = [x.arg for x in (*a.posonlyargs, *a.args)][1:]
    bound = dict(zip(pos, call.args))
    bound.update({k.arg: k.value for k in call.keywords})
    params = [p for p, v in bound.items() if unparse(v) == var]
    if len(params) != 1:
        return False
    hdom = {p: set(domains[unparse(v)]) for p, v in bound.items() if unparse(v) in domains}
    from sa.util import cfg_of as _cfg_of

    hcfg = _cfg_of(h)
    saved = dict(_CONTEXT)
    _CONTEXT.update(fn=h, domains=hdom, depth=_CONTEXT.get("depth", 0) + 1)
    try:
        leak = hcfg.reach([hcfg.entry], avoid=lambda x: is_placement(x, params[0]), avoid_edge=enum_infeasible(hcfg, hdom), normal_only=True)
    finally:
        _CONTEXT.clear()
        _CONTEXT.update(saved)
    return hcfg.exit not in leak


def is_placement(stmt_node: CNode, var: str) -> bool:
    s = stmt_node.stmt
    if stmt_node.kind != "stmt" or s is None:
        return False
    for n in walk_no_nested(s, include_self=True):
        if isinstance(n, ast.Call) and _helper_places(n, var):
            return True
        if isinstance(n, ast.Call) and isinstance(n.func, ast.Name) and n.func.id == "setattr" and len(n.args) == 3 and unparse(n.args[2]) == var:
            return True  # stored as an attribute of an object of the tree (the setter / deleter of a property), the name computed
        if isinstance(n, ast.Call) and isinstance(n.func, ast.Attribute):
            if n.func.attr in ("set_member", "__setitem__") and len(n.args) >= 2 and unparse(n.args[1]) == var:
                return True
            if n.func.attr in ("append", "add") and n.args and unparse(n.args[0]) == var:
                return True
        if isinstance(n, ast.Assign) and unparse(n.value) == var and any(
            isinstance(t, ast.Attribute) and t.attr in ("setter", "deleter") for t in n.targets
        ):
            return True
        if isinstance(n, ast.Assign) and unparse(n.value) == var and any(isinstance(t, ast.Subscript) for t in n.targets):
            return True
    return False


def enum_infeasible(cfg: CFG, domains: dict[str, set[str]]):
    """avoid_edge predicate: the F edge of `v == c` is infeasible when every other value of v's finite domain was already excluded."""
    from sa.cfg import implied

    def table_hit(a: CNode, label: str) -> bool:
        """`x = TABLE.get(d)` with d of a finite domain every value of which is a key of the module-level literal TABLE: `x is None` cannot hold."""
        e = a.expr
        if not (isinstance(e, ast.Compare) and len(e.ops) == 1 and isinstance(e.ops[0], (ast.Is, ast.IsNot)) and isinstance(e.left, ast.Name)
                and isinstance(e.comparators[0], ast.Constant) and e.comparators[0].value is None):
            return False
        none_branch = "T" if isinstance(e.ops[0], ast.Is) else "F"
        if label != none_branch:
            return False
        fn = _CONTEXT.get("fn")
        if fn is None:
            return False
        defs = [s_ for s_ in walk_no_nested(fn.node) if isinstance(s_, (ast.Assign, ast.AnnAssign)) and s_.value is not None and any(
            isinstance(t, ast.Name) and t.id == e.left.id for t in (s_.targets if isinstance(s_, ast.Assign) else [s_.target]))]
        if len(defs) != 1:
            return False
        v = defs[0].value
        if not (isinstance(v, ast.Call) and isinstance(v.func, ast.Attribute) and v.func.attr == "get" and isinstance(v.func.value, ast.Name)
                and len(v.args) == 1 and isinstance(v.args[0], ast.Name) and v.args[0].id in domains):
            return False
        table = fn.module.assigns.get(v.func.value.id)
        if not isinstance(table, ast.Dict):
            return False
        keys = {k.value for k in table.keys if isinstance(k, ast.Constant)}
        return domains[v.args[0].id] <= keys and all(not (isinstance(x, ast.Constant) and x.value is None) for x in table.values)

    def infeasible(a: CNode, _b: CNode, label: str) -> bool:
        if a.kind == "test" and a.expr is not None and label in ("T", "F") and table_hit(a, label):
            return True
        if a.kind != "test" or a.expr is None or label != "F":
            return False
        e = a.expr
        if not (isinstance(e, ast.Compare) and len(e.ops) == 1 and isinstance(e.ops[0], ast.Eq) and isinstance(e.left, ast.Name)
                and isinstance(e.comparators[0], ast.Constant) and e.left.id in domains):
            return False
        var, c = e.left.id, e.comparators[0].value
        others = domains[var] - {c}
        return all(cfg.dominated_by_fact(a, lambda at, tr, d=d, var=var: (not tr) and unparse(at) == f"{var} == {d!r}") for d in others)

    return infeasible


def check_protocol(prog: Program, ctx: Ctx, rule: str, fn: FunctionInfo, *, recursive_calls: tuple[str, ...], node_events: bool = True,
                   domains: dict[str, set[str]] | None = None) -> int:
    """Check the automaton for every model object constructed in `fn`; returns the number of constructions checked."""
    cfg = cfg_of(fn)
    enum_inf = enum_infeasible(cfg, domains or {})
    current: dict[str, str] = {}
    _CONTEXT.clear()
    _CONTEXT.update(prog=prog, fn=fn, domains=domains or {})

    def infeasible(a: CNode, b: CNode, label: str) -> bool:
        """Edges impossible for the object under analysis: finite-domain discriminators, and `var.is_<kind>` tests on a variable whose class is known."""
        if enum_inf(a, b, label):
            return True
        if a.kind == "test" and a.expr is not None and label in ("T", "F") and current:
            from sa.cfg import implied

            for atom, truth in implied(a.expr, label == "T"):
                t = unparse(atom)
                for var, kind in current.items():
                    for k in ("module", "class", "function", "attribute"):
                        if t == f"{var}.is_{k}" and truth != (k == kind):
                            return True
        return False
    evs = event_calls(fn)
    cons = constructions(prog, fn)
    n_checked = 0
    for var, cls, call, st in cons:
        if cls == "Alias":
            al = [e for e in evs if e.event == "on_alias" and e.kwargs.get("alias") == var]
            ctx.ob(rule, key(fn, f"{var}:on_alias-once"), len(al) == 1, f"exactly one on_alias event announces alias `{var}` (found {len(al)})", where(fn, call))
            for e in al:
                n_checked += 1
                for c in _nodes(fn, call):
                    starts = [b for b, lab in cfg.succ[c] if lab != "exc"]
                    ev_nodes = set(_nodes(fn, e.node))
                    leak = cfg.reach(starts, avoid=lambda x: x in ev_nodes, normal_only=True) & {cfg.exit}
                    # a construction inside a loop: next iteration counts as leaving without announcing
                    again = c in cfg.reach(starts, avoid=lambda x: x in ev_nodes, normal_only=True)
                    ctx.ob(rule, key(fn, f"{var}:announced"), not leak and not again,
                           f"every alias `{var}` placed in the tree is announced with on_alias", where(fn, call))
                    placed = cfg.reach(starts, avoid=lambda x: is_placement(x, var), normal_only=True) & ev_nodes
                    ctx.ob(rule, key(fn, f"{var}:placed-before-announced"), not placed, f"alias `{var}` is attached (set_member) before on_alias fires", where(fn, e.node))
            continue
        kind, kwname = MODEL_KINDS[cls]
        current.clear()
        current[var] = kind
        inst = [e for e in evs if e.event == "on_instance" and e.kwargs.get("obj") == var]
        kinst = [e for e in evs if e.event == f"on_{kind}_instance" and e.kwargs.get(kwname) == var]
        if not inst and not kinst and not any(e.event.endswith(("_instance", "_members", "_node")) or e.event in ("on_instance", "on_members", "on_node") for e in evs):
            # no event is fired by a literal `extensions.call("on_...")` in this function at all: they go through a helper (event names computed).
            # The static protocol check has nothing to follow; the announcement trace of every generated module (extraction table R10: each
            # object once, parent first, generic before kind-specific, members-complete last) decides.
            ctx.note(f"{rule}: {fn.name} fires no event by a literal call; the protocol of `{var}` is left to the announcement traces of the extraction table")
            n_checked += 1  # (a subject that was found; the floor counts subjects)
            continue
        ctx.ob(rule, key(fn, f"{var}:on_instance-once"), len(inst) == 1, f"exactly one on_instance(obj={var}) (found {len(inst)})", where(fn, call))
        ctx.ob(rule, key(fn, f"{var}:on_{kind}_instance-once"), len(kinst) == 1,
               f"exactly one on_{kind}_instance({kwname}={var}) (found {len(kinst)}; a {cls} must be announced with its own kind's event)", where(fn, call))
        if len(inst) != 1 or len(kinst) != 1:
            continue
        n_checked += 1
        i_nodes, k_nodes = set(_nodes(fn, inst[0].node)), set(_nodes(fn, kinst[0].node))
        for c in _nodes(fn, call):
            starts = [b for b, lab in cfg.succ[c] if lab != "exc"]
            # announced on every path (a loop back-edge counts as leaving)
            for label, target in (("on_instance", i_nodes), (f"on_{kind}_instance", k_nodes)):
                leak = cfg.reach(starts, avoid=lambda x, target=target: x in target, avoid_edge=infeasible, normal_only=True)
                bad = (cfg.exit in leak) or (c in leak)
                ctx.ob(rule, key(fn, f"{var}:{label}-on-every-path"), not bad,
                       f"every path from the construction of `{var}` fires {label}" if not bad else f"a path builds `{var}` and leaves without firing {label}",
                       where(fn, call))
            # placement strictly before on_instance (modules are roots: no placement)
            if cls != "Module":
                unplaced = cfg.reach(starts, avoid=lambda x: is_placement(x, var), avoid_edge=infeasible, normal_only=True) & i_nodes
                ctx.ob(rule, key(fn, f"{var}:placed-before-on_instance"), not unplaced,
                       f"`{var}` is attached to the tree (set_member / overload list / setter) before on_instance fires", where(fn, inst[0].node))
            # on_instance before the kind event
            early = cfg.reach(starts, avoid=lambda x: x in i_nodes, avoid_edge=infeasible, normal_only=True) & k_nodes
            ctx.ob(rule, key(fn, f"{var}:generic-before-kind-event"), not early, f"on_instance precedes on_{kind}_instance", where(fn, kinst[0].node))
        # node events before construction
        if node_events:
            # node events are named after the *node* kind handled by this function (a property is built from a function node)
            node_kinds = sorted({e.event for e in evs if e.event.endswith("_node") and e.event != "on_node"})
            ctx.ob(rule, key(fn, f"{var}:one-node-kind"), len(node_kinds) == 1, f"the handler fires exactly one on_<kind>_node event (found {node_kinds})", where(fn, call))
            for ev in ("on_node", *node_kinds[:1]):
                en = {x for e in evs if e.event == ev for x in _nodes(fn, e.node)}
                ok = bool(en) and all(cfg.dominated_by_node(c, lambda x, en=en: x in en) for c in _nodes(fn, call))
                ctx.ob(rule, key(fn, f"{var}:{ev}-first"), ok, f"{ev} fires before `{var}` is built", where(fn, call))
        # members events around the recursive visit (module / class)
        if cls in ("Module", "Class"):
            rec = [n for n in walk_no_nested(fn.node) if isinstance(n, ast.Call) and (dotted(n.func) or "") in recursive_calls]
            mem = [e for e in evs if e.event == "on_members" and e.kwargs.get("obj") == var]
            kmem = [e for e in evs if e.event == f"on_{kind}_members" and e.kwargs.get(kwname) == var]
            ctx.ob(rule, key(fn, f"{var}:members-events-once"), len(mem) == 1 and len(kmem) == 1,
                   f"exactly one on_members(obj={var}) and one on_{kind}_members({kwname}={var})", where(fn, call))
            ctx.ob(rule, key(fn, f"{var}:visits-members"), len(rec) >= 1, f"the members of `{var}` are visited", where(fn, call))
            if len(mem) == 1 and len(kmem) == 1 and rec:
                m_nodes, km_nodes = set(_nodes(fn, mem[0].node)), set(_nodes(fn, kmem[0].node))
                for r in rec:
                    for rn in _nodes(fn, r):
                        starts = [b for b, lab in cfg.succ[rn] if lab != "exc"]
                        for label, target in (("on_members", m_nodes), (f"on_{kind}_members", km_nodes)):
                            leak = cfg.reach(starts, avoid=lambda x, target=target: x in target, normal_only=True) & {cfg.exit}
                            ctx.ob(rule, key(fn, f"{var}:{label}-after-visit"), not leak, f"{label} fires after the last member of `{var}` was visited", where(fn, r))
                        before = cfg.reach(cfg.entry, avoid=lambda x: x in i_nodes, normal_only=True)
                        ctx.ob(rule, key(fn, f"{var}:announced-before-members"), rn not in before,
                               f"`{var}` is announced (on_instance) before its members are visited (parent before members)", where(fn, r))
                        early_m = cfg.reach(cfg.entry, avoid=lambda x, rn=rn: x is rn, normal_only=True) & m_nodes
                        ctx.ob(rule, key(fn, f"{var}:members-event-not-before-visit"), not early_m, "on_members cannot fire before the members are visited", where(fn, mem[0].node))
    return n_checked
