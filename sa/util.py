"""Small helpers shared by the rule modules."""

from __future__ import annotations

import ast
from typing import Iterator

from sa.cfg import CFG, CNode
from sa.srcmodel import FunctionInfo, Module, Program, dotted, norm, parent, unparse, walk_no_nested

_cfg_cache: dict[int, tuple[ast.AST, CFG]] = {}


def cfg_of(fn: FunctionInfo) -> CFG:
    key = id(fn.node)
    hit = _cfg_cache.get(key)
    if hit is None or hit[0] is not fn.node:  # the node is kept alive by the cache entry, so ids cannot be recycled
        hit = (fn.node, CFG(fn.node))
        _cfg_cache[key] = hit
    return hit[1]


def ext_callee(prog: Program, mod: Module, call: ast.Call) -> str | None:
    """Resolved dotted name of a call's callee through the module's import map."""
    name = dotted(call.func)
    if not name:
        return None
    return prog.resolve(mod, name)


def calls_in(node: ast.AST, *, nested: bool = False) -> Iterator[ast.Call]:
    it = ast.walk(node) if nested else walk_no_nested(node, include_self=True)
    for n in it:
        if isinstance(n, ast.Call):
            yield n


def stmt_of(node: ast.AST) -> ast.stmt:
    cur: ast.AST | None = node
    while cur is not None and not isinstance(cur, ast.stmt):
        cur = parent(cur)
    assert cur is not None
    return cur


def cfg_nodes_containing(cfg: CFG, node: ast.AST) -> list[CNode]:
    """CFG nodes whose statement (or test expression) contains `node`."""
    out = []
    for n in cfg.live_nodes():
        root = n.expr if n.kind in ("test", "for", "return") and n.expr is not None else n.stmt
        if root is None:
            continue
        if n.kind in ("with_enter",):
            roots = [i.context_expr for i in n.stmt.items]  # type: ignore[union-attr]
        elif n.kind in ("with_exit", "with_exc", "dispatch", "handler"):
            continue
        elif n.kind == "test" and isinstance(n.stmt, (ast.If, ast.While)):
            roots = [n.expr]
        elif n.kind == "for":
            roots = [n.stmt.iter, n.stmt.target]  # type: ignore[union-attr]
        else:
            roots = [root]
        for r in roots:
            if r is node or any(x is node for x in ast.walk(r)):
                # do not match compound statements through their bodies
                if isinstance(r, (ast.FunctionDef, ast.AsyncFunctionDef, ast.ClassDef)) and r is not node:
                    continue
                out.append(n)
                break
    return out


def const_strs(node: ast.AST) -> list[str]:
    return [n.value for n in ast.walk(node) if isinstance(n, ast.Constant) and isinstance(n.value, str)]


def kwarg(call: ast.Call, name: str) -> ast.expr | None:
    for kw in call.keywords:
        if kw.arg == name:
            return kw.value
    return None


def names_in(node: ast.AST) -> set[str]:
    return {n.id for n in ast.walk(node) if isinstance(n, ast.Name)}


def stores_of(fn_node: ast.AST, name: str) -> list[ast.AST]:
    """Statements (in this function, nested defs excluded) that bind local `name`."""
    out = []
    for n in walk_no_nested(fn_node):
        if isinstance(n, ast.Name) and isinstance(n.ctx, ast.Store) and n.id == name:
            out.append(stmt_of(n))
    return out


def key(fn: FunctionInfo | str, node: ast.AST | str) -> str:
    q = fn.qualname if isinstance(fn, FunctionInfo) else fn
    return f"{q}|{norm(node)}"


def where(fn: FunctionInfo, node: ast.AST | None = None) -> str:
    n = node if node is not None else fn.node
    return f"{fn.module.relpath}:{getattr(n, 'lineno', 0)}"


def path_text(path: list[CNode] | None) -> list[str]:
    if not path:
        return []
    return [f"L{n.lineno}:{n.kind}:{unparse(n.expr or n.stmt).splitlines()[0][:70] if (n.expr or n.stmt) else ''}" for n in path]


def is_name(node: ast.AST | None, name: str) -> bool:
    return isinstance(node, ast.Name) and node.id == name


def attr_chain_root(node: ast.AST) -> str | None:
    """Root Name of an attribute/subscript/call chain."""
    while True:
        if isinstance(node, ast.Attribute):
            node = node.value
        elif isinstance(node, ast.Subscript):
            node = node.value
        elif isinstance(node, ast.Call):
            node = node.func
        elif isinstance(node, ast.Starred):
            node = node.value
        else:
            break
    return node.id if isinstance(node, ast.Name) else None


_idx_cache: dict[int, tuple[ast.AST, dict[int, list[CNode]]]] = {}


def node_index(fn: FunctionInfo) -> dict[int, list[CNode]]:
    """id(ast node) -> live CFG nodes whose own expression/statement (not nested bodies) contains it."""
    from sa.reach import node_roots

    k = id(fn.node)
    hit = _idx_cache.get(k)
    if hit is None or hit[0] is not fn.node:
        idx: dict[int, list[CNode]] = {}
        cfg = cfg_of(fn)
        for n in cfg.live_nodes():
            for root in node_roots(n):
                if isinstance(root, (ast.FunctionDef, ast.AsyncFunctionDef, ast.ClassDef)):
                    continue
                for sub in ast.walk(root):
                    idx.setdefault(id(sub), []).append(n)
        hit = (fn.node, idx)
        _idx_cache[k] = hit
    return hit[1]


def _dict_lookup(fn: FunctionInfo, src: ast.AST | None, name: str, depth: int = 0) -> tuple[ast.expr | None, bool]:
    """Value stored under constant key `name` in a mapping expression (dict display / dict(...) / a local bound once to one)."""
    if depth > 4 or src is None:
        return None, True
    if isinstance(src, ast.Name):
        defs = [s for s in stores_of(fn.node, src.id) if isinstance(s, (ast.Assign, ast.AnnAssign)) and s.value is not None]
        if len(defs) != 1:
            return None, True
        return _dict_lookup(fn, defs[0].value, name, depth + 1)
    if isinstance(src, ast.Dict):
        found, unresolved = None, False
        for k, val in zip(src.keys, src.values):
            if k is None:
                v2, u2 = _dict_lookup(fn, val, name, depth + 1)
                found = v2 or found
                unresolved = unresolved or u2
            elif isinstance(k, ast.Constant) and k.value == name:
                found = val
        return found, unresolved and found is None
    if isinstance(src, ast.Call) and dotted(src.func) == "dict":
        v = kwarg(src, name)
        if v is not None:
            return v, False
        found, unresolved = None, False
        for kw in src.keywords:
            if kw.arg is None:
                v2, u2 = _dict_lookup(fn, kw.value, name, depth + 1)
                found = v2 or found
                unresolved = unresolved or u2
        return found, unresolved and found is None
    return None, True


def kwarg_deep(fn: FunctionInfo, call: ast.Call, name: str) -> tuple[ast.expr | None, bool]:
    """Keyword argument `name` of a call, looking through `**options` built by dict displays / dict(...) in the same function.

    Returns (value or None, unresolved) where unresolved=True means a ** mapping could not be resolved (the argument may be in it).
    """
    v = kwarg(call, name)
    if v is not None:
        return v, False
    unresolved = False
    for kw in call.keywords:
        if kw.arg is None:
            v2, u2 = _dict_lookup(fn, kw.value, name)
            v = v2 or v
            unresolved = unresolved or u2
    return v, unresolved and v is None


_canon_cache: dict[int, tuple[ast.AST, dict[str, str]]] = {}


def canon_names(fn: FunctionInfo) -> dict[str, str]:
    """Names of a function in canonical form: parameters p0, p1, ... (self/cls kept), other bound names v0, v1, ... in order of their first binding.

    Obligation keys and tabled exceptions written with these survive a consistent renaming of variables."""
    hit = _canon_cache.get(id(fn.node))
    if hit is not None and hit[0] is fn.node:
        return hit[1]
    mapping: dict[str, str] = {}
    a = fn.node.args
    for i, arg in enumerate([*a.posonlyargs, *a.args, *([a.vararg] if a.vararg else []), *a.kwonlyargs, *([a.kwarg] if a.kwarg else [])]):
        mapping[arg.arg] = arg.arg if arg.arg in ("self", "cls") else f"p{i}"
    stores = sorted((n for n in ast.walk(fn.node) if isinstance(n, ast.Name) and isinstance(n.ctx, ast.Store)), key=lambda n: (n.lineno, n.col_offset))
    for n in stores:
        if n.id not in mapping:
            mapping[n.id] = f"v{sum(1 for v in mapping.values() if v.startswith('v'))}"
    _canon_cache[id(fn.node)] = (fn.node, mapping)
    return mapping


def canon_text(fn: FunctionInfo, node: ast.AST) -> str:
    """`node` unparsed with the function's names replaced by their canonical ones."""
    import copy

    mapping = canon_names(fn)
    clone = copy.deepcopy(node)
    for n in ast.walk(clone):
        if isinstance(n, ast.Name) and n.id in mapping:
            n.id = mapping[n.id]
    return unparse(clone)


def private_call_sites(prog: Program, f: FunctionInfo) -> list[tuple[FunctionInfo, ast.Call]] | None:
    """Every call site of a private helper (matched by name over the whole program: a superset of the real ones), or None when not all
    callers can be seen: a public or dunder name, a property, a nested function, a decorated function, a name that is ever used as a value
    (stored, passed, compared) or referenced while a module or class body runs."""
    if not f.name.startswith("_") or (f.name.startswith("__") and f.name.endswith("__")) or f.is_property or f.is_setter or f.outer is not None:
        return None
    if any(d.split(".")[-1] not in ("staticmethod", "classmethod", "cache", "lru_cache") for d in f.decorators):
        return None
    idx = prog.__dict__.get("_private_refs")
    if idx is None:
        idx = prog.__dict__["_private_refs"] = {}
        for mod in prog.modules.values():
            for n in ast.walk(mod.tree):
                if isinstance(n, ast.Name) and isinstance(n.ctx, ast.Load) and n.id.startswith("_"):
                    idx.setdefault(n.id, []).append(n)
                elif isinstance(n, ast.Attribute) and n.attr.startswith("_"):
                    idx.setdefault(n.attr, []).append(n)
    out: list[tuple[FunctionInfo, ast.Call]] = []
    for n in idx.get(f.name, []):
        par = parent(n)
        if not (isinstance(par, ast.Call) and par.func is n):
            via = _table_call_sites(prog, n, idx)
            if via is None:
                return None
            out += via
            continue
        g = prog.fn_containing(n)
        if g is None:
            return None
        out.append((g, par))
    return out or None


def _table_call_sites(prog: Program, ref: ast.AST, idx: dict) -> list[tuple[FunctionInfo, ast.Call]] | None:
    """A function named in a module-level table `T = ((key, fn), ...)` that is only ever walked by `for key, var in T:` loops calling `var(...)`:
    those calls are its call sites.  Anything else done with the table (indexing, passing it on) gives None."""
    row = parent(ref)
    table = parent(row) if isinstance(row, (ast.Tuple, ast.List)) else None
    if not (isinstance(row, (ast.Tuple, ast.List)) and isinstance(table, (ast.Tuple, ast.List))):
        return None
    st = parent(table)
    if not (isinstance(st, (ast.Assign, ast.AnnAssign)) and isinstance(parent(st), ast.Module)):
        return None
    tgt = st.targets[0] if isinstance(st, ast.Assign) else st.target
    if not isinstance(tgt, ast.Name):
        return None
    col = next(i for i, e in enumerate(row.elts) if e is ref)
    mod_tree = parent(st)
    uses = [u for u in ast.walk(mod_tree) if isinstance(u, ast.Name) and u.id == tgt.id and isinstance(u.ctx, ast.Load)]
    out: list[tuple[FunctionInfo, ast.Call]] = []
    for u in uses:
        loop = parent(u)
        if not (isinstance(loop, ast.For) and loop.iter is u and isinstance(loop.target, ast.Tuple) and len(loop.target.elts) == len(row.elts)
                and isinstance(loop.target.elts[col], ast.Name)):
            return None
        var = loop.target.elts[col].id
        g = prog.fn_containing(u)
        if g is None:
            return None
        for x in ast.walk(loop):
            if isinstance(x, ast.Name) and x.id == var and isinstance(x.ctx, ast.Load):
                px = parent(x)
                if not (isinstance(px, ast.Call) and px.func is x):
                    return None
                out.append((g, px))
    return out or None
