"""A-DT: finite-domain abstract evaluation of predicate-like functions.

The evaluator interprets the *AST* of in-repo functions over abstract objects whose attributes are
atoms chosen by a rule (enum members as symbols, booleans, representative names, small lists of
abstract objects).  It never imports or executes `_griffe`; a construct outside the modelled
subset raises AnalysisError (exit 2, "undecided"), never a verdict.

Rules use it to tabulate a predicate over the full product of its atom domains and compare the
table, as a function, with a reference table - so any logically equivalent rewrite of the code
passes and any changed row is the witness.
"""

from __future__ import annotations

import ast
import types
import itertools
from pathlib import PurePath
from typing import Any, Callable

from sa.srcmodel import AnalysisError, ClassInfo, FunctionInfo, Module, Program, dotted, unparse


class Sym:
    """Opaque symbol (enum member or sentinel)."""

    __slots__ = ("name", "value")

    def __init__(self, name: str, value: Any = None) -> None:
        self.name = name
        self.value = value

    def __repr__(self) -> str:
        return self.name

    def __eq__(self, other: object) -> bool:
        return isinstance(other, Sym) and other.name == self.name

    def __hash__(self) -> int:
        return hash(self.name)


class IntSym(int):
    """Member of an IntEnum class: an int that remembers its name and class (methods defined on the enum are resolved through it)."""

    name: str
    cls: Any

    def __new__(cls, value: int, name: str, enum_cls: Any) -> "IntSym":
        o = super().__new__(cls, value)
        o.name = name
        o.cls = enum_cls
        return o

    def __repr__(self) -> str:
        return self.name


class ClassRef:
    __slots__ = ("cls",)

    def __init__(self, cls: ClassInfo) -> None:
        self.cls = cls

    def __eq__(self, other: object) -> bool:  # one class, one object: references made at different places are the same class
        return isinstance(other, ClassRef) and other.cls is self.cls

    def __hash__(self) -> int:
        return hash(self.cls.qualname)

    def __repr__(self) -> str:
        return f"<class {self.cls.qualname}>"


class ExtRef:
    """Reference to something outside the repository (module / function) by dotted name."""

    __slots__ = ("name",)

    def __init__(self, name: str) -> None:
        self.name = name

    def __repr__(self) -> str:
        return f"<ext {self.name}>"


class Obj:
    """Abstract instance of an in-repo class: explicit attributes override the class's properties."""

    def __init__(self, cls: ClassInfo | None, attrs: dict[str, Any] | None = None, label: str = "") -> None:
        self.cls = cls
        self.attrs = dict(attrs or {})
        self.label = label

    def __repr__(self) -> str:
        return f"<{self.cls.name if self.cls else 'obj'} {self.label or self.attrs.get('name', '')}>"


class Raised(Exception):
    def __init__(self, exc: str, payload: Any = None) -> None:
        super().__init__(exc)
        self.exc = exc
        self.payload = payload


class _Return(Exception):
    def __init__(self, value: Any) -> None:
        self.value = value


class _Break(Exception):
    pass


class _Continue(Exception):
    pass


class Closure:
    def __init__(self, interp: "Interp", fn_node: ast.AST, env: "Env", fi: FunctionInfo | None, module: Module) -> None:
        self.interp = interp
        self.node = fn_node
        self.env = env
        self.fi = fi
        self.module = module


class Native:
    """A rule-supplied Python callable standing for a callee at the boundary of a table (records / returns abstract values)."""

    def __init__(self, fn: Callable[..., Any]) -> None:
        self.fn = fn


class DepthLimit(AnalysisError):
    """The call depth of one evaluation exceeded its bound (the evaluated code recurses without bound on this input, or the bound is too small)."""


class StepLimit(AnalysisError):
    """The step budget of one evaluation ran out (the evaluated code loops on this input, or the budget is too small)."""


class Partial:
    """functools.partial of an in-repo callable."""

    def __init__(self, f: Any, args: list[Any], kwargs: dict[str, Any]) -> None:
        self.f, self.args, self.kwargs = f, args, kwargs


class Bound:
    def __init__(self, fn: FunctionInfo, self_obj: Any) -> None:
        self.fn = fn
        self.self_obj = self_obj


class Env:
    def __init__(self, module: Module, parent: "Env | None" = None, cls: ClassInfo | None = None, *, class_body: bool = False) -> None:
        self.class_body = class_body  # evaluating a class-level assignment: sibling class attributes are in scope
        self.vars: dict[str, Any] = {}
        self.module = module
        self.parent = parent
        self.cls = cls
        self.yields: list[Any] | None = None

    def lookup(self, name: str) -> tuple[bool, Any]:
        cur: Env | None = self
        while cur is not None:
            if name in cur.vars:
                return True, cur.vars[name]
            cur = cur.parent
        return False, None

    def set(self, name: str, value: Any) -> None:
        self.vars[name] = value


NATIVE_TYPES = {"str": str, "int": int, "bool": bool, "list": list, "tuple": tuple, "dict": dict, "set": set, "frozenset": frozenset,
                "float": float, "type": type, "object": object}
SAFE_BUILTINS: dict[str, Callable[..., Any]] = {
    "len": len, "bool": bool, "str": str, "int": int, "min": min, "max": max, "sorted": sorted, "enumerate": enumerate, "zip": zip,
    "range": range, "list": list, "tuple": tuple, "set": set, "dict": dict, "frozenset": frozenset, "reversed": reversed, "abs": abs,
    "sum": sum, "repr": repr, "float": float, "chr": chr, "ord": ord,
}  # fmt: skip
NATIVE_EXC = (KeyError, IndexError, AttributeError, TypeError, ValueError, StopIteration, ZeroDivisionError)


class Interp:
    def __init__(self, prog: Program, *, max_depth: int = 12, max_steps: int = 200000) -> None:
        import sys

        # one evaluated call nests a few dozen interpreter frames: the evaluator's own depth bound must be the one that trips
        if sys.getrecursionlimit() < 400 + 120 * max_depth:
            sys.setrecursionlimit(400 + 120 * max_depth)
        self.prog = prog
        self.max_depth = max_depth
        self.max_steps = max_steps
        self.steps = 0
        self.depth = 0
        self._mod_cache: dict[tuple[str, str], Any] = {}
        self._int_enums: dict[str, dict[str, IntSym]] = {}
        self._noop = Obj(None, {}, label="logger")
        self._memo: dict[tuple, Any] = {}
        self._exc_mro: dict[str, tuple[str, ...]] = {}
        self.ignore_calls: set[str] = {"_griffe.logger.logger"}
        self.ext_handlers: dict[str, Callable[..., Any]] = {}
        self.stubs: dict[str, Callable[..., Any]] = {}  # in-repo function qualname -> replacement (callee boundary of a table)
        self.class_stubs: dict[str, Callable[..., Any]] = {}  # in-repo class qualname -> replacement constructor
        # virtual file system for path predicates (pure: nothing on disk is touched): {"files": {path: text}, "dirs": set, "order": callable}
        self.vfs: dict[str, Any] | None = None

    # ------------------------------------------------------------------ public
    def call(self, fn: FunctionInfo, *args: Any, **kwargs: Any) -> Any:
        """Interpret an in-repo function.  Generators return the list of yielded values."""
        out = self._invoke(fn, list(args), kwargs, None)
        return list(out) if type(out).__name__ == "list_iterator" else out

    def getattr(self, obj: Any, name: str) -> Any:
        return self._getattr(obj, name, None)

    def enum(self, qualname: str, member: str) -> Sym:
        cls = self.prog.cls(qualname)
        if member not in cls.class_attrs:
            raise AnalysisError(f"enum {qualname} has no member {member}")
        v = cls.class_attrs[member]
        return Sym(f"{cls.name}.{member}", v.value if isinstance(v, ast.Constant) else None)

    def enum_members(self, qualname: str) -> list[Sym]:
        cls = self.prog.cls(qualname)
        return [self.enum(qualname, m) for m, v in cls.class_attrs.items() if isinstance(v, ast.Constant) and not m.startswith("_")]

    def new(self, qualname: str, **attrs: Any) -> Obj:
        return Obj(self.prog.cls(qualname), attrs)

    # ------------------------------------------------------------------ invocation
    def _tick(self, node: ast.AST | None = None) -> None:
        self.steps += 1
        if self.steps > self.max_steps:
            raise StepLimit(f"abstract evaluation exceeded {self.max_steps} steps (non-terminating on the abstract domain?)")

    def _invoke(self, fn: FunctionInfo, args: list[Any], kwargs: dict[str, Any], closure_env: Env | None) -> Any:
        if fn.qualname in self.stubs:
            return self.stubs[fn.qualname](self, *args, **kwargs)
        if any(d.split(".")[-1] in ("cache", "lru_cache") for d in fn.decorators):
            # functools memoisation: one result object per argument tuple (abstract objects are compared by identity)
            mk = (fn.qualname, tuple(id(a) if isinstance(a, Obj) else repr(a) for a in args), tuple(sorted((k, id(v) if isinstance(v, Obj) else repr(v)) for k, v in kwargs.items())))
            if mk not in self._memo:
                self._memo[mk] = (self._invoke_body(fn, args, kwargs, closure_env), args, kwargs)  # keeping the arguments alive keeps their ids unique
            return self._memo[mk][0]
        return self._invoke_body(fn, args, kwargs, closure_env)

    def _invoke_body(self, fn: FunctionInfo, args: list[Any], kwargs: dict[str, Any], closure_env: Env | None) -> Any:
        self.depth += 1
        if self.depth > self.max_depth:
            self.depth -= 1
            raise DepthLimit(f"inlining depth {self.max_depth} exceeded at {fn.qualname}")
        try:
            env = Env(fn.module, closure_env, fn.cls)
            self._bind_args(fn.node, env, args, kwargs, fn.qualname)
            is_gen = fn.is_generator
            if is_gen:
                env.yields = []
            try:
                self._block(fn.node.body, env)
                result = None
            except _Return as r:
                result = r.value
            if is_gen:
                # evaluated eagerly (the evaluated code is pure), handed out as an iterator: consuming part of it and then the rest
                # (`for x in gen: break` ... `yield from gen`) continues where the first loop stopped, as with a real generator
                return iter(env.yields)
            return result
        finally:
            self.depth -= 1

    def _bind_args(self, node: ast.FunctionDef | ast.AsyncFunctionDef | ast.Lambda, env: Env, args: list[Any], kwargs: dict[str, Any], name: str) -> None:
        a = node.args
        pos = [*a.posonlyargs, *a.args]
        defaults = [None] * (len(pos) - len(a.defaults)) + list(a.defaults)
        args = list(args)
        kwargs = dict(kwargs)
        for p, d in zip(pos, defaults):
            if args:
                env.set(p.arg, args.pop(0))
            elif p.arg in kwargs:
                env.set(p.arg, kwargs.pop(p.arg))
            elif d is not None:
                env.set(p.arg, self.eval(d, env))
            else:
                raise AnalysisError(f"missing argument {p.arg} calling {name}")
        if a.vararg:
            env.set(a.vararg.arg, tuple(args))
            args = []
        if args:
            raise AnalysisError(f"too many positional arguments calling {name}")
        for p, d in zip(a.kwonlyargs, a.kw_defaults):
            if p.arg in kwargs:
                env.set(p.arg, kwargs.pop(p.arg))
            elif d is not None:
                env.set(p.arg, self.eval(d, env))
            else:
                raise AnalysisError(f"missing keyword argument {p.arg} calling {name}")
        if a.kwarg:
            env.set(a.kwarg.arg, kwargs)
        elif kwargs:
            raise AnalysisError(f"unexpected keyword arguments {sorted(kwargs)} calling {name}")

    # ------------------------------------------------------------------ statements
    def _block(self, stmts: list[ast.stmt], env: Env) -> None:
        for s in stmts:
            self._stmt(s, env)

    def _stmt(self, s: ast.stmt, env: Env) -> None:  # noqa: PLR0912,PLR0915
        self._tick(s)
        if isinstance(s, ast.Expr):
            self.eval(s.value, env)
        elif isinstance(s, ast.Assign):
            v = self.eval(s.value, env)
            for t in s.targets:
                self._assign(t, v, env)
        elif isinstance(s, ast.AnnAssign):
            if s.value is not None:
                self._assign(s.target, self.eval(s.value, env), env)
        elif isinstance(s, ast.AugAssign):
            cur = self.eval(_load(s.target), env)
            rhs = self.eval(s.value, env)
            if isinstance(cur, (set, list, dict)) and not isinstance(cur, tuple):
                # augmented assignment on a mutable container works in place (`s |= t`, `l += m`): every alias of the object sees it
                try:
                    if isinstance(s.op, ast.BitOr) and isinstance(cur, (set, dict)):
                        cur |= rhs
                    elif isinstance(s.op, ast.Add) and isinstance(cur, list):
                        cur += list(self._iterate(rhs)) if not isinstance(rhs, list) else rhs
                    elif isinstance(s.op, ast.BitAnd) and isinstance(cur, set):
                        cur &= rhs
                    elif isinstance(s.op, ast.Sub) and isinstance(cur, set):
                        cur -= rhs
                    else:
                        cur = self._binop(s.op, cur, rhs)
                except NATIVE_EXC as ex:
                    raise Raised(type(ex).__name__) from None
                self._assign(s.target, cur, env)
            else:
                self._assign(s.target, self._binop(s.op, cur, rhs), env)
        elif isinstance(s, ast.If):
            self._block(s.body if self.truth(self.eval(s.test, env)) else s.orelse, env)
        elif isinstance(s, ast.For):
            broke = False
            iterator = iter(self._iterate(self.eval(s.iter, env)))
            while True:
                try:
                    item = next(iterator)
                except StopIteration:
                    break
                except RuntimeError as ex:  # a live view of a native dict / set / deque changed by the loop body: what CPython raises
                    if "changed" in str(ex) or "mutated" in str(ex):
                        raise Raised("RuntimeError") from None
                    raise
                self._tick()
                self._assign(s.target, item, env)
                try:
                    self._block(s.body, env)
                except _Break:
                    broke = True
                    break
                except _Continue:
                    continue
            if not broke:
                self._block(s.orelse, env)
        elif isinstance(s, ast.While):
            broke = False
            while self.truth(self.eval(s.test, env)):
                self._tick()
                try:
                    self._block(s.body, env)
                except _Break:
                    broke = True
                    break
                except _Continue:
                    continue
            if not broke:
                self._block(s.orelse, env)
        elif isinstance(s, ast.Return):
            raise _Return(self.eval(s.value, env) if s.value is not None else None)
        elif isinstance(s, ast.Raise):
            if s.exc is None:
                found, cur = env.lookup("__current_exception__")
                if found and cur is not None:
                    raise cur
                raise AnalysisError("bare raise outside handler")
            target = s.exc.func if isinstance(s.exc, ast.Call) else s.exc
            name = dotted(target)
            if isinstance(s.exc, ast.Name):
                found, val = env.lookup(s.exc.id)
                if found and isinstance(val, Raised):
                    raise val
            if name is None:
                raise AnalysisError(f"raise of computed exception not modelled: {unparse(s)}")
            payload = None
            if isinstance(s.exc, ast.Call):
                payload = [self.eval(a, env) for a in s.exc.args]
            raise Raised(name.split(".")[-1], payload)
        elif isinstance(s, ast.Try):
            try:
                try:
                    self._block(s.body, env)
                except Raised as r:
                    for h in s.handlers:
                        if self._handler_matches(h, r.exc, env):
                            if h.name:
                                env.set(h.name, r)
                            env.set("__current_exception__", r)
                            self._block(h.body, env)
                            break
                    else:
                        raise
                else:
                    self._block(s.orelse, env)
            finally:
                self._block(s.finalbody, env)
        elif isinstance(s, ast.With):
            sup: list[str] = []
            for item in s.items:
                ce = item.context_expr
                if isinstance(ce, ast.Call) and (dotted(ce.func) or "").split(".")[-1] == "suppress":
                    from sa.cfg import _exc_names

                    sup += [n_.split(".")[-1] for n_ in _exc_names(ce, list(ce.args))]  # (module-level tuples of classes are expanded)
                else:
                    v = self.eval(ce, env)
                    if item.optional_vars is not None:
                        self._assign(item.optional_vars, v, env)
            try:
                self._block(s.body, env)
            except Raised as r:
                if not any(h in self.exc_mro(r.exc) for h in sup):
                    raise
        elif isinstance(s, ast.Continue):
            raise _Continue
        elif isinstance(s, ast.Break):
            raise _Break
        elif isinstance(s, (ast.Pass, ast.Import, ast.ImportFrom, ast.Global, ast.Nonlocal)):
            return
        elif isinstance(s, ast.Assert):
            if not self.truth(self.eval(s.test, env)):
                raise Raised("AssertionError")
        elif isinstance(s, (ast.FunctionDef, ast.AsyncFunctionDef)):
            env.set(s.name, Closure(self, s, env, self.prog.fn_of_node.get(id(s)), env.module))
        elif isinstance(s, ast.Delete):
            for t in s.targets:
                if isinstance(t, ast.Subscript):
                    c = self.eval(t.value, env)
                    k = self.eval(t.slice, env)
                    try:
                        if isinstance(c, Obj):
                            self._call_dunder(c, "__delitem__", [k])
                        else:
                            del c[k]
                    except NATIVE_EXC as e:
                        raise Raised(type(e).__name__) from None
                elif isinstance(t, ast.Name):
                    env.vars.pop(t.id, None)
                else:
                    raise AnalysisError(f"del target not modelled: {unparse(t)}")
        else:
            raise AnalysisError(f"statement not modelled by the abstract evaluator: {type(s).__name__} at line {s.lineno}")

    def _handler_matches(self, h: ast.ExceptHandler, exc: str, env: "Env | None" = None) -> bool:
        if h.type is None:
            return True
        from sa.cfg import _exc_names

        names = _exc_names(h, list(h.type.elts) if isinstance(h.type, ast.Tuple) else [h.type])  # (module-level tuples of classes are expanded)
        if env is not None and isinstance(h.type, ast.Name) and names == [h.type.id]:
            # a name that is not a class written in place: what it evaluates to decides (a tuple computed at module level, a local alias)
            try:
                v = self.eval(h.type, env)
            except (Raised, AnalysisError):
                v = None
            vals = list(v) if isinstance(v, (tuple, list)) else [v]
            if v is not None and all(isinstance(x, (ExtRef, ClassRef)) for x in vals):
                names = [x.name.split(".")[-1] if isinstance(x, ExtRef) else x.cls.name for x in vals]
        mro = self.exc_mro(exc)
        return any((n or "").split(".")[-1] in mro for n in names)

    def exc_mro(self, name: str) -> tuple[str, ...]:
        if name not in self._exc_mro:
            from sa.callgraph import CallGraph
            from sa.excflow import ExcFlow

            self._exc_mro[name] = ExcFlow(self.prog, CallGraph(self.prog)).exc_mro(name)
        return self._exc_mro[name]

    def _assign(self, target: ast.AST, value: Any, env: Env) -> None:
        if isinstance(target, ast.Name):
            env.set(target.id, value)
        elif isinstance(target, (ast.Tuple, ast.List)):
            items = list(self._iterate(value))
            star = [i for i, e in enumerate(target.elts) if isinstance(e, ast.Starred)]
            if star:
                i = star[0]
                after = len(target.elts) - i - 1
                if len(items) < len(target.elts) - 1:
                    raise Raised("ValueError")
                parts = [*items[:i], items[i: len(items) - after], *items[len(items) - after:]]
                for e, v in zip(target.elts, parts):
                    self._assign(e.value if isinstance(e, ast.Starred) else e, v, env)
            else:
                if len(items) != len(target.elts):
                    raise Raised("ValueError")
                for e, v in zip(target.elts, items):
                    self._assign(e, v, env)
        elif isinstance(target, ast.Attribute):
            obj = self.eval(target.value, env)
            if isinstance(obj, ast.AST):
                setattr(obj, target.attr, value)  # a syntax-tree node handed in by a rule: plain data (e.g. the `parent` links the visitor adds)
                return
            if not isinstance(obj, Obj):
                raise AnalysisError(f"attribute store on non-abstract object: {unparse(target)}")
            setter = None
            if obj.cls is not None:
                for m in self.prog.lookup_method(obj.cls, target.attr):
                    if any(d.endswith(".setter") for d in m.decorators):
                        setter = m
            if setter is not None and target.attr not in obj.attrs:
                self._invoke(setter, [obj, value], {}, None)
            else:
                obj.attrs[target.attr] = value
        elif isinstance(target, ast.Subscript):
            c = self.eval(target.value, env)
            k = self.eval(target.slice, env)
            try:
                if isinstance(c, Obj):
                    self._call_dunder(c, "__setitem__", [k, value])
                else:
                    c[k] = value
            except NATIVE_EXC as e:
                raise Raised(type(e).__name__) from None
        else:
            raise AnalysisError(f"assignment target not modelled: {unparse(target)}")

    # ------------------------------------------------------------------ expressions
    def truth(self, v: Any) -> bool:
        if isinstance(v, Obj):
            if "__native__" in v.attrs and not (v.cls is not None and (self.prog.lookup_method(v.cls, "__bool__") or self.prog.lookup_method(v.cls, "__len__"))):
                return bool(v.attrs["__native__"])
            if v.cls is not None:
                if self.prog.lookup_method(v.cls, "__bool__"):
                    return self.truth(self._call_dunder(v, "__bool__", []))
                if self.prog.lookup_method(v.cls, "__len__"):
                    return self._call_dunder(v, "__len__", []) != 0
            return True
        if isinstance(v, (Sym, ClassRef, ExtRef, Closure, Bound, Native, PurePath)):
            return True
        return bool(v)

    def _sort_key(self, v: Any) -> Any:
        """A NamedTuple instance used as a sort key orders like the tuple of its fields."""
        if isinstance(v, Obj):
            nt = self._namedtuple_fields(v.cls)
            if nt is not None:
                return tuple(self._sort_key(v.attrs[f]) for f in nt)
        if isinstance(v, tuple):
            return tuple(self._sort_key(x) for x in v)
        return v

    def _namedtuple_fields(self, cls: "ClassInfo | None") -> list[str] | None:
        if cls is None or not any(b.split(".")[-1] == "NamedTuple" for c in self.prog.mro(cls) for b in c.base_names):
            return None
        fields: list[str] = []
        for c in reversed(self.prog.mro(cls)):
            fields += [n for n in c.class_annots if n not in fields]
        return fields

    def _iterate(self, v: Any):
        if isinstance(v, Obj):
            if v.cls is not None and self.prog.lookup_method(v.cls, "__iter__"):
                return self._iterate(self._call_dunder(v, "__iter__", []))
            if "__native__" in v.attrs:
                return list(v.attrs["__native__"])
            nt = self._namedtuple_fields(v.cls)
            if nt is not None:
                return [v.attrs[f] for f in nt]  # a NamedTuple instance iterates (and unpacks) as its fields in order
            raise AnalysisError(f"iteration over abstract object {v!r} not modelled")
        if isinstance(v, (Sym, ClassRef, ExtRef)) or v is None:
            raise Raised("TypeError")
        return v

    def _call_dunder(self, obj: Obj, name: str, args: list[Any]) -> Any:
        ms = self.prog.lookup_method(obj.cls, name) if obj.cls else []
        if not ms and "__native__" in obj.attrs:
            try:
                r = getattr(obj.attrs["__native__"], name)(*args)
                return list(r) if name == "__iter__" else r
            except NATIVE_EXC as ex:
                raise Raised(type(ex).__name__) from None
        if not ms:
            raise Raised("TypeError")
        return self._invoke(ms[0], [obj, *args], {}, None)

    def eval(self, e: ast.AST, env: Env) -> Any:  # noqa: PLR0911,PLR0912,PLR0915
        self._tick(e)
        if isinstance(e, ast.Constant):
            return e.value
        if isinstance(e, ast.Name):
            return self._name(e.id, env)
        if isinstance(e, ast.Attribute):
            if isinstance(e.value, ast.Call) and isinstance(e.value.func, ast.Name) and e.value.func.id == "super" and not e.value.args:
                # `super().attr`: the next definition after the enclosing class in the instance's MRO
                found, selfv = env.lookup("self")
                cur: Env | None = env
                while cur is not None and cur.cls is None:
                    cur = cur.parent
                if found and isinstance(selfv, Obj) and cur is not None:
                    ms = [m for m in self.prog.lookup_method(selfv.cls or cur.cls, e.attr, after=cur.cls) if not m.is_setter]
                    if ms:
                        return self._invoke(ms[0], [selfv], {}, None) if ms[0].is_property else Bound(ms[0], selfv)
                raise AnalysisError(f"super() attribute not modelled: {unparse(e)}")
            return self._getattr(self.eval(e.value, env), e.attr, env)
        if isinstance(e, ast.BoolOp):
            if isinstance(e.op, ast.And):
                v: Any = True
                for x in e.values:
                    v = self.eval(x, env)
                    if not self.truth(v):
                        return v
                return v
            v = False
            for x in e.values:
                v = self.eval(x, env)
                if self.truth(v):
                    return v
            return v
        if isinstance(e, ast.UnaryOp):
            v = self.eval(e.operand, env)
            if isinstance(e.op, ast.Not):
                return not self.truth(v)
            if isinstance(e.op, ast.USub):
                return -v
            if isinstance(e.op, ast.UAdd):
                return +v
            raise AnalysisError(f"unary operator not modelled: {unparse(e)}")
        if isinstance(e, ast.Compare):
            left = self.eval(e.left, env)
            for op, right_e in zip(e.ops, e.comparators):
                right = self.eval(right_e, env)
                if not self._compare(op, left, right):
                    return False
                left = right
            return True
        if isinstance(e, ast.IfExp):
            return self.eval(e.body if self.truth(self.eval(e.test, env)) else e.orelse, env)
        if isinstance(e, ast.Call):
            return self._call(e, env)
        if isinstance(e, (ast.Tuple, ast.List, ast.Set)):
            items: list[Any] = []
            for x in e.elts:
                if isinstance(x, ast.Starred):
                    items.extend(self._iterate(self.eval(x.value, env)))
                else:
                    items.append(self.eval(x, env))
            if isinstance(e, ast.Tuple):
                return tuple(items)
            if isinstance(e, ast.List):
                return items
            return set(items)
        if isinstance(e, ast.Dict):
            d: dict[Any, Any] = {}
            for k, v in zip(e.keys, e.values):
                if k is None:
                    d.update(self.eval(v, env))
                else:
                    d[self.eval(k, env)] = self.eval(v, env)
            return d
        if isinstance(e, ast.Subscript):
            c = self.eval(e.value, env)
            k = self._slice(e.slice, env)
            try:
                if isinstance(c, Obj):
                    nt = self._namedtuple_fields(c.cls)
                    if nt is not None and not self.prog.lookup_method(c.cls, "__getitem__"):
                        return tuple(c.attrs[f] for f in nt)[k]
                    return self._call_dunder(c, "__getitem__", [k])
                return c[k]
            except NATIVE_EXC as ex:
                raise Raised(type(ex).__name__) from None
        if isinstance(e, ast.JoinedStr):
            out = []
            for v in e.values:
                if isinstance(v, ast.Constant):
                    out.append(str(v.value))
                elif isinstance(v, ast.FormattedValue):
                    val = self.eval(v.value, env)
                    spec = "".join(str(x.value) for x in v.format_spec.values if isinstance(x, ast.Constant)) if isinstance(v.format_spec, ast.JoinedStr) else ""
                    try:
                        out.append(format(val, spec) if spec and not isinstance(val, (Obj, Sym)) else self._str(val))
                    except (TypeError, ValueError):
                        out.append(self._str(val))
            return "".join(out)
        if isinstance(e, (ast.ListComp, ast.SetComp, ast.GeneratorExp)):
            res: list[Any] = []
            self._comp(e.generators, 0, Env(env.module, env, env.cls), lambda ce: res.append(self.eval(e.elt, ce)))
            return set(res) if isinstance(e, ast.SetComp) else res
        if isinstance(e, ast.DictComp):
            dres: dict[Any, Any] = {}

            def put(ce: Env) -> None:
                dres[self.eval(e.key, ce)] = self.eval(e.value, ce)

            self._comp(e.generators, 0, Env(env.module, env, env.cls), put)
            return dres
        if isinstance(e, ast.Lambda):
            return Closure(self, e, env, None, env.module)
        if isinstance(e, ast.NamedExpr):
            v = self.eval(e.value, env)
            self._assign(e.target, v, env)
            return v
        if isinstance(e, ast.BinOp):
            return self._binop(e.op, self.eval(e.left, env), self.eval(e.right, env))
        if isinstance(e, ast.Yield):
            ge = self._gen_env(env)
            ge.yields.append(self.eval(e.value, env) if e.value is not None else None)  # type: ignore[union-attr]
            return None
        if isinstance(e, ast.YieldFrom):
            ge = self._gen_env(env)
            ge.yields.extend(self._iterate(self.eval(e.value, env)))  # type: ignore[union-attr]
            return None
        if isinstance(e, ast.Starred):
            raise AnalysisError("starred expression outside a display/call")
        if isinstance(e, ast.Slice):
            return self._slice(e, env)
        raise AnalysisError(f"expression not modelled by the abstract evaluator: {type(e).__name__} `{unparse(e)[:60]}`")

    def _gen_env(self, env: Env) -> Env:
        cur: Env | None = env
        while cur is not None:
            if cur.yields is not None:
                return cur
            cur = cur.parent
        raise AnalysisError("yield outside generator")

    def _slice(self, s: ast.AST, env: Env) -> Any:
        if isinstance(s, ast.Slice):
            return slice(
                self.eval(s.lower, env) if s.lower is not None else None,
                self.eval(s.upper, env) if s.upper is not None else None,
                self.eval(s.step, env) if s.step is not None else None,
            )
        return self.eval(s, env)

    def _comp(self, gens: list[ast.comprehension], i: int, env: Env, emit: Callable[[Env], None]) -> None:
        if i == len(gens):
            emit(env)
            return
        g = gens[i]
        for item in self._iterate(self.eval(g.iter, env)):
            self._tick()
            self._assign(g.target, item, env)
            if all(self.truth(self.eval(c, env)) for c in g.ifs):
                self._comp(gens, i + 1, env, emit)

    def _str(self, v: Any) -> str:
        if isinstance(v, Obj):
            if v.cls is not None and self.prog.lookup_method(v.cls, "__str__"):
                return self._call_dunder(v, "__str__", [])
            return repr(v)
        return str(v)

    def _binop(self, op: ast.operator, a: Any, b: Any) -> Any:
        try:
            if isinstance(op, ast.Add):
                return a + b
            if isinstance(op, ast.Sub):
                return a - b
            if isinstance(op, ast.Mult):
                return a * b
            if isinstance(op, ast.BitOr):
                return a | b
            if isinstance(op, ast.BitAnd):
                return a & b
            if isinstance(op, ast.Mod):
                return a % b
            if isinstance(op, ast.FloorDiv):
                return a // b
            if isinstance(op, ast.Div) and isinstance(a, PurePath):
                return a / b
        except NATIVE_EXC as ex:
            raise Raised(type(ex).__name__) from None
        raise AnalysisError(f"binary operator {type(op).__name__} not modelled")

    def _dataclass_eq_fields(self, cls: Any) -> list[str] | None:
        """Fields compared by the `__eq__` that `@dataclass` generates for `cls` (None: the class is not a dataclass with eq, or writes its own `__eq__`)."""
        if "__eq__" in getattr(cls, "methods", {}):
            return None
        deco = None
        for d in cls.node.decorator_list:
            if (dotted(d.func if isinstance(d, ast.Call) else d) or "").split(".")[-1] == "dataclass":
                deco = d
        if deco is None:
            return None
        if isinstance(deco, ast.Call) and any(k.arg == "eq" and isinstance(k.value, ast.Constant) and k.value.value is False for k in deco.keywords):
            return None
        names: list[str] = []
        for c in reversed(self.prog.mro(cls)):
            for fname, ann in c.class_annots.items():
                v = c.class_attrs.get(fname)
                no_cmp = isinstance(v, ast.Call) and any(k.arg == "compare" and isinstance(k.value, ast.Constant) and k.value.value is False for k in v.keywords)
                if "ClassVar" in unparse(ann) or no_cmp:
                    if fname in names:
                        names.remove(fname)
                    continue
                if fname not in names:
                    names.append(fname)
        return names

    def _eq(self, a: Any, b: Any) -> bool:
        if isinstance(a, Obj) and a.cls is not None and getattr(a.cls, "node", None) is not None:
            dc_fields = self._dataclass_eq_fields(a.cls)
            if dc_fields is not None:
                # the generated method: same class, then field by field; anything else is NotImplemented (identity in the end)
                if isinstance(b, Obj) and b.cls is a.cls:
                    return all(self._eq(a.attrs.get(f_), b.attrs.get(f_)) for f_ in dc_fields)
                if not (isinstance(b, Obj) and b.cls is not None and self.prog.lookup_method(b.cls, "__eq__")):
                    return a is b
        if isinstance(a, Obj) and a.cls is not None and self.prog.lookup_method(a.cls, "__eq__"):
            r = self._call_dunder(a, "__eq__", [b])
            if not (isinstance(r, Sym) and r.name == "NotImplemented"):
                return self.truth(r)
        if isinstance(b, Obj) and b.cls is not None and self.prog.lookup_method(b.cls, "__eq__") and not isinstance(a, Obj):
            r = self._call_dunder(b, "__eq__", [a])
            if not (isinstance(r, Sym) and r.name == "NotImplemented"):
                return self.truth(r)
        if isinstance(a, Obj) or isinstance(b, Obj):
            return a is b
        if type(a) is type(b) and isinstance(a, (list, tuple)):  # sequences compare element by element, with the elements' own equality
            return len(a) == len(b) and all(self._eq(x, y) for x, y in zip(a, b))
        if type(a) is type(b) and isinstance(a, dict) and any(isinstance(v, Obj) for v in [*a.values(), *b.values()]):
            return a.keys() == b.keys() and all(self._eq(v, b[k]) for k, v in a.items())
        return a == b

    def _contains(self, container: Any, item: Any) -> bool:
        if isinstance(container, Obj):
            if container.cls is not None and self.prog.lookup_method(container.cls, "__contains__"):
                return self.truth(self._call_dunder(container, "__contains__", [item]))
            return any(self._eq(x, item) for x in self._iterate(container))
        if container is None or isinstance(container, (Sym, bool, int)):
            raise Raised("TypeError")
        if isinstance(container, (dict, set, frozenset, str)):
            try:
                return item in container
            except TypeError:
                raise Raised("TypeError") from None
        return any(self._eq(x, item) for x in container)

    def _compare(self, op: ast.cmpop, a: Any, b: Any) -> bool:
        if isinstance(op, (ast.Is, ast.IsNot, ast.Eq, ast.NotEq)):
            # a builtin type named in the source (`str`) and the type of a native value (`type(x)`) are the same object
            a = NATIVE_TYPES.get(a.name.split(".")[-1], a) if isinstance(a, ExtRef) and a.name.startswith("builtins.") else a
            b = NATIVE_TYPES.get(b.name.split(".")[-1], b) if isinstance(b, ExtRef) and b.name.startswith("builtins.") else b
        if isinstance(op, ast.Is):
            if isinstance(a, ClassRef) and isinstance(b, ClassRef):
                return a.cls is b.cls  # a class has one object, however many references the evaluator made to it
            if isinstance(a, ExtRef) and isinstance(b, ExtRef):
                return a.name == b.name
            return a is b or (isinstance(a, Sym) and isinstance(b, Sym) and a == b) or (
                isinstance(a, (bool, type(None))) and isinstance(b, (bool, type(None))) and a is b)
        if isinstance(op, ast.IsNot):
            return not self._compare(ast.Is(), a, b)
        if isinstance(op, ast.Eq):
            return self._eq(a, b)
        if isinstance(op, ast.NotEq):
            return not self._eq(a, b)
        if isinstance(op, ast.In):
            return self._contains(b, a)
        if isinstance(op, ast.NotIn):
            return not self._contains(b, a)
        try:
            if isinstance(op, ast.Lt):
                return a < b
            if isinstance(op, ast.LtE):
                return a <= b
            if isinstance(op, ast.Gt):
                return a > b
            if isinstance(op, ast.GtE):
                return a >= b
        except TypeError:
            raise Raised("TypeError") from None
        raise AnalysisError(f"comparison {type(op).__name__} not modelled")

    # ------------------------------------------------------------------ names / attributes
    def _name(self, name: str, env: Env) -> Any:
        found, v = env.lookup(name)
        if found:
            return v
        if env.class_body and env.cls is not None:
            hit = self.prog.lookup_class_attr(env.cls, name)
            if hit:
                return self.eval(hit[1], Env(hit[0].module, None, hit[0], class_body=True))
        return self.global_name(env.module, name)

    def global_name(self, mod: Module, name: str) -> Any:
        key = (mod.name, name)
        if key in self._mod_cache:
            return self._mod_cache[key]
        v = self._global(mod, name)
        self._mod_cache[key] = v
        return v

    def _global(self, mod: Module, name: str) -> Any:
        prog = self.prog
        if f"{mod.name}.{name}" in self.ignore_calls:
            return self._noop  # the logger object reached as a value (`getattr(logger, level)(...)`): every method is a no-op
        if name in mod.functions:
            return mod.functions[name]
        if name in mod.classes:
            return ClassRef(mod.classes[name])
        if name in mod.assigns:
            return self.eval(mod.assigns[name], Env(mod))
        if name in mod.imports:
            full = prog.canonical(mod.imports[name])
            if full in prog.functions:
                return prog.functions[full]
            if full in prog.classes:
                return ClassRef(prog.classes[full])
            if full in prog.modules:
                return prog.modules[full]
            m2, _, attr = full.rpartition(".")
            if m2 in prog.modules and attr in prog.modules[m2].assigns:
                return self.global_name(prog.modules[m2], attr)
            if m2 == "ast" and hasattr(ast, attr):
                return getattr(ast, attr)
            return ExtRef(full)
        if name in SAFE_BUILTINS or name in NATIVE_TYPES or name in ("isinstance", "any", "all", "getattr", "setattr", "hasattr", "next", "iter", "issubclass", "callable", "print", "super", "id", "type", "map", "filter", "compile", "vars"):
            return ExtRef(f"builtins.{name}")
        if name == "Ellipsis":
            return ...  # the one real object: `value is Ellipsis` compares identities
        if name == "NotImplemented":
            return Sym(name)
        if name.endswith(("Error", "Exception")) or name in ("StopIteration",):
            return ExtRef(f"builtins.{name}")
        raise AnalysisError(f"name `{name}` not bound in the abstract environment of {mod.name}")

    def _getattr(self, obj: Any, attr: str, env: Env | None) -> Any:  # noqa: PLR0911,PLR0912
        if obj is self._noop:
            return Native(lambda *a, **k: None)
        if isinstance(obj, Obj):
            if attr in obj.attrs:
                v = obj.attrs[attr]
                return v(self, obj) if callable(v) and getattr(v, "_lazy", False) else v
            if obj.cls is not None:
                ms = [m for m in self.prog.lookup_method(obj.cls, attr) if not m.is_setter]
                if ms:
                    m = ms[0]
                    if m.is_property:
                        v = self._invoke(m, [obj], {}, None)
                        if any(d.split(".")[-1] == "cached_property" for d in m.decorators):
                            obj.attrs[attr] = v  # functools.cached_property: the first value sticks to the instance
                        return v
                    if "staticmethod" in m.decorators:
                        return m
                    return Bound(m, obj)
                hit = self.prog.lookup_class_attr(obj.cls, attr)
                if hit:
                    return self.eval(hit[1], Env(hit[0].module, None, hit[0], class_body=True))
                if attr == "__class__":
                    return ClassRef(obj.cls)
            if "__native__" in obj.attrs and hasattr(obj.attrs["__native__"], attr):
                return ("native", obj.attrs["__native__"], attr)
            nt_fields = self._namedtuple_fields(obj.cls) if attr in ("_replace", "_asdict", "_fields") else None
            if nt_fields is not None:
                if attr == "_fields":
                    return tuple(nt_fields)
                if attr == "_asdict":
                    return Native(lambda o=obj, fs=nt_fields: {f: o.attrs[f] for f in fs})
                return Native(lambda o=obj, **kw: Obj(o.cls, {**{k_: v_ for k_, v_ in o.attrs.items()}, **kw}, label=o.label))
            if obj.attrs.get("__closed__"):
                raise Raised("AttributeError")  # the abstract state of this object is complete: a missing attribute is missing
            raise AnalysisError(f"attribute `{attr}` of abstract {obj!r} is not in the abstract state and not defined by its class")
        if isinstance(obj, ClassRef):
            cls = obj.cls
            if attr in cls.class_attrs and self._is_int_enum(cls) and attr in self._int_enum_members(cls):
                return self._int_enum_members(cls)[attr]
            if attr in cls.class_attrs and self._is_enum(cls):
                v = cls.class_attrs[attr]
                return Sym(f"{cls.name}.{attr}", v.value if isinstance(v, ast.Constant) else None)
            hit = self.prog.lookup_class_attr(cls, attr)
            if hit:
                return self.eval(hit[1], Env(hit[0].module, None, hit[0], class_body=True))
            ms = self.prog.lookup_method(cls, attr)
            if ms:
                return ms[0]
            if attr == "__name__":
                return cls.name
            raise AnalysisError(f"class attribute {cls.qualname}.{attr} not found")
        if isinstance(obj, FunctionInfo) and attr == "cache_clear" and any(d.split(".")[-1] in ("cache", "lru_cache") for d in obj.decorators):
            def cache_clear(q=obj.qualname):
                for mk in [k for k in self._memo if k[0] == q]:
                    del self._memo[mk]
            return Native(cache_clear)
        if isinstance(obj, Module):
            return self.global_name(obj, attr)
        if isinstance(obj, ExtRef):
            if obj.name == "ast" and hasattr(ast, attr):
                return getattr(ast, attr)  # syntax-tree classes / constants of the stdlib (pure data definitions)
            if obj.name in ("inspect.Parameter", "inspect.Signature", "inspect._ParameterKind") and attr.isupper() or (obj.name in ("inspect.Parameter", "inspect.Signature") and attr == "empty"):
                import inspect as _inspect

                return getattr(getattr(_inspect, obj.name.split(".")[1]), attr)  # constants of the inspect module (parameter kinds, the `empty` marker)
            if obj.name == "os" and attr in ("sep", "pathsep", "linesep", "curdir", "pardir", "extsep"):
                return {"sep": "/", "pathsep": ":", "linesep": "\n", "curdir": ".", "pardir": "..", "extsep": "."}[attr]  # the virtual file system is POSIX
            if obj.name == "re" and attr.isupper():
                import re as _re

                if hasattr(_re, attr):
                    return getattr(_re, attr)  # regex flags (constants)
            return ExtRef(f"{obj.name}.{attr}")
        if isinstance(obj, IntSym):
            if attr == "value":
                return int(obj)
            if attr == "name":
                return obj.name.split(".")[-1]
            ms = self.prog.lookup_method(obj.cls, attr)
            if ms:
                return self._invoke(ms[0], [obj], {}, None) if ms[0].is_property else Bound(ms[0], obj)
        if isinstance(obj, Sym):
            if attr == "value":
                return obj.value
            if attr == "name":
                return obj.name.split(".")[-1]
            raise AnalysisError(f"attribute {attr} of symbol {obj}")
        if isinstance(obj, Raised):
            if attr == "args":
                return tuple(obj.payload or ())
            if attr == "__class__":
                return type(obj.exc, (), {})  # only its __name__ is observable
            if attr == "chain" and obj.exc == "CyclicAliasError":
                pl = obj.payload or ()
                return list(pl[0]) if pl and isinstance(pl[0], (list, tuple)) else []
            if attr == "alias" and obj.exc == "AliasResolutionError":
                pl = obj.payload or ()
                if pl:
                    return pl[0]  # AliasResolutionError(alias) keeps the alias it was raised for
            raise AnalysisError(f"attribute {attr} of exception value")
        if obj is None:
            raise Raised("AttributeError")
        if isinstance(obj, PurePath):
            # pure path arithmetic only (no file-system access exists on PurePath)
            if attr in ("parent", "name", "suffix", "stem", "parts", "parents", "suffixes", "anchor"):
                v = getattr(obj, attr)
                return list(v) if attr == "parents" else v
            if attr in ("with_suffix", "with_name", "relative_to", "is_relative_to", "joinpath", "is_absolute", "as_posix", "with_stem", "match"):
                return ("native", obj, attr)
            if self.vfs is not None and attr in ("exists", "is_dir", "is_file", "iterdir", "resolve", "absolute", "read_text"):
                vfs = self.vfs
                files, dirs = vfs["files"], vfs["dirs"]
                if attr == "exists":
                    return Native(lambda: obj in files or obj in dirs)
                if attr == "is_dir":
                    return Native(lambda: obj in dirs)
                if attr == "is_file":
                    return Native(lambda: obj in files)
                if attr in ("resolve", "absolute"):
                    return Native(lambda *a, **k: obj)
                if attr == "read_text":
                    def read_text(*_a, **_k):
                        if obj not in files:
                            raise Raised("FileNotFoundError")
                        return files[obj]
                    return Native(read_text)

                def iterdir():
                    if obj not in dirs:
                        raise Raised("FileNotFoundError" if obj not in files else "NotADirectoryError")
                    entries = sorted(p for p in [*files, *dirs] if p.parent == obj and p != obj)
                    return vfs.get("order", lambda x: x)(entries)
                return Native(iterdir)
            raise AnalysisError(f"path attribute `{attr}` touches the file system or is not modelled")
        if isinstance(obj, ast.AST):
            # a real syntax-tree node built by the rule (pure data): plain field access
            try:
                return getattr(obj, attr)
            except AttributeError:
                raise Raised("AttributeError") from None
        if isinstance(obj, type) and attr in ("__name__", "__qualname__", "__module__"):
            return getattr(obj, attr)
        if (isinstance(obj, type) or type(obj).__module__ == "typing") and attr in ("__bases__", "__mro__", "__orig_bases__", "__origin__", "__args__", "__doc__",
                                                                                     "__name__", "__qualname__", "__module__", "__parameters__"):
            # introspection data of a class object handed in by a rule (synthesised there, never griffe's or the analysed project's)
            try:
                return getattr(obj, attr)
            except AttributeError:
                raise Raised("AttributeError") from None
        if type(obj).__name__ in ("function", "builtin_function_or_method") and attr in ("__name__", "__qualname__", "__module__", "__doc__"):
            return getattr(obj, attr)  # a function object synthesised by a rule (e.g. used as a default value)
        if type(obj).__module__ == "inspect" and type(obj).__name__ in ("Parameter", "Signature", "_ParameterKind"):
            if attr in ("name", "kind", "default", "annotation", "parameters", "return_annotation", "value", "description"):
                return getattr(obj, attr)  # plain data of a signature object synthesised by a rule
            raise Raised("AttributeError") if not hasattr(obj, attr) else AnalysisError(f"attribute `{attr}` of an inspect.{type(obj).__name__} not modelled")
        if type(obj).__module__ == "re" and type(obj).__name__ in ("Pattern", "Match"):
            if attr in ("pattern", "flags", "groups", "groupindex", "string", "pos", "endpos", "lastindex", "lastgroup", "re") and not callable(getattr(obj, attr)):
                return getattr(obj, attr)
            if hasattr(obj, attr):
                return ("native", obj, attr)
            raise Raised("AttributeError")
        # python-native value: expose a whitelisted method
        if isinstance(obj, (str, list, tuple, dict, set, frozenset, int, bool, types.MappingProxyType)):  # mappingproxy: a read-only dict view (Signature.parameters)
            if not hasattr(obj, attr):
                raise Raised("AttributeError")
            return ("native", obj, attr)
        if type(obj).__module__ == "builtins" and not hasattr(obj, attr):
            raise Raised("AttributeError")  # a builtin value (bytes, float, Ellipsis, ...) that simply has no such attribute
        if isinstance(obj, (bytes, float, complex)):
            return ("native", obj, attr)
        if type(obj).__module__.startswith("sa.rules."):
            # an instance of a class synthesised by a rule (never griffe's or an analysed project's code): its attributes are what Python says
            try:
                return getattr(obj, attr)
            except AttributeError:
                raise Raised("AttributeError") from None
        raise AnalysisError(f"attribute access `{attr}` on {type(obj).__name__} not modelled")

    def _is_int_enum(self, cls: ClassInfo) -> bool:
        return any(b.split(".")[-1] == "IntEnum" for c in self.prog.mro(cls) for b in c.base_names)

    def _int_enum_members(self, cls: ClassInfo) -> dict[str, IntSym]:
        cache = self._int_enums
        if cls.qualname not in cache:
            members: dict[str, IntSym] = {}
            last = 0
            for m, v in cls.class_attrs.items():
                if m.startswith("_"):
                    continue
                if isinstance(v, ast.Constant) and isinstance(v.value, int):
                    last = v.value
                elif isinstance(v, ast.Call) and (dotted(v.func) or "").split(".")[-1] == "auto" and not v.args:
                    last += 1
                else:
                    continue
                members[m] = IntSym(last, f"{cls.name}.{m}", cls)
            cache[cls.qualname] = members
        return cache[cls.qualname]

    def _is_enum(self, cls: ClassInfo) -> bool:
        return any(b.split(".")[-1] in ("Enum", "IntEnum", "StrEnum", "Flag") for c in self.prog.mro(cls) for b in c.base_names)

    # ------------------------------------------------------------------ calls
    def _call(self, e: ast.Call, env: Env) -> Any:  # noqa: PLR0911,PLR0912,PLR0915
        # ignored callees (logging)
        fname = dotted(e.func)
        if fname:
            root = fname.split(".")[0]
            found, _ = env.lookup(root)
            if not found and root in env.module.imports and self.prog.canonical(env.module.imports[root]) in self.ignore_calls:
                return None
            if root == "super" and False:
                pass
        # super().method(...)
        if isinstance(e.func, ast.Attribute) and isinstance(e.func.value, ast.Call) and isinstance(e.func.value.func, ast.Name) and e.func.value.func.id == "super":
            found, selfv = env.lookup("self")
            if found and isinstance(selfv, Obj) and env.cls is not None:
                ms = self.prog.lookup_method(selfv.cls or env.cls, e.func.attr, after=env.cls)
                args, kwargs = self._args(e, env)
                if ms:
                    return self._invoke(ms[0], [selfv, *args], kwargs, None)
                if e.func.attr == "__init__":
                    return None
            raise AnalysisError(f"super() call not modelled: {unparse(e)}")
        f = self.eval(e.func, env)
        args, kwargs = self._args(e, env)
        return self.apply(f, args, kwargs, e, env)

    def _args(self, e: ast.Call, env: Env) -> tuple[list[Any], dict[str, Any]]:
        args: list[Any] = []
        for a in e.args:
            if isinstance(a, ast.Starred):
                args.extend(self._iterate(self.eval(a.value, env)))
            else:
                args.append(self.eval(a, env))
        kwargs: dict[str, Any] = {}
        for kw in e.keywords:
            if kw.arg is None:
                more = self.eval(kw.value, env)
                if any(k in kwargs for k in more):
                    raise Raised("TypeError")  # got multiple values for a keyword argument
                kwargs.update(more)
            else:
                if kw.arg in kwargs:
                    raise Raised("TypeError")
                kwargs[kw.arg] = self.eval(kw.value, env)
        return args, kwargs

    def apply(self, f: Any, args: list[Any], kwargs: dict[str, Any], site: ast.AST | None = None, env: Env | None = None) -> Any:  # noqa: PLR0911,PLR0912
        if isinstance(f, FunctionInfo):
            return self._invoke(f, args, kwargs, None)
        if isinstance(f, Bound):
            return self._invoke(f.fn, [f.self_obj, *args], kwargs, None)
        if isinstance(f, Closure):
            cenv = Env(f.module, f.env, f.env.cls)
            self._bind_args(f.node, cenv, args, kwargs, "<closure>")  # type: ignore[arg-type]
            if isinstance(f.node, ast.Lambda):
                return self.eval(f.node.body, cenv)
            is_gen = any(isinstance(n, (ast.Yield, ast.YieldFrom)) for n in ast.walk(f.node))
            if is_gen:
                cenv.yields = []
            try:
                self._block(f.node.body, cenv)  # type: ignore[attr-defined]
                res = None
            except _Return as r:
                res = r.value
            return iter(cenv.yields) if is_gen else res
        if isinstance(f, ClassRef):
            return self._construct(f.cls, args, kwargs)
        if isinstance(f, Native):
            return f.fn(*args, **kwargs)
        if f in (ast.unparse, ast.dump, ast.get_docstring, ast.literal_eval, ast.iter_child_nodes, ast.walk, ast.iter_fields) and all(
                isinstance(a, (ast.AST, str, bool, int, type(None))) for a in [*args, *kwargs.values()]):
            # pure functions of the stdlib over syntax-tree nodes handed in by a rule
            try:
                out = f(*args, **kwargs)
            except (ValueError, SyntaxError, TypeError) as ex:
                raise Raised(type(ex).__name__) from None
            return list(out) if f in (ast.iter_child_nodes, ast.walk, ast.iter_fields) else out
        if isinstance(f, Partial):
            return self.apply(f.f, [*f.args, *args], {**f.kwargs, **kwargs}, site, env)
        if isinstance(f, tuple) and len(f) == 3 and f[0] == "native":
            _tag, obj, attr = f
            try:
                if attr in ("sort",) and "key" in kwargs:
                    k = kwargs["key"]
                    obj.sort(key=lambda x: self._sort_key(self.apply(k, [x], {})), reverse=kwargs.get("reverse", False))
                    return None
                return getattr(obj, attr)(*args, **kwargs)
            except NATIVE_EXC as ex:
                raise Raised(type(ex).__name__) from None
        if isinstance(f, ExtRef):
            return self._ext(f.name, args, kwargs, site)
        raise AnalysisError(f"call of {f!r} not modelled" + (f" at `{unparse(site)[:60]}`" if site is not None else ""))

    def _construct(self, cls: ClassInfo, args: list[Any], kwargs: dict[str, Any]) -> Any:
        if cls.qualname in self.class_stubs:
            return self.class_stubs[cls.qualname](self, *args, **kwargs)
        if self._is_int_enum(cls) and len(args) == 1:
            for sym in self._int_enum_members(cls).values():
                if isinstance(args[0], int) and int(sym) == int(args[0]):
                    return sym
            raise Raised("ValueError")
        if self._is_enum(cls) and len(args) == 1:
            for m, v in cls.class_attrs.items():
                if isinstance(v, ast.Constant) and v.value == args[0]:
                    return Sym(f"{cls.name}.{m}", v.value)
            if isinstance(args[0], Sym):
                return args[0]
            raise Raised("ValueError")
        obj = Obj(cls, {})
        ext_bases = {b.split(".")[-1].split("[")[0] for c in self.prog.mro(cls) for b in c.base_names}
        if ext_bases & {"deque", "list", "dict", "set"} and not self.prog.lookup_method(cls, "__init__"):
            # subclass of a stdlib container without its own constructor: back the abstract object with the real container
            import collections

            factory = {"deque": collections.deque, "list": list, "dict": dict, "set": set}[sorted(ext_bases & {"deque", "list", "dict", "set"})[0]]
            try:
                obj.attrs["__native__"] = factory(*[list(self._iterate(a)) if not isinstance(a, (dict,)) else a for a in args], **kwargs)
            except NATIVE_EXC as ex:
                raise Raised(type(ex).__name__) from None
            return obj
        init = self.prog.lookup_method(cls, "__init__")
        if init:
            self._invoke(init[0], [obj, *args], kwargs, None)
            obj.attrs.setdefault("__closed__", True)  # built by its own constructor: the attribute set is complete, a missing one raises AttributeError
            return obj
        # dataclass-style: bind fields from annotations in MRO order
        fields: list[str] = []
        for c in reversed(self.prog.mro(cls)):
            for name in c.class_annots:
                if name not in fields:
                    fields.append(name)
        vals = dict(zip(fields, args))
        vals.update(kwargs)
        for name in fields:
            if name not in vals:
                hit = self.prog.lookup_class_attr(cls, name)
                if hit:
                    v = self.eval(hit[1], Env(hit[0].module, None, hit[0]))
                    if isinstance(v, tuple) and len(v) == 2 and v[0] == "__field__":
                        if "default_factory" in v[1]:
                            v = self.apply(v[1]["default_factory"], [], {})
                        elif "default" in v[1]:
                            v = v[1]["default"]
                        else:
                            raise Raised("TypeError")
                    vals[name] = v
        obj.attrs.update(vals)
        post = self.prog.lookup_method(cls, "__post_init__")
        if post:
            self._invoke(post[0], [obj], {}, None)
        return obj

    def _ext(self, name: str, args: list[Any], kwargs: dict[str, Any], site: ast.AST | None) -> Any:  # noqa: PLR0911,PLR0912
        if name in self.ext_handlers:
            return self.ext_handlers[name](self, *args, **kwargs)
        short = name.split(".")[-1]
        if name.startswith("builtins."):
            if name == "builtins.dict.fromkeys":
                return dict.fromkeys(list(self._iterate(args[0])), *args[1:])
            if short == "isinstance":
                return self._isinstance(args[0], args[1])
            if short == "any":
                return any(self.truth(x) for x in self._iterate(args[0]))
            if short == "all":
                return all(self.truth(x) for x in self._iterate(args[0]))
            if short == "getattr":
                try:
                    return self._getattr(args[0], args[1], None)
                except (Raised, AnalysisError):
                    if len(args) > 2:
                        return args[2]
                    raise
            if short == "setattr" and len(args) == 3:
                if isinstance(args[0], Obj) and isinstance(args[1], str):
                    obj_, name_ = args[0], args[1]
                    setter = None
                    if obj_.cls is not None:
                        for m in self.prog.lookup_method(obj_.cls, name_):
                            if any(d.endswith(".setter") for d in m.decorators):
                                setter = m
                    if setter is not None and name_ not in obj_.attrs:
                        self._invoke(setter, [obj_, args[2]], {}, None)
                    else:
                        obj_.attrs[name_] = args[2]
                    return None
                raise AnalysisError("setattr on something that is not an abstract object not modelled")
            if short == "hasattr":
                try:
                    self._getattr(args[0], args[1], None)
                    return True
                except (Raised, AnalysisError):
                    return False
            if short == "next":
                it = args[0]
                if hasattr(it, "__next__"):
                    try:
                        return next(it)
                    except StopIteration:
                        if len(args) > 1:
                            return args[1]
                        raise Raised("StopIteration") from None
                seq = list(self._iterate(it))
                if seq:
                    return seq[0]
                if len(args) > 1:
                    return args[1]
                raise Raised("StopIteration")
            if short == "iter":
                return iter(list(self._iterate(args[0])))  # a real, stateful iterator over the evaluated elements
            if short == "len" and isinstance(args[0], Obj):
                return self._call_dunder(args[0], "__len__", [])
            if short in ("list", "tuple", "set", "frozenset", "sorted", "enumerate", "reversed") and args and isinstance(args[0], Obj) and "__native__" in args[0].attrs \
                    and not (args[0].cls is not None and self.prog.lookup_method(args[0].cls, "__iter__")):
                args = [list(args[0].attrs["__native__"]), *args[1:]]
            if short in ("list", "tuple", "set", "frozenset", "sorted", "enumerate", "reversed") and args and isinstance(args[0], Obj):
                args = [list(self._iterate(args[0])), *args[1:]]
            if short in ("min", "max") and (("key" in kwargs and kwargs["key"] is not None) or any(isinstance(a, Obj) for a in args)):
                # a key function from the analysed code (or abstract operands): applied by the evaluator, compared natively
                items = list(self._iterate(args[0])) if len(args) == 1 else list(args)
                if not items:
                    if "default" in kwargs:
                        return kwargs["default"]
                    raise Raised("ValueError")
                k = kwargs.get("key")
                keyed = [(self._sort_key(self.apply(k, [x], {})) if k is not None else self._sort_key(x), i, x) for i, x in enumerate(items)]
                try:
                    best = keyed[0]
                    for cand_ in keyed[1:]:
                        if (cand_[0] < best[0]) if short == "min" else (cand_[0] > best[0]):
                            best = cand_
                except TypeError:
                    raise Raised("TypeError") from None
                return best[2]
            if short == "sorted" and "key" in kwargs:
                k = kwargs["key"]
                return sorted(args[0], key=lambda x: self._sort_key(self.apply(k, [x], {})), reverse=kwargs.get("reverse", False))
            if short == "str" and args and isinstance(args[0], (Obj, Sym)):
                return self._str(args[0])
            if short == "bool" and args:
                return self.truth(args[0])
            if short in ("enumerate", "zip", "reversed", "range", "map", "filter"):
                if short == "map":
                    return [self.apply(args[0], list(xs), {}) for xs in zip(*[self._iterate(a) for a in args[1:]])]
                if short == "filter":
                    return [x for x in self._iterate(args[1]) if (self.truth(x) if args[0] is None else self.truth(self.apply(args[0], [x], {})))]
                return list(SAFE_BUILTINS[short](*args, **kwargs))
            if short in SAFE_BUILTINS:
                try:
                    return SAFE_BUILTINS[short](*args, **kwargs)
                except NATIVE_EXC as ex:
                    raise Raised(type(ex).__name__) from None
            if short == "print":
                return None
            if short == "object" and not args and not kwargs:
                return Obj(None, {"__closed__": True}, label="object()")  # a fresh sentinel: only its identity matters
            if short == "type" and len(args) == 1:
                if isinstance(args[0], Obj):
                    return ClassRef(args[0].cls) if args[0].cls is not None else Sym("<type>")
                if isinstance(args[0], Sym):
                    return Sym(f"<type of {args[0].name}>")
                return type(args[0])
            if short == "vars" and len(args) == 1 and isinstance(args[0], ClassRef):
                # the class's own namespace: what its body defines (not what it inherits)
                c_ = args[0].cls
                return {**{k_: v_ for k_, v_ in c_.class_attrs.items()}, **{k_: defs_[0] for k_, defs_ in c_.methods.items()}}
            if short == "vars" and len(args) == 1 and isinstance(args[0], Obj):
                return {k_: v_ for k_, v_ in args[0].attrs.items() if not k_.startswith("__")}
            if short.endswith(("Error", "Exception")):
                return Raised(short, args)
        if name in ("itertools.zip_longest", "zip_longest"):
            return list(itertools.zip_longest(*args, **kwargs))
        if name.startswith("itertools.") and short in ("chain", "islice", "product", "repeat", "starmap", "takewhile", "dropwhile", "pairwise", "accumulate"):
            if short == "repeat" and len(args) + len(kwargs) < 2:
                raise AnalysisError("itertools.repeat without a count is not modelled")
            args = [list(a.attrs["__native__"]) if isinstance(a, Obj) and "__native__" in a.attrs else a for a in args]
            if any(isinstance(a, (Obj, Closure, Bound, FunctionInfo)) for a in args):
                raise AnalysisError(f"itertools.{short} over abstract objects / callables not modelled")
            try:
                return list(getattr(itertools, short)(*args, **kwargs))
            except NATIVE_EXC as ex:
                raise Raised(type(ex).__name__) from None
        if name in ("typing.cast", "cast"):
            return args[1]
        if name in ("functools.reduce", "reduce") and len(args) in (2, 3):
            items = list(self._iterate(args[1]))
            if len(args) == 3:
                acc = args[2]
            elif items:
                acc, items = items[0], items[1:]
            else:
                raise Raised("TypeError")
            for x in items:
                acc = self.apply(args[0], [acc, x], {})
            return acc
        if name == "itertools.chain.from_iterable" and len(args) == 1:
            return [y for x in self._iterate(args[0]) for y in self._iterate(x)]
        if name in ("operator.itemgetter", "operator.attrgetter") and args and all(isinstance(a, (str, int)) for a in args):
            getter = (lambda o, a: self._getattr(o, a, None)) if name.endswith("attrgetter") else (lambda o, a: (self._call_dunder(o, "__getitem__", [a]) if isinstance(o, Obj) else o[a]))
            keys_ = list(args)
            return Native(lambda o: getter(o, keys_[0]) if len(keys_) == 1 else tuple(getter(o, a) for a in keys_))
        if name.startswith("re.") and short in ("compile", "match", "search", "fullmatch", "sub", "subn", "split", "findall", "finditer", "escape"):
            import re as _re

            # regular expressions over concrete strings are pure functions of their arguments
            if any(isinstance(a, (Obj, Closure, Bound, FunctionInfo, Sym)) for a in [*args, *kwargs.values()]):
                raise AnalysisError(f"re.{short} over abstract values not modelled")
            try:
                out = getattr(_re, short)(*args, **kwargs)
            except (_re.error, *NATIVE_EXC) as ex:
                raise Raised(type(ex).__name__) from None
            return list(out) if short == "finditer" else out
        if name in ("textwrap.dedent", "inspect.cleandoc", "textwrap.indent") and all(isinstance(a, str) for a in args):
            import inspect as _inspect
            import textwrap as _textwrap

            return {"textwrap.dedent": _textwrap.dedent, "inspect.cleandoc": _inspect.cleandoc, "textwrap.indent": _textwrap.indent}[name](*args, **kwargs)
        if name in ("dataclasses.field", "field"):
            return ("__field__", kwargs)
        if name in ("dataclasses.fields", "fields") and len(args) == 1 and (isinstance(args[0], ClassRef) or (isinstance(args[0], Obj) and args[0].cls is not None)):
            dcls = args[0].cls
            names: list[str] = []
            for c in reversed(self.prog.mro(dcls)):
                for fname, ann in c.class_annots.items():
                    if fname not in names and "ClassVar" not in unparse(ann):
                        names.append(fname)
            return [Obj(None, {"name": n_, "__closed__": True}, label=f"field {n_}") for n_ in names]
        if name in ("pathlib.Path", "pathlib.PurePath", "pathlib.PurePosixPath") and all(isinstance(a, (str, PurePath)) for a in args) and not kwargs:
            from pathlib import PurePosixPath

            return PurePosixPath(*args)  # path *arithmetic* only: anything touching the file system goes through the virtual file system or is refused
        if name in ("pathlib.Path", "pathlib.PurePath", "pathlib.PurePosixPath") and not kwargs and any(a is None or isinstance(a, (int, float, list, tuple, dict, set)) for a in args):
            raise Raised("TypeError")  # what CPython does for an argument that is not a string or a path
        if name == "pathlib.Path.cwd" and not args:
            from pathlib import PurePosixPath

            return PurePosixPath("/cwd")  # the virtual working directory: a constant, nothing on disk is consulted
        if name in ("collections.defaultdict", "defaultdict"):
            import collections

            fac = args[0] if args else None
            if isinstance(fac, ExtRef) and fac.name.split(".")[-1] in NATIVE_TYPES:
                return collections.defaultdict(NATIVE_TYPES[fac.name.split(".")[-1]])
            if fac is None:
                return collections.defaultdict()
            raise AnalysisError("defaultdict with a non-builtin factory not modelled")
        if name in ("collections.Counter", "Counter"):
            import collections

            return collections.Counter(list(self._iterate(args[0])) if args and not isinstance(args[0], dict) else (args[0] if args else ()))  # a multiset of hashable values (pure data)
        if name in ("functools.partial", "partial") and args:
            return Partial(args[0], list(args[1:]), dict(kwargs))
        if name in ("builtins.compile", "compile") and args and isinstance(args[0], str):
            import ast as _ast

            flags_ = kwargs.get("flags", args[3] if len(args) > 3 else 0)
            flags_ = _ast.PyCF_ONLY_AST if isinstance(flags_, (ExtRef, Sym)) else flags_
            if not isinstance(flags_, int) or not flags_ & _ast.PyCF_ONLY_AST:
                raise AnalysisError("compile() to a code object not modelled (only parsing to a syntax tree is: nothing is executed)")
            try:
                return compile(args[0], kwargs.get("filename", args[1] if len(args) > 1 else ""), kwargs.get("mode", args[2] if len(args) > 2 else "exec"),
                               flags=flags_, optimize=kwargs.get("optimize", -1) if isinstance(kwargs.get("optimize", -1), int) else -1)
            except (SyntaxError, ValueError, TypeError, UnicodeError, MemoryError, RecursionError) as ex:
                raise Raised(type(ex).__name__) from None
        if short == "suppress":
            return None
        raise AnalysisError(f"external call `{name}` not modelled by the abstract evaluator" + (f" (`{unparse(site)[:60]}`)" if site is not None else ""))

    def _isinstance(self, v: Any, spec: Any) -> bool:
        specs = list(spec) if isinstance(spec, tuple) else [spec]
        for s in specs:
            if isinstance(v, Raised) and isinstance(s, (ClassRef, ExtRef)):
                # a caught exception tested against an exception class: by the class hierarchy of exceptions
                if (s.cls.name if isinstance(s, ClassRef) else s.name.split(".")[-1]) in self.exc_mro(v.exc):
                    return True
                continue
            if isinstance(s, ClassRef):
                if isinstance(v, Obj) and v.cls is not None and s.cls in self.prog.mro(v.cls):
                    return True
                if isinstance(v, Sym) and v.name.split(".")[0] == s.cls.name:
                    return True
            elif isinstance(s, type):
                if not isinstance(v, (Obj, Sym)) and isinstance(v, s):
                    return True
            elif isinstance(s, ExtRef):
                if isinstance(v, Obj) and "__isa__" in v.attrs:
                    if s.name in v.attrs["__isa__"] or s.name.split(".")[-1] in {x.split(".")[-1] for x in v.attrs["__isa__"]}:
                        return True
                    continue
                t = NATIVE_TYPES.get(s.name.split(".")[-1])
                if t is not None and not isinstance(v, (Obj, Sym)) and isinstance(v, t):
                    return True
                if s.name.split(".")[-1] in ("Path", "PurePath", "PosixPath") and (isinstance(v, PurePath) or (isinstance(v, Obj) and v.label == "Path")):
                    return True
            else:
                raise AnalysisError(f"isinstance against {s!r} not modelled")
        return False


def _load(target: ast.AST) -> ast.AST:
    """Copy of an assignment target usable as a load expression."""
    new = ast.parse(unparse(target), mode="eval").body
    return new


def lazy(f: Callable[[Interp, Obj], Any]) -> Callable[[Interp, Obj], Any]:
    f._lazy = True  # type: ignore[attr-defined]
    return f
