"""Static-analysis engine for the griffe properties C01-C20 (see /verif/DESIGN.md).

Nothing in this package imports or executes `_griffe`; everything is computed from the source
text under $VERIF_REPO (default /repo).
"""
