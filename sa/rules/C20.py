"""C20 - Loading from Git leaves repository and filesystem untouched on every path.

Decided part (DESIGN.md section 3, C20): acquire/release pairing of the temporary worktree on every
exit, unrefusable cleanup, subprocess whitelist, callers use the context manager, and results do
not depend on the checkout once it is gone.
"""

from __future__ import annotations

import ast

from sa.callgraph import CallGraph, fmt_path
from sa.cfg import implied
from sa.report import Ctx
from sa.srcmodel import AnalysisError, FunctionInfo, Program, ancestors, dotted, norm, parent, unparse, walk_no_nested
from sa.util import calls_in, cfg_nodes_containing, cfg_of, ext_callee, key, kwarg, path_text, stmt_of, stores_of, where

SUBPROCESS_FUNCS = {
    "subprocess.run", "subprocess.check_output", "subprocess.check_call", "subprocess.call", "subprocess.Popen",
    "subprocess.getoutput", "subprocess.getstatusoutput", "os.system", "os.popen", "os.execv", "os.execvp",
    "os.execl", "os.execlp", "os.spawnv", "os.spawnl", "os.spawnvp", "os.spawnlp", "os.posix_spawn", "pty.spawn",
}  # fmt: skip

# git sub-commands griffe may run, with the reason each is harmless to the user's repository
ALLOWED = {
    ("rev-parse",): "read-only query",
    ("tag",): "listing only (requires -l/--list)",
    ("worktree", "add"): "creates the temporary worktree + temporary branch (paired with the releases)",
    ("worktree", "remove"): "release",
    ("worktree", "prune"): "release",
    ("branch",): "deletes the temporary branch only (requires -D/-d and the acquire's branch variable)",
}


def _argv(fn: FunctionInfo, call: ast.Call) -> list[ast.expr]:
    if not call.args:
        arg = kwarg(call, "args")
        if arg is None:
            raise AnalysisError(f"{where(fn, call)}: subprocess call without argv")
    else:
        arg = call.args[0]
    if isinstance(arg, ast.Name):
        defs = [s for s in stores_of(fn.node, arg.id) if isinstance(s, ast.Assign)]
        if len(defs) == 1:
            arg = defs[0].value
    if isinstance(arg, (ast.List, ast.Tuple)):
        return list(arg.elts)
    raise AnalysisError(f"{where(fn, call)}: argv is not a list display ({norm(arg)}); cannot be whitelisted")


def _argvs(fn: FunctionInfo, call: ast.Call) -> list[tuple[list[ast.expr], ast.For | None]]:
    """The argv displays a spawn site can run: one, or - for `[..., *command]` inside `for command in <local non-empty display of displays>` -
    one per entry of that table (with the loop, for the must-run judgement)."""
    argv = _argv(fn, call)
    stars = [e for e in argv if isinstance(e, ast.Starred)]
    if not stars:
        return [(argv, None)]
    if len(stars) != 1 or not isinstance(stars[0].value, ast.Name):
        raise AnalysisError(f"{where(fn, call)}: argv with an unpacked operand that is not a loop variable; cannot be whitelisted")
    var = stars[0].value.id
    if fn.node.args.vararg is not None and fn.node.args.vararg.arg == var and not stores_of(fn.node, var):
        return [(argv, None)]  # `[..., *args]` with the function's own *args: expanded at the call sites of the function (lifting)
    loop = next((a for a in ancestors(call) if isinstance(a, ast.For) and isinstance(a.target, ast.Name) and a.target.id == var), None)
    table = loop.iter if loop is not None else None
    if isinstance(table, ast.Name):
        defs = [s_ for s_ in stores_of(fn.node, table.id) if isinstance(s_, ast.Assign)]
        table = defs[0].value if len(defs) == 1 else None
    if not (isinstance(table, (ast.Tuple, ast.List)) and table.elts and all(isinstance(e, (ast.List, ast.Tuple)) for e in table.elts)):
        raise AnalysisError(f"{where(fn, call)}: argv unpacks `{var}`, which is not a loop variable over a literal table of commands; cannot be whitelisted")
    out = []
    for entry in table.elts:
        full: list[ast.expr] = []
        for e in argv:
            full += list(entry.elts) if e is stars[0] else [e]
        out.append((full, loop))
    return out


class _Subst(ast.NodeTransformer):
    def __init__(self, bound: dict[str, ast.expr]) -> None:
        self.bound = bound

    def visit_Name(self, node: ast.Name) -> ast.AST:  # noqa: N802
        v = self.bound.get(node.id, node)
        return node if isinstance(v, list) else v


def _subst_argv(argv: list[ast.expr], bound: dict) -> list[ast.expr]:
    import copy

    out: list[ast.expr] = []
    for e in argv:
        if isinstance(e, ast.Starred) and isinstance(e.value, ast.Name) and isinstance(bound.get(e.value.id), list):
            out += [copy.deepcopy(x) for x in bound[e.value.id]]  # the helper's *args: the extra positional arguments of the call
        else:
            out.append(_Subst(bound).visit(copy.deepcopy(e)))
    return out


def _must_run(h: FunctionInfo, call: ast.Call, loop: ast.For | None) -> bool:
    """Every normal path through helper h runs the spawn site (for a table-driven site: the loop, whose table is a non-empty display, and the site
    unconditionally inside its body)."""
    cfg = cfg_of(h)
    if loop is not None:
        st = stmt_of(call)
        if not any(st is b for b in loop.body) or loop.orelse:
            return False
        before = loop.body[: next(i for i, b in enumerate(loop.body) if b is st)]
        if any(isinstance(x, (ast.Break, ast.Continue, ast.Return, ast.Raise)) for b in before for x in ast.walk(b)):
            return False
        anchor = [n for n in cfg.live_nodes() if n.stmt is loop]
    else:
        anchor = cfg_nodes_containing(cfg, call)
    if not anchor:
        return False
    return not (cfg.reach([cfg.entry], avoid=lambda n: n in anchor, normal_only=True) & {cfg.exit})


def _git_command(argv: list[ast.expr]) -> tuple[tuple[str, ...], list[ast.expr], ast.expr | None]:
    """(sub-command words, remaining operand elements, the -C repository element)."""
    elts = list(argv)
    if not (elts and isinstance(elts[0], ast.Constant) and elts[0].value == "git"):
        return ((f"<not git: {norm(elts[0]) if elts else ''}>",), elts, None)
    elts = elts[1:]
    repo = None
    while elts and isinstance(elts[0], ast.Constant) and isinstance(elts[0].value, str) and elts[0].value.startswith("-"):
        if elts[0].value in ("-C", "-c", "--git-dir", "--work-tree") and len(elts) > 1:
            if elts[0].value == "-C":
                repo = elts[1]
            elts = elts[2:]
        else:
            elts = elts[1:]
    words: list[str] = []
    if elts and isinstance(elts[0], ast.Constant):
        words.append(str(elts[0].value))
        elts = elts[1:]
        if words[0] == "worktree" and elts and isinstance(elts[0], ast.Constant):
            words.append(str(elts[0].value))
            elts = elts[1:]
    return tuple(words), elts, repo


def _in_finalbody(stmt: ast.AST | None) -> bool:
    cur = stmt
    while cur is not None:
        par = parent(cur)
        if isinstance(par, ast.Try) and any(cur is s for s in par.finalbody):
            return True
        cur = par
    return False


def run(prog: Program, ctx: Ctx) -> None:  # noqa: PLR0912,PLR0915
    cg = CallGraph(prog)
    # ------------------------------------------------------------------ inventory of process-spawning sites
    sites: list[tuple[FunctionInfo, ast.Call, str]] = []
    for fn in prog.functions.values():
        if fn.module.name == "_griffe.tests":
            continue
        for call in calls_in(fn.node):
            name = ext_callee(prog, fn.module, call)
            if name in SUBPROCESS_FUNCS:
                sites.append((fn, call, name))
    for mod in prog.modules.values():  # module-level statements
        for stmt in mod.tree.body:
            if isinstance(stmt, (ast.FunctionDef, ast.AsyncFunctionDef, ast.ClassDef)):
                continue
            for call in calls_in(stmt):
                if ext_callee(prog, mod, call) in SUBPROCESS_FUNCS:
                    ctx.ob("R3", f"{mod.name}|{norm(call)}", False, "process spawned at import time", f"{mod.relpath}:{call.lineno}")

    ctx.rule("R3", "every process-spawning call lives in the git module and runs a whitelisted git sub-command")
    acquire: list[tuple[FunctionInfo, ast.Call, list[ast.expr], ast.expr | None]] = []
    releases: dict[str, list[tuple[FunctionInfo, ast.Call, list[ast.expr], ast.expr | None]]] = {}
    parsed = []
    # what stands for a spawn site further down: (function, node in that function, ...).  A site in a private helper of the git module (every call
    # site visible) is lifted to the helper's call sites: the node is the call of the helper, the operands are rewritten in the caller's terms.
    ORIG: dict[int, tuple[FunctionInfo, ast.Call, bool]] = {}  # id(lifted node) -> (helper, spawn call, runs on every normal path of the helper)
    KW_CHAIN: dict[int, list[tuple[FunctionInfo, dict]]] = {}  # id(call of a helper) -> [(helper, what its parameters are bound to at that call)]

    def site_kw(node: ast.Call, name: str) -> ast.expr | None:
        """The value the spawn call behind a (possibly lifted) site receives for keyword `name`, in the caller's terms: a constant in the helper, or
        the helper's parameter (the caller's keyword, else the parameter's default), or - when the helper forwards **kwargs - the caller's keyword."""
        h, spawn_call, _m = ORIG.get(id(node), (None, node, True))
        v = kwarg(spawn_call, name)
        if h is None:
            return v
        for hf, bound in KW_CHAIN.get(id(node), []):
            if hf is not h:
                continue
            a = hf.node.args
            if v is None and a.kwarg is not None and any(k.arg is None and isinstance(k.value, ast.Name) and k.value.id == a.kwarg.arg for k in spawn_call.keywords):
                return bound.get(name)
            if isinstance(v, ast.Name) and v.id in [x.arg for x in (*a.posonlyargs, *a.args, *a.kwonlyargs)]:
                if v.id in bound:
                    return bound[v.id]
                defaults = dict(zip([x.arg for x in a.kwonlyargs], a.kw_defaults))
                pos = [x.arg for x in (*a.posonlyargs, *a.args)]
                defaults.update(dict(zip(pos[len(pos) - len(a.defaults):], a.defaults)))
                return defaults.get(v.id)
        return v
    from sa.util import private_call_sites

    def bind(h: FunctionInfo, c: ast.Call) -> dict[str, ast.expr] | None:
        if any(isinstance(a, ast.Starred) for a in c.args) or any(k.arg is None for k in c.keywords):
            return None
        a = h.node.args
        pos = [x.arg for x in (*a.posonlyargs, *a.args)]
        bound: dict = dict(zip(pos, c.args))
        if a.vararg is not None:
            bound[a.vararg.arg] = list(c.args[len(pos):])
        elif len(c.args) > len(pos):
            return None
        bound.update({k.arg: k.value for k in c.keywords})
        return bound

    def lifted(fn: FunctionInfo, node: ast.Call, argv: list[ast.expr], must: bool, spawn: tuple[FunctionInfo, ast.Call], depth: int = 0):
        callers = private_call_sites(prog, fn) if (fn.module.name == "_griffe.git" and fn.cls is None and not fn.is_generator and depth < 3) else None
        if not callers:
            yield fn, node, argv, must, spawn
            return
        import copy

        for g, c in callers:
            bound = bind(fn, c)
            if bound is None:
                yield fn, node, argv, must, spawn
                return
            argv2 = _subst_argv(argv, bound)
            KW_CHAIN.setdefault(id(c), []).append((fn, bound))
            yield from lifted(g, c, argv2, must, spawn, depth + 1)

    for fn0, call0, name in sites:
        k = key(fn0, call0)
        if fn0.module.name != "_griffe.git":
            ctx.ob("R3", k, False, f"{name} outside the git module", where(fn0, call0))
            continue
        if not name.startswith("subprocess."):
            ctx.ob("R3", k, False, f"{name}: shell-style spawn cannot be whitelisted", where(fn0, call0))
            continue
        shell = kwarg(call0, "shell")
        if shell is not None and not (isinstance(shell, ast.Constant) and shell.value is False):
            ctx.ob("R3", k, False, "shell=True command cannot be whitelisted", where(fn0, call0))
            continue
        for argv0, loop0 in _argvs(fn0, call0):
            for fn, call, argv, must, spawn in lifted(fn0, call0, argv0, True, (fn0, call0)):
                if call is not call0:
                    must = _must_run(fn0, call0, loop0)
                    ORIG[id(call)] = (fn0, call0, must)
                words, operands, repo = _git_command(argv)
                parsed.append((fn, call, words, operands, repo))
                allowed = words in ALLOWED or words[:1] in ALLOWED and len(words) == 1
                ok = allowed
                why = ALLOWED.get(words, "not in whitelist")
                is_release = call is call0 or must  # a helper that may skip the command is no release
                if words == ("tag",):
                    ok = any(isinstance(e, ast.Constant) and e.value in ("-l", "--list") for e in operands)
                    why = "git tag without -l would create a tag" if not ok else why
                if words == ("branch",):
                    consts = [e.value for e in operands if isinstance(e, ast.Constant)]
                    ok = "-D" in consts or ("--force" in consts and ("--delete" in consts or "-d" in consts)) or ("-f" in consts and "-d" in consts)
                    why = ("git branch must be a forced delete (-D): without a delete flag it creates a branch, and a plain -d is refused for a ref "
                           "that is not merged into HEAD (silently, with check=False), leaving the temporary branch behind") if not ok else why
                    if ok and is_release:
                        releases.setdefault("branch -D", []).append((fn, call, operands, repo))
                if words == ("worktree", "add"):
                    acquire.append((fn, call, operands, repo))
                if words == ("worktree", "remove") and is_release:
                    releases.setdefault("worktree remove", []).append((fn, call, operands, repo))
                if words == ("worktree", "prune") and is_release:
                    releases.setdefault("worktree prune", []).append((fn, call, operands, repo))
                ctx.ob("R3", key(fn0, f"{norm(call0, 60)}|{' '.join(words)}"), ok, f"git {' '.join(words)}: {why}", where(fn0, call0))

    ctx.expect_min("R3", len(parsed), 7)  # commands run (a site in a helper counts once per call of the helper)
    if not acquire:
        raise AnalysisError("C20: no `git worktree add` site found (anchor vanished)")

    # ------------------------------------------------------------------ R1 pairing
    ctx.rule(
        "R1",
        "after a successful `worktree add`, every path from the yield to any exit (normal, exception, GeneratorExit) "
        "runs worktree remove, worktree prune and branch -D with the acquire's own path/branch variables, "
        "inside a TemporaryDirectory; the failing add raises before the protected region",
    )
    ctx.rule("R2", "cleanup cannot be refused: `worktree remove` is forced (cleanup runs with check=False, so a refusal is silent)")
    for fn, call, operands, repo in acquire:
        cfg = cfg_of(fn)
        acq_nodes = cfg_nodes_containing(cfg, call)
        if not acq_nodes:
            raise AnalysisError(f"{where(fn, call)}: acquire site unreachable in CFG")
        # operands of `worktree add [-b B] PATH [REF]`
        branch_expr = path_expr = None
        ops = list(operands)
        i = 0
        positional: list[ast.expr] = []
        while i < len(ops):
            e = ops[i]
            if isinstance(e, ast.Constant) and e.value in ("-b", "-B") and i + 1 < len(ops):
                branch_expr = ops[i + 1]
                i += 2
                continue
            if isinstance(e, ast.Constant) and isinstance(e.value, str) and e.value.startswith("-"):
                i += 1
                continue
            positional.append(e)
            i += 1
        path_expr = positional[0] if positional else None
        if path_expr is None:
            raise AnalysisError(f"{where(fn, call)}: cannot identify the worktree path operand")
        yields = [n for n in walk_no_nested(fn.node) if isinstance(n, (ast.Yield, ast.YieldFrom))]
        ctx.ob("R1", key(fn, "generator-shape"), fn.is_contextmanager and len(yields) >= 1,
               "acquire function is a @contextmanager generator", where(fn))
        if not yields:
            continue
        ynodes = []
        for y in yields:
            ynodes += cfg_nodes_containing(cfg, y)
        ynodes = [y for y in ynodes if y in cfg.reach(acq_nodes, normal_only=True)]
        ctx.ob("R1", key(fn, "yield-after-acquire"), bool(ynodes), "a yield is reachable after the acquire", where(fn, call))

        def skip_cleanup_exc(a, _b, label):  # cleanup statements are treated as non-raising (they run check=False)
            return label == "exc" and _in_finalbody(a.stmt)

        for y in ynodes:
            # (c) failing add must not reach the yield
            h_fn, spawn_call, _m = ORIG.get(id(call), (fn, call, True))
            res_names = [t.id for s in [stmt_of(spawn_call)] if isinstance(s, ast.Assign) for t in s.targets if isinstance(t, ast.Name)]
            check_kw = site_kw(call, "check")
            checked = isinstance(check_kw, ast.Constant) and check_kw.value is True
            returns_result = h_fn is not fn and any(isinstance(r_, ast.Return) and r_.value is spawn_call for r_ in walk_no_nested(h_fn.node))
            if returns_result:
                # the helper hands the completed process back: the caller's own test of its return code decides
                res_names = [t.id for s in [stmt_of(call)] if isinstance(s, ast.Assign) for t in s.targets if isinstance(t, ast.Name)]

            def rc_ok(atom: ast.expr, truth: bool) -> bool:
                if isinstance(atom, ast.Attribute) and atom.attr == "returncode" and isinstance(atom.value, ast.Name) and atom.value.id in res_names:
                    return truth is False
                if isinstance(atom, ast.Compare) and len(atom.ops) == 1 and isinstance(atom.left, ast.Attribute) and atom.left.attr == "returncode" \
                        and isinstance(atom.left.value, ast.Name) and atom.left.value.id in res_names \
                        and isinstance(atom.comparators[0], ast.Constant) and atom.comparators[0].value == 0:
                    return isinstance(atom.ops[0], ast.Eq) and truth is True
                return False

            if h_fn is fn or returns_result:
                guarded = checked or cfg.dominated_by_fact(y, rc_ok)
            else:
                # the add happens in a helper: the helper returns normally only when it succeeded (every return / fall-through after the call is
                # dominated by the return-code test), so the yield, which follows the helper call, is reached only then
                hcfg = cfg_of(h_fn)
                after = hcfg.reach(cfg_nodes_containing(hcfg, spawn_call), normal_only=True)
                exits = [(n_, lab) for n_ in after for b, lab in hcfg.succ[n_] if b is hcfg.exit and lab != "exc"]

                def edge_ok(n_, lab) -> bool:
                    if n_.kind == "test" and n_.expr is not None and lab in ("T", "F") and any(rc_ok(a_, t_) for a_, t_ in implied(n_.expr, lab == "T")):
                        return True
                    return hcfg.dominated_by_fact(n_, rc_ok)

                guarded = checked or (bool(exits) and all(edge_ok(n_, lab) for n_, lab in exits))
            ctx.ob("R1", key(fn, "add-failure-raises"), guarded,
                   "yield is reached only when `worktree add` succeeded (returncode tested or check=True)", where(fn, call))
            # (a) pairing per release kind
            for kind in ("worktree remove", "worktree prune", "branch -D"):
                rel_calls = [c for f2, c, _o, _r in releases.get(kind, []) if f2 is fn]
                rel_nodes = {n for c in rel_calls for n in cfg_nodes_containing(cfg, c)}

                def via(n, rel_nodes=rel_nodes):
                    return n in rel_nodes

                # must_pass with cleanup exc-edges ignored: emulate by reach with avoid
                bad = cfg.reach(y, avoid=via, avoid_edge=skip_cleanup_exc) & {cfg.exit, cfg.raise_exit}
                wit = None
                if bad:
                    wit = cfg.witness_path(y, bad, avoid=via, avoid_edge=skip_cleanup_exc)
                ctx.ob("R1", key(fn, f"release:{kind}"), not bad,
                       f"every exit after the yield runs `git {kind}`" if not bad else f"a path from the yield reaches {'/'.join(b.kind for b in bad)} without `git {kind}`",
                       where(fn, y.stmt), {"path": path_text(wit)})
        # (d) no release without a successful acquire: from the acquire's failure exits (the raise on a non-zero return code, or the call itself
        #     raising when check=True) no release statement is reachable - a `branch -D` there deletes a branch the user already had under that name
        h_fn_d, spawn_d, _m = ORIG.get(id(call), (fn, call, True))
        res_names_d = [t.id for s_ in [stmt_of(spawn_d)] if isinstance(s_, ast.Assign) for t in s_.targets if isinstance(t, ast.Name)]
        returns_result_d = h_fn_d is not fn and any(isinstance(r_, ast.Return) and r_.value is spawn_d for r_ in walk_no_nested(h_fn_d.node))
        if returns_result_d:
            res_names_d = [t.id for s_ in [stmt_of(call)] if isinstance(s_, ast.Assign) for t in s_.targets if isinstance(t, ast.Name)]
        fail_nodes = []
        for x in cfg.live_nodes():
            if x.kind == "stmt" and isinstance(x.stmt, ast.Raise) and x in cfg.reach(acq_nodes, avoid=lambda n_: n_ in ynodes, normal_only=True):
                tests = [a for a in ancestors(x.stmt) if isinstance(a, ast.If) and any(
                    isinstance(n_, ast.Attribute) and n_.attr == "returncode" and isinstance(n_.value, ast.Name) and n_.value.id in res_names_d for n_ in ast.walk(a.test))]
                if tests:
                    fail_nodes.append(x)
        all_rel = {n_ for kind_ in ("worktree remove", "branch -D") for f2, c, _o, _r in releases.get(kind_, []) if f2 is fn for n_ in cfg_nodes_containing(cfg, c)}
        starts_d = list(fail_nodes)
        ck = site_kw(call, "check")
        if (isinstance(ck, ast.Constant) and ck.value is True) or (h_fn_d is not fn and not returns_result_d):
            # the failure leaves the (helper) call as an exception
            starts_d += [b for a in acq_nodes for b, lab in cfg.succ[a] if lab == "exc"]
        if starts_d:
            hit = cfg.reach(starts_d) & all_rel
            ctx.ob("R1", key(fn, "no-release-after-failed-acquire"), not hit,
                   "when `worktree add` fails nothing is released (the branch name may belong to the user)" if not hit else
                   "the cleanup also runs when `worktree add` failed: `git branch -D <tmp_branch>` then deletes a branch that existed before and was never created here",
                   where(fn, call))
        # (b) same values, single assignment
        def single(name: str) -> bool:
            return len(stores_of(fn.node, name)) <= 1

        for kind, want in (("worktree remove", path_expr), ("branch -D", branch_expr)):
            for f2, c, ops2, repo2 in releases.get(kind, []):
                if f2 is not fn:
                    continue
                if want is None:
                    ctx.ob("R1", key(fn, f"same-operand:{kind}"), kind != "branch -D",
                           "acquire creates no branch (-b absent) yet a branch is deleted", where(fn, c))
                    continue
                have = [unparse(e) for e in ops2 if not isinstance(e, ast.Constant)]
                same = unparse(want) in have and all(single(n.id) for n in ast.walk(want) if isinstance(n, ast.Name))
                ctx.ob("R1", key(fn, f"same-operand:{kind}"), same,
                       f"`git {kind}` operates on the acquire's own operand `{unparse(want)}` (single assignment)", where(fn, c),
                       {"release_operands": have})
                same_repo = (repo2 is None and repo is None) or (repo2 is not None and repo is not None and unparse(repo2) == unparse(repo))
                ctx.ob("R1", key(fn, f"same-repo:{kind}"), same_repo, "release targets the same repository (-C operand) as the acquire", where(fn, c))
        if branch_expr is not None and "branch -D" not in releases:
            ctx.ob("R1", key(fn, "release:branch -D"), False, "temporary branch created with -b is never deleted", where(fn, call))
        # (d) temporary directory
        tmp_withs = []
        for anc in ancestors(call):
            if isinstance(anc, (ast.With, ast.AsyncWith)):
                for item in anc.items:
                    if isinstance(item.context_expr, ast.Call) and (ext_callee(prog, fn.module, item.context_expr) or "").endswith(
                        ("tempfile.TemporaryDirectory", "TemporaryDirectory")
                    ) and isinstance(item.optional_vars, ast.Name):
                        tmp_withs.append((anc, item.optional_vars.id, item.context_expr))
        derived = False
        if tmp_withs and isinstance(path_expr, ast.Name):
            defs = [s for s in stores_of(fn.node, path_expr.id) if isinstance(s, ast.Assign)]
            derived = len(defs) == 1 and any(v in {n.id for n in ast.walk(defs[0].value) if isinstance(n, ast.Name)} for _, v, _ in tmp_withs)
        ctx.ob("R1", key(fn, "tempdir"), bool(tmp_withs) and derived,
               "worktree path is created under an enclosing `with TemporaryDirectory()` (removed on every exit)", where(fn, call))
        for y in yields:
            inside = any(any(a is w for a in ancestors(y)) for w, _, _ in tmp_withs)
            ctx.ob("R1", key(fn, "yield-inside-tempdir"), inside, "yield sits inside the TemporaryDirectory block", where(fn, y))
        # R2 forced removal
        for f2, c, ops2, _r in releases.get("worktree remove", []):
            if f2 is not fn:
                continue
            forced = any(isinstance(e, ast.Constant) and e.value in ("--force", "-f") for e in ops2)
            ck = site_kw(c, "check")
            silent = isinstance(ck, ast.Constant) and ck.value is False
            ctx.ob("R2", key(fn, "worktree remove --force"), forced or not silent,
                   "`git worktree remove` without --force is refused when the checkout has untracked/modified files "
                   "(inspection writes __pycache__); with check=False the refusal is silent: branch and worktree stay behind",
                   where(fn, c))
        # R5d: location prefix shared with diff._location and component arithmetic
        _check_location_contract(prog, ctx, fn, path_expr, tmp_withs)

    # ------------------------------------------------------------------ R4 callers
    ctx.rule("R4", "the worktree context manager is only used as a `with` item; loads happen inside its body; "
                   "the CLI check obtains the old tree (and base ref) through load_git")
    acq_fns = {fn.qualname for fn, *_ in acquire}
    n_users = 0
    for fn in prog.functions.values():
        for call in calls_in(fn.node):
            tgt = [c for c, _k in cg.callees_of_call(fn, call) if isinstance(c, FunctionInfo) and c.qualname in acq_fns]
            if not tgt:
                continue
            n_users += 1
            par = parent(call)
            as_with = isinstance(par, ast.withitem)
            ctx.ob("R4", key(fn, "with-item"), as_with, "worktree context manager entered through `with`", where(fn, call))
            if not as_with:
                continue
            with_stmt = parent(par)
            # every in-repo load call of this function is inside the with body
            for c2 in calls_in(fn.node):
                names = {c.qualname for c, _k in cg.callees_of_call(fn, c2) if isinstance(c, FunctionInfo)}
                if names & {"_griffe.loader.load", "_griffe.loader.GriffeLoader.load"}:
                    inside = any(a is with_stmt for a in ancestors(c2))
                    ctx.ob("R4", key(fn, "load-inside-with"), inside, "load() runs while the worktree exists", where(fn, c2))
                    ss = kwarg(c2, "store_source")
                    ctx.ob("R5", key(fn, "store_source"), ss is None or (isinstance(ss, ast.Constant) and ss.value is True),
                           "load from a temporary worktree keeps source lines in memory (store_source not disabled)", where(fn, c2))
                    # search paths must be rebased under the worktree
                    sp = kwarg(c2, "search_paths")
                    var = par.optional_vars.id if isinstance(par.optional_vars, ast.Name) else None
                    rebased = False
                    if sp is not None and var:
                        exprs = [sp]
                        if isinstance(sp, ast.Name):
                            exprs = [s.value for s in stores_of(fn.node, sp.id) if isinstance(s, ast.Assign)]
                        rebased = any(var in {n.id for n in ast.walk(e) if isinstance(n, ast.Name)} for e in exprs)
                    ctx.ob("R4", key(fn, "search-paths-rebased"), rebased, "search paths are rebased under the worktree", where(fn, c2))
                    trp = kwarg(c2, "try_relative_path")
                    ctx.ob("R4", key(fn, "no-relative-path"), isinstance(trp, ast.Constant) and trp.value is False,
                           "try_relative_path=False so the user's working tree is never read instead of the checkout", where(fn, c2))
    ctx.expect_min("R4", n_users, 1)
    # CLI check, on behaviour: cli.check evaluated with the loaders, the git helpers, the comparison, colorama and print replaced by recording
    # stand-ins - the old tree always comes from load_git (a temporary worktree), the new one from load_git when a base reference is given and from
    # the working tree otherwise (first version: the definition of the first argument of find_breaking_changes was looked up in check()'s statements)
    from sa.absint import Interp, Obj, Raised, Sym

    chk = prog.function("_griffe.cli.check")
    for base_ref in (None, "feature"):
        it_c = Interp(prog)
        log_c: list[tuple[str, tuple, dict]] = []

        def rec_c(name, ret, log_c=log_c):
            def f(_i, *a_, **k_):
                log_c.append((name, a_, k_))
                return ret(a_, k_) if callable(ret) else ret
            return f

        trees = {}

        def loaded(kind):
            def mk(a_, k_, kind=kind):
                o = Obj(None, {"__closed__": True}, label=f"{kind}({a_[0] if a_ else None}, ref={k_.get('ref')})")
                trees[id(o)] = (kind, k_.get("ref"))
                return o
            return mk

        it_c.stubs["_griffe.git.get_latest_tag"] = rec_c("get_latest_tag", "latest-tag")
        it_c.stubs["_griffe.git.get_repo_root"] = rec_c("get_repo_root", "/repo-root")
        it_c.stubs["_griffe.extensions.base.load_extensions"] = rec_c("load_extensions", Sym("<extensions>"))
        it_c.stubs["_griffe.loader.load_git"] = rec_c("load_git", loaded("load_git"))
        it_c.stubs["_griffe.loader.load"] = rec_c("load", loaded("load"))
        it_c.stubs["_griffe.diff.find_breaking_changes"] = rec_c("find_breaking_changes", lambda _a, _k: iter([]))
        for ext in ("colorama.deinit", "colorama.init", "os.getenv", "builtins.print"):
            it_c.ext_handlers[ext] = rec_c(ext.split(".")[-1], None)
        try:
            it_c.call(chk, "pkg", None, None, base_ref=base_ref)
            cmp_ = [c_ for c_ in log_c if c_[0] == "find_breaking_changes"]
            got_c: object = [trees.get(id(x)) for x in cmp_[0][1][:2]] if len(cmp_) == 1 else f"{len(cmp_)} comparisons"
        except Raised as r:
            got_c = f"raises {r.exc}"
        except AnalysisError as e_:
            ctx.note(f"R4: cli.check does something the stand-ins of this row do not cover ({e_}); the row is not judged, the other rules are")
            continue
        want_c = [("load_git", "latest-tag"), ("load_git", base_ref) if base_ref else ("load", None)]
        ctx.ob("R4", f"cli-check|base_ref={base_ref}|trees", got_c == want_c,
               f"griffe check{' -b ' + base_ref if base_ref else ''}: compared trees {got_c}; expected the old one from load_git at the `against` reference and the new one from "
               f"{'load_git at the base reference' if base_ref else 'the working tree'}", where(chk))

    # ------------------------------------------------------------------ R5 results outlive the checkout
    ctx.rule("R5", "source lines are served from memory: Object.lines/source and Docstring.lines/source reach no file-reading "
                   "call; the visitor stores lines before visiting; Breakage._location strips exactly the worktree components")
    roots = []
    for q in ("_griffe.models.Object.lines", "_griffe.models.Object.source", "_griffe.models.Docstring.lines",
              "_griffe.models.Docstring.source", "_griffe.models.Object.lines_collection"):
        roots.append(prog.function(q))
    FILE_READ = ("read_text", "read_bytes", "open", "getsource", "getsourcelines", "getline", "getlines")

    def is_file_read(name: str) -> bool:
        last = name.rstrip("?").split(".")[-1]
        return last in FILE_READ

    for root in roots:
        reach = cg.reachable([root])
        bad = None
        for q, path in reach.items():
            f = prog.functions[q]
            for e in cg.edges_from(f):
                if isinstance(e.callee, str) and is_file_read(e.callee):
                    bad = [*path, e]
                    break
            if bad:
                break
        ctx.ob("R5", key(root, "no-file-read"), bad is None,
               f"{root.qualname} serves lines from the in-memory collection" if bad is None else f"{root.qualname} reaches a file read",
               where(root), {"path": fmt_path(prog, bad or []), "functions_explored": len(reach)})
    # store-before-visit
    vm = [f for f in prog.functions.values() if f.cls is not None and f.cls.qualname == "_griffe.loader.GriffeLoader"
          and any("_griffe.agents.visitor.visit" in {getattr(c, "qualname", c) for c, _ in cg.callees_of_call(f, c2)} for c2 in calls_in(f.node))]
    ctx.expect_min("R5", len(vm), 1)
    for f in vm:
        cfg = cfg_of(f)
        for c2 in calls_in(f.node):
            if "_griffe.agents.visitor.visit" not in {getattr(c, "qualname", c) for c, _ in cg.callees_of_call(f, c2)}:
                continue
            vnodes = cfg_nodes_containing(cfg, c2)

            def is_store(n):
                s = n.stmt
                return n.kind == "stmt" and isinstance(s, ast.Assign) and any(
                    isinstance(t, ast.Subscript) and dotted(t.value) == "self.lines_collection" for t in s.targets)

            def off_edge(a, _b, label):
                if a.kind != "test" or label not in "TF" or a.expr is None:
                    return False
                return any(dotted(atom) == "self.store_source" and truth is False for atom, truth in implied(a.expr, label == "T"))

            reach = cfg.reach(cfg.entry, avoid=is_store, avoid_edge=off_edge, normal_only=True)
            ok = not any(v in reach for v in vnodes)
            ctx.ob("R5", key(f, "lines-stored-before-visit"), ok,
                   "when store_source is on, lines_collection[path] is filled on every path before visit()", where(f, c2))


def _check_location_contract(prog: Program, ctx: Ctx, fn: FunctionInfo, path_expr: ast.expr, tmp_withs: list) -> None:
    """diff.Breakage._location strips components up to `index + K`; K must equal the depth of the checkout below the
    directory named with the shared prefix constant."""
    # the constant the temporary directory's name starts with (read off the `prefix=` of the enclosing TemporaryDirectory) ...
    const = None
    for _w, _v, ctor in tmp_withs:
        p = kwarg(ctor, "prefix")
        if isinstance(p, ast.JoinedStr) and p.values and isinstance(p.values[0], ast.FormattedValue) and isinstance(p.values[0].value, ast.Name):
            const = p.values[0].value.id
        elif isinstance(p, ast.Name):
            const = p.id
    if const is None:
        ctx.note("R5: no enclosing TemporaryDirectory(prefix=<constant>...) around the acquire (reported by R1 `tempdir`); the path-stripping contract is not judged")
        return
    const_q = prog.resolve(fn.module, const) or f"{fn.module.name}.{const}"
    # ... and the function(s) that look for it to strip the checkout from reported paths (in the diff module, or a helper it calls in the git module)
    users = []
    for f in prog.functions.values():
        if f is fn or not f.module.name.startswith("_griffe."):
            continue
        for n in walk_no_nested(f.node):
            if isinstance(n, ast.Name) and isinstance(n.ctx, ast.Load) and n.id == const and (prog.resolve(f.module, n.id) or f"{f.module.name}.{n.id}") == const_q:
                users.append((f, n))
                break
    if not users:
        raise AnalysisError("C20-R5: no function strips the worktree prefix constant from reported paths any more")
    loc = prog.lookup_method(prog.cls("_griffe.diff.Breakage"), "_location")
    if loc:
        from sa.callgraph import CallGraph as _CG

        reach = set(_CG(prog).reachable(loc))
        ctx.ob("R5", "location-uses-stripper", any(f.qualname in reach for f, _n in users),
               "Breakage._location reaches the function that strips the worktree directory from the path", where(loc[0]))
    for f, name_node in users:
        ctx.ob("R5", key(f, "shared-prefix"), True, f"temporary directory name starts with the constant `{const}` that {f.name} looks for", where(f, name_node))
        # depth arithmetic
        depth = None
        if isinstance(path_expr, ast.Name):
            defs = [s for s in stores_of(fn.node, path_expr.id) if isinstance(s, ast.Assign)]
            if len(defs) == 1:
                v = defs[0].value
                if isinstance(v, ast.Call) and (dotted(v.func) or "").endswith("path.join"):
                    depth = len(v.args) - 1
                elif isinstance(v, ast.BinOp) and isinstance(v.op, ast.Div):
                    depth = 0
                    cur: ast.expr = v
                    while isinstance(cur, ast.BinOp) and isinstance(cur.op, ast.Div):
                        depth += 1
                        cur = cur.left
                elif isinstance(v, ast.Call) and (dotted(v.func) or "").split(".")[-1] == "Path" and len(v.args) >= 1:
                    depth = len(v.args) - 1
        offs = []
        for n in walk_no_nested(f.node):
            if isinstance(n, ast.Slice) and isinstance(n.lower, ast.BinOp) and isinstance(n.lower.op, ast.Add) \
                    and isinstance(n.lower.right, ast.Constant) and isinstance(n.lower.right.value, int):
                offs.append(n.lower.right.value)
        if depth is None or len(offs) != 1:
            raise AnalysisError(f"C20-R5: cannot read checkout depth ({depth}) or strip offset ({offs}) in {f.qualname}")
        ctx.ob("R5", key(f, "strip-depth"), offs[0] == depth + 1,
               f"{f.name} strips {offs[0]} components from the prefixed directory; the checkout root is {depth} below it "
               f"(must strip depth+1 = {depth + 1})", where(f))
