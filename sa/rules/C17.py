"""C17 - Static and dynamic analysis agree on the API skeleton (structural / sibling-agreement part).

R1 handler exhaustiveness, R2 kind ladder (implication order, abstract decision list), R3 extension-event protocol of the inspector (same automaton as
the visitor), R4 kind map and parameter conversion, R5 docstring source (own __doc__, cleaned), R6 alias decision table of generic_inspect,
R7 the static side's parameter alignment equals CPython's introspection (what the inspector reads).
"""

from __future__ import annotations

import ast
import itertools

from sa import events
from sa.absint import Interp, Native, Obj, Raised, Sym
from sa.report import Ctx
from sa.srcmodel import AnalysisError, Program, dotted, norm, unparse, walk_no_nested
from sa.util import calls_in, key, kwarg, where

I = "_griffe.agents.inspector"
R = "_griffe.agents.nodes.runtime"


def inspect_class_bases_table(prog: Program, ctx: Ctx, rule: str) -> None:
    """Inspector.inspect_class on class hierarchies synthesised here (shared by C17-R9 and C07-R7)."""
    it = Interp(prog)
    ctx.rule(rule, "inspect_class records the class's own direct bases (object aside) - what the class statement lists and the static side records - also "
                   "for generic hierarchies, where dunder attributes such as __orig_bases__ are inherited by plain subclasses")
    import typing

    T = typing.TypeVar("T")

    class Plain:
        pass

    class Repo(typing.Generic[T]):
        pass

    class Cached(Repo):  # plain descendant of a generic class: inherits __orig_bases__
        pass

    class Typed(Plain, Repo[str]):
        pass

    class Sub(Typed):
        pass

    class Both(Plain, Cached):
        pass

    class Proto(typing.Protocol[T]):
        pass

    ic = prog.function(f"{I}.Inspector.inspect_class")
    made: list = []
    it.class_stubs["_griffe.models.Class"] = lambda _i, **k: (made.append(k), Obj(prog.cls("_griffe.models.Class"), {"parent": None, **k}))[1]
    it.stubs[f"{I}.Inspector._get_linenos"] = lambda _i, *_a, **_k: (1, 2)
    it.stubs[f"{I}.Inspector._get_docstring"] = lambda _i, *_a, **_k: None
    it.stubs[f"{I}.Inspector.generic_inspect"] = lambda _i, *_a, **_k: None
    for klass_ in (Plain, Repo, Cached, Typed, Sub, Both, Proto):
        made.clear()
        cur = Obj(None, {"parent": None, "path": "m"}, label="m")
        cur.attrs["set_member"] = Native(lambda _n, v_, cur=cur: v_.attrs.__setitem__("parent", cur))
        insp = Obj(prog.cls(f"{I}.Inspector"), {"extensions": Obj(None, {"call": Native(lambda *_a, **_k: None)}), "current": cur}, label="inspector")
        try:
            it.steps = 0
            it.call(ic, insp, Obj(None, {"obj": klass_, "name": klass_.__name__}))
            got = [b.rsplit(".", 1)[-1] for b in made[0]["bases"]] if made else "no class built"
        except Raised as r:
            got = f"raises {r.exc}"
        want = [b.__qualname__.rsplit(".", 1)[-1] for b in klass_.__bases__ if b is not object]
        ctx.ob(rule, f"bases|{klass_.__name__}", got == want, f"class {klass_.__name__}({', '.join(want)}): the inspector records bases {got}", where(ic))
    for q in ("_get_linenos", "_get_docstring", "generic_inspect"):
        it.stubs.pop(f"{I}.Inspector.{q}", None)
    it.class_stubs.pop("_griffe.models.Class", None)



class _Proxy:
    """A chainable proxy, as RPC / ORM / builder libraries have them: every attribute exists (also `__name__`) and is another proxy."""

    def __getattr__(self, name: str) -> "_Proxy":
        return self

    def __repr__(self) -> str:
        return "<proxy>"


def inspected_values_table(prog: Program, ctx: Ctx, rule: str) -> None:
    """What the inspector stores as the value of an attribute and as the default of a parameter is text (shared by C17-R14 and C09-R3)."""
    import inspect as _insp

    ctx.rule(rule, "the value the inspector records for an attribute and the default it records for a parameter are strings (or None), whatever the "
                   "runtime object is - also an object that answers every attribute lookup, `__name__` included")
    it = Interp(prog)
    ha = prog.function(f"{I}.Inspector.handle_attribute")
    cp = prog.function(f"{I}._convert_parameter")
    made: list = []
    it.class_stubs["_griffe.models.Attribute"] = lambda _i, **k: (made.append(k), Obj(prog.cls("_griffe.models.Attribute"), {"labels": set(), **k}))[1]
    it.stubs[f"{I}.Inspector._get_docstring"] = lambda _i, *_a, **_k: None

    def helper() -> None:
        pass

    for label, value in (("an integer", 1), ("a string", "s"), ("None", None), ("a list", [1, 2]), ("a function", helper), ("a proxy answering every attribute", _Proxy())):
        made.clear()
        cur = Obj(None, {"kind": it.enum("_griffe.enumerations.Kind", "MODULE"), "path": "m", "name": "m"}, label="m")
        cur.attrs["set_member"] = Native(lambda _n, _v: None)
        insp_o = Obj(prog.cls(f"{I}.Inspector"), {"extensions": Obj(None, {"call": Native(lambda *_a, **_k: None)}), "current": cur}, label="inspector")
        try:
            it.steps = 0
            it.call(ha, insp_o, Obj(None, {"obj": value, "name": "x"}))
            got: object = made[0].get("value") if made else "no attribute built"
        except Raised as r:
            got = f"raises {r.exc}"
        ctx.ob(rule, f"attribute-value|{label}", got is None or isinstance(got, str), f"attribute bound to {label}: recorded value {got!r} ({type(got).__name__})", where(ha))
        if value is None:
            continue
        try:
            it.steps = 0
            p_ = it.call(cp, _insp.Parameter("x", _insp.Parameter.POSITIONAL_OR_KEYWORD, default=value), Obj(None, {}))
            gd: object = p_.attrs["default"]
        except Raised as r:
            gd = f"raises {r.exc}"
        ctx.ob(rule, f"parameter-default|{label}", isinstance(gd, str), f"parameter whose default is {label}: recorded default {gd!r} ({type(gd).__name__})", where(cp))


def run(prog: Program, ctx: Ctx) -> None:  # noqa: PLR0912,PLR0915
    insp = prog.cls(f"{I}.Inspector")
    it = Interp(prog)

    # ------------------------------------------------------------------ R1
    ctx.rule("R1", "every ObjectKind value has an inspect_<value> handler (anything else falls to generic_inspect and its members are dropped)")
    ok_enum = prog.cls("_griffe.enumerations.ObjectKind")
    members = {m: v.value for m, v in ok_enum.class_attrs.items() if isinstance(v, ast.Constant)}
    for m, v in sorted(members.items()):
        ctx.ob("R1", f"handler|{v}", bool(insp.methods.get(f"inspect_{v}")), f"Inspector.inspect_{v} handles ObjectKind.{m}", f"{insp.module.relpath}:{insp.node.lineno}")
    ctx.expect_min("R1", len(members), 14)
    for name, defs in insp.methods.items():
        if name.startswith("inspect_") and name != "inspect_":
            ctx.ob("R1", f"real-kind|{name}", name[len("inspect_"):] in members.values(), f"{name} is named after an ObjectKind value", where(defs[0]))
    insp_fn = prog.function(f"{I}.Inspector.inspect")
    ok = any(isinstance(c.func, ast.Call) and dotted(c.func.func) == "getattr" and len(c.func.args) == 3 and "inspect_" in unparse(c.func.args[1]) and "node.kind" in unparse(c.func.args[1])
             and unparse(c.func.args[2]) == "self.generic_inspect" for c in calls_in(insp_fn.node))
    ctx.ob("R1", key(insp_fn, "dispatch"), ok, "inspect() dispatches on node.kind with generic_inspect as default", where(insp_fn))

    # ------------------------------------------------------------------ R2 kind ladder
    ctx.rule("R2", "ObjectNode.kind decision list: where a more specific predicate implies a more general one, the specific kind wins; with no "
                   "predicate true the kind is ATTRIBUTE")
    node_cls = prog.cls(f"{R}.ObjectNode")
    kind_fn = prog.lookup_method(node_cls, "kind")[0]
    flags = ["is_module", "is_class", "is_staticmethod", "is_classmethod", "is_cached_property", "is_method", "is_builtin_method", "is_coroutine",
             "is_builtin_function", "is_method_descriptor", "is_function", "is_getset_descriptor", "is_property"]
    used = {n.attr for n in ast.walk(kind_fn.node) if isinstance(n, ast.Attribute) and dotted(n.value) == "self"}
    if not set(flags) >= {u for u in used if u.startswith("is_")}:
        raise AnalysisError(f"C17-R2: ObjectNode.kind uses predicates {sorted(used)} that the rule does not tabulate")

    def kind_of(true_flags: set[str]) -> str:
        o = Obj(node_cls, {f: (f in true_flags) for f in flags}, label="node")
        v = it.getattr(o, "kind")
        return v.name.split(".")[-1] if isinstance(v, Sym) else str(v)

    IMPLIES = [  # (specific predicate, its kind, implied general predicate(s)) with the reason
        ("is_staticmethod", "STATICMETHOD", ["is_function"], "a staticmethod is callable"),
        ("is_classmethod", "CLASSMETHOD", ["is_function"], "a classmethod is callable"),
        ("is_method", "METHOD", ["is_function"], "a function defined in a class is a function"),
        ("is_coroutine", "COROUTINE", ["is_function"], "an async function is a function"),
        ("is_builtin_method", "BUILTIN_METHOD", ["is_builtin_function", "is_function"], "inspect.isbuiltin is true for built-in methods too"),
        ("is_builtin_function", "BUILTIN_FUNCTION", ["is_function"], "built-ins are callable"),
        ("is_method_descriptor", "METHOD_DESCRIPTOR", ["is_function"], "method descriptors are callable"),
        ("is_cached_property", "CACHED_PROPERTY", ["is_property"], "is_property is defined as `isinstance(property) or is_cached_property`"),
        ("is_module", "MODULE", [], "modules first"),
        ("is_class", "CLASS", ["is_function"], "classes are callable but are not functions"),
    ]
    for spec, kind, gens, why in IMPLIES:
        got = kind_of({spec, *gens})
        ctx.ob("R2", f"ladder|{spec}", got == kind, f"{spec} (with {gens or 'nothing else'} true: {why}) -> {got}, expected {kind}", where(kind_fn))
    ctx.ob("R2", "ladder|none", kind_of(set()) == "ATTRIBUTE", "no predicate true -> ATTRIBUTE", where(kind_fn))
    for f_, k_ in (("is_function", "FUNCTION"), ("is_property", "PROPERTY"), ("is_getset_descriptor", "GETSET_DESCRIPTOR")):
        ctx.ob("R2", f"ladder|only {f_}", kind_of({f_}) == k_, f"only {f_} -> {kind_of({f_})}, expected {k_}", where(kind_fn))

    # ------------------------------------------------------------------ R3 events
    ctx.rule("R3", "the inspector announces every object it builds with the same protocol as the visitor: node events first, attach, on_instance, "
                   "the kind's own event, members visited between on_instance and on_members")
    n = 0
    for name in ("inspect_module", "inspect_class", "handle_function", "handle_attribute", "generic_inspect"):
        for f in insp.methods.get(name, []):
            n += events.check_protocol(prog, ctx, "R3", f, recursive_calls=("self.generic_inspect",), node_events=name != "generic_inspect")
    ctx.expect_min("R3", n, 6)
    hf = prog.function(f"{I}.Inspector.handle_function")
    cons = events.constructions(prog, hf)
    import sa.util as U

    cfg = U.cfg_of(hf)
    for var, cls, call, st in cons:
        for x in U.node_index(hf).get(id(call), []):
            want = cls == "Attribute"
            ok = cfg.dominated_by_fact(x, lambda a, t, want=want: unparse(a).replace('"', "'") == "'property' in labels" and t is want)
            ctx.ob("R3", key(hf, f"{cls}-iff-property-label"), ok, f"a {cls} is built exactly when the object {'is' if want else 'is not'} labelled as a property (as the visitor does)", where(hf, call))

    # ------------------------------------------------------------------ R4 kind map and parameter conversion
    ctx.rule("R4", "runtime parameters are converted with the bijective kind map; a parameter without default becomes required (default None)")
    km = prog.module(I).assigns.get("_kind_map")
    pairs = [(unparse(k).split(".")[-1], unparse(v).split(".")[-1]) for k, v in zip(km.keys, km.values)] if isinstance(km, ast.Dict) else []
    ctx.ob("R4", "kind_map|bijection", len(pairs) == 5 and len({a for a, _ in pairs}) == 5 and len({b for _, b in pairs}) == 5 and all(a.lower() == b.lower() for a, b in pairs),
           f"_kind_map maps the five inspect kinds to the same-named ParameterKind members: {pairs}", f"{prog.module(I).relpath}:{getattr(km, 'lineno', 0)}")
    cp = prog.function(f"{I}._convert_parameter")
    import inspect as _inspect

    def _helper() -> None:  # a default value that is a function: rendered by its name
        pass

    for kind_, default_ in itertools.product(list(_inspect._ParameterKind), (_inspect.Parameter.empty, 1, "s", None, _helper)):  # type: ignore[attr-defined]
        if kind_ in (_inspect.Parameter.VAR_POSITIONAL, _inspect.Parameter.VAR_KEYWORD) and default_ is not _inspect.Parameter.empty:
            continue
        sp = _inspect.Parameter("x", kind_, default=default_)
        try:
            o_ = it.call(cp, sp, Obj(None, {}))
            got = (o_.attrs["name"], o_.attrs["kind"].name.split(".")[-1], o_.attrs["default"], o_.attrs["annotation"])
        except Raised as r:
            got = (f"raises {r.exc}",)
        want_default = None if default_ is _inspect.Parameter.empty else ("_helper" if default_ is _helper else repr(default_))
        want = ("x", kind_.name.lower(), want_default, None)
        ctx.ob("R4", f"convert|{kind_.name}|default={'<none>' if default_ is _inspect.Parameter.empty else ('<function>' if default_ is _helper else repr(default_))}", got == want,
               f"inspect.Parameter('x', {kind_.name}, default={'<empty>' if default_ is _inspect.Parameter.empty else default_!r}) converts to {got}; expected {want}", where(cp))

    # ------------------------------------------------------------------ R5 docstring source
    ctx.rule("R5", "the inspector reads the object's *own* __doc__ (never a docstring inherited through the MRO) and cleans it like the static side")
    gd = prog.function(f"{I}.Inspector._get_docstring")
    own = any(isinstance(c, ast.Call) and dotted(c.func) == "getattr" and len(c.args) >= 2 and getattr(c.args[1], "value", None) == "__doc__" for c in ast.walk(gd.node)) \
        or any(isinstance(n_, ast.Attribute) and n_.attr == "__doc__" for n_ in ast.walk(gd.node))
    inherited = [c for c in calls_in(gd.node) if (dotted(c.func) or "").split(".")[-1] in ("getdoc",)]
    ctx.ob("R5", key(gd, "own-doc"), own and not inherited, "docstring = the object's own __doc__" if own and not inherited else
           "docstring obtained through inspect.getdoc, which walks the MRO: undocumented overrides get their parent's docstring, unlike static analysis", where(gd))
    ctx.ob("R5", key(gd, "cleaned"), any((dotted(c.func) or "").split(".")[-1] == "cleandoc" for c in calls_in(gd.node)), "the runtime docstring is cleaned (cleandoc)", where(gd))

    # ------------------------------------------------------------------ R6 alias decision
    ctx.rule("R6", "generic_inspect decision table per child: no alias target -> inspected in place; a direct sub-module imported under its own name -> "
                   "left to the loader when it has a file, inspected now otherwise; every other imported object -> an alias to its target path")
    gi = prog.function(f"{I}.Inspector.generic_inspect")
    log: list[tuple] = []
    it.class_stubs["_griffe.models.Alias"] = lambda _i, name, target, **_k: (log.append(("alias", name, target)) or Obj(None, {"name": name, "target_path": target}, label="alias"))

    def fake_inspector(_i, *a, **k):
        log.append(("sub-inspector", a, k))
        return Obj(None, {"inspect_module": Native(lambda ch: log.append(("inspect_module", ch))), "current": Obj(None, {"module": Obj(None, {}, label="submodule")})})

    it.class_stubs[f"{I}.Inspector"] = fake_inspector
    for target, is_module, has_file, cname in itertools.product((None, "pkg.h", "pkg.helpers", "other.thing"), (False, True), (False, True), ("h",)):
        log.clear()
        child_obj = Obj(None, {"__file__": "/x.py"} if has_file else {}, label="runtime object")
        child = Obj(None, {"alias_target_path": target, "is_module": is_module, "name": cname, "obj": child_obj}, label="child")
        node = Obj(None, {"children": [child]}, label="node")
        current = Obj(None, {"path": "pkg", "set_member": Native(lambda n_, v_: log.append(("set_member", n_, v_))), "module": Obj(None, {}, label="pkgmod")})
        selfo = Obj(insp, {"current": current, "extensions": Obj(None, {"call": Native(lambda ev, **kw: log.append(("event", ev)))}), "docstring_parser": None, "docstring_options": {},
                           "lines_collection": None, "modules_collection": None, "inspect": Native(lambda ch: log.append(("inspect", ch)))}, label="inspector")
        try:
            it.call(gi, selfo, node)
            raised = None
        except Raised as r:
            raised = r.exc
        kinds = [e[0] for e in log]
        if target is None:
            want, good = "inspected in place", kinds == ["inspect"]
        elif is_module and target == f"pkg.{cname}":
            if has_file:
                want, good = "skipped (the loader finds it on disk)", kinds == []
            else:
                want, good = "inspected now and attached", "sub-inspector" in kinds and "inspect_module" in kinds and "set_member" in kinds and "alias" not in kinds
        else:
            want = f"alias {cname} -> {target}"
            good = kinds[:2] == ["alias", "set_member"] and log[0][1:] == (cname, target) and ("event", "on_alias") in log
        ctx.ob("R6", f"child|target={target}|module={is_module}|file={has_file}", good and raised is None, f"expected: {want}; got {kinds} raised={raised}", where(gi))
    it.class_stubs.clear()

    # ------------------------------------------------------------------ R7 static alignment
    from sa.rules.C02 import alignment_table

    alignment_table(prog, ctx, "R7", 2, 2, 500)

    # ------------------------------------------------------------------ R9 bases of inspected classes
    inspect_class_bases_table(prog, ctx, "R9")

    # ------------------------------------------------------------------ R11 one recorded parameter per runtime parameter, whatever the annotations say
    ctx.rule("R11", "handle_function records exactly the parameters of the runtime signature (names, kinds, defaults), also when string annotations "
                    "name things that do not exist at run time: annotations are read, never evaluated")
    import inspect as _insp

    def f_plain(a, /, b, *args, c=1, **kw):  # noqa: ANN001,ANN002,ANN003,ANN202
        pass

    def f_typed(x: int = 0) -> str:  # noqa: ARG001
        return ""

    # (this file postpones annotations: the ones below are the strings "Entry", "Missing", ... at run time, naming nothing that exists)
    def f_strings(self, entry: Entry, *items: Missing, flag: bool = False, **kw: Nope) -> AlsoMissing:  # type: ignore[name-defined]  # noqa: ANN001,F821,ARG001
        pass

    def f_resolvable_string(x: int) -> str:  # noqa: ARG001
        return ""

    def sig_native(_i, obj, **kw):  # noqa: ANN001,ANN003,ANN202
        try:
            return _insp.signature(obj, **kw)
        except Exception as ex:  # noqa: BLE001 - whatever CPython raises is what the analysed code has to handle
            raise Raised(type(ex).__name__) from None

    hf = prog.function(f"{I}.Inspector.handle_function")
    made_f: list = []
    it.ext_handlers["inspect.signature"] = sig_native
    it.class_stubs["_griffe.models.Function"] = lambda _i, **k: (made_f.append(k), Obj(prog.cls("_griffe.models.Function"), {"parent": None, "labels": set(), "is_attribute": False, **k}))[1]
    it.stubs[f"{I}.Inspector._get_linenos"] = lambda _i, *_a, **_k: (1, 2)
    it.stubs[f"{I}.Inspector._get_docstring"] = lambda _i, *_a, **_k: None
    it.stubs[f"{I}._convert_object_to_annotation"] = lambda _i, o_, **_k: o_ if isinstance(o_, str) else getattr(o_, "__name__", repr(o_))
    for fobj in (f_plain, f_typed, f_strings, f_resolvable_string):
        made_f.clear()
        cur = Obj(None, {"parent": None, "path": "m"}, label="m")
        cur.attrs["set_member"] = Native(lambda _n, v_, cur=cur: v_.attrs.__setitem__("parent", cur))
        insp_o = Obj(prog.cls(f"{I}.Inspector"), {"extensions": Obj(None, {"call": Native(lambda *_a, **_k: None)}), "current": cur}, label="inspector")
        want = [(p_.name, p_.kind.name.lower(), None if p_.default is _insp.Parameter.empty else repr(p_.default)) for p_ in _insp.signature(fobj).parameters.values()]
        try:
            it.steps = 0
            it.call(hf, insp_o, Obj(None, {"obj": fobj, "name": fobj.__name__}))
            ps = made_f[0]["parameters"] if made_f else "no function built"
            got: object = ps if not isinstance(ps, Obj) else [(q.attrs["name"], q.attrs["kind"].name.split(".")[-1], q.attrs["default"]) for q in it._iterate(ps)]
        except Raised as r:
            got = f"raises {r.exc}"
        ctx.ob("R11", f"parameters|{fobj.__name__}", got == want, f"def {fobj.__name__}{_insp.signature(fobj)}: the inspector records parameters {got}; the runtime signature has {want}", where(hf))
    for q in ("Inspector._get_linenos", "Inspector._get_docstring", "_convert_object_to_annotation"):
        it.stubs.pop(f"{I}.{q}", None)
    it.class_stubs.pop("_griffe.models.Function", None)
    it.ext_handlers.pop("inspect.signature", None)

    # ------------------------------------------------------------------ R8 static import aliases = what CPython binds (and the inspector sees)
    from sa.importrules import importfrom_table

    importfrom_table(prog, ctx, "R8")

    # ------------------------------------------------------------------ R10 wildcard imports: the static side binds what run time binds
    from sa.importrules import wildcard_table

    wildcard_table(prog, ctx, "R10")

    # ------------------------------------------------------------------ R12 what the static side builds for a definition is what run time has
    # (kinds, labels, parameters of functions, coroutines, properties, static / class methods, overloads - alone and after any other definition:
    # the dynamic side reads them off the live object, so any state the visitor carries from one definition to the next makes the two disagree)
    from sa.rules.C02 import _definition_table

    _definition_table(prog, ctx, "R12")

    # ------------------------------------------------------------------ R13 which names of a runtime object become children
    ctx.rule("R13", "ObjectNode.children keeps every name bound in the object's own namespace - whatever it is bound to (a built-in class, an exception "
                    "type, a constant, a function, a class) - except interpreter specials, `type` / `object` themselves and the objects being inspected")
    import inspect as _i2
    import types as _types

    def _helper13() -> None:
        pass

    class _Klass13:
        text_type = str
        limit = 3

        def method(self) -> None:
            pass

    mod13 = _types.ModuleType("m13")
    for k13, v13 in {"text_type": str, "DecodeError": ValueError, "container": dict, "value": 1, "nothing": None, "helper": _helper13, "Klass": _Klass13,
                     "the_type": type, "the_object": object}.items():
        setattr(mod13, k13, v13)
    node_cls = prog.cls(f"{R}.ObjectNode")
    it.ext_handlers["inspect.getmembers"] = lambda _i, o_, *a_: _i2.getmembers(o_, *a_)
    it.ext_handlers["inspect.unwrap"] = lambda _i, o_, **_k: _i2.unwrap(o_)
    it.ext_handlers["builtins.vars"] = lambda _i, o_: dict(vars(o_))
    it.ext_handlers["builtins.id"] = lambda _i, o_: id(o_)
    for label13, target13 in (("module", mod13), ("class", _Klass13), ("sub-module (its parent packages are placeholder nodes)", mod13)):
        try:
            it.steps = 0
            par13 = it._construct(node_cls, [None, "pkg"], {}) if label13.startswith("sub-module") else None  # what Inspector.get_module builds for `pkg.m13`
            node13 = it._construct(node_cls, [target13, label13.split(" ")[0]], {"parent": par13})
            got13: object = sorted(c_.attrs["name"] for c_ in it.getattr(node13, "children"))
        except Raised as r:
            got13 = f"raises {r.exc}"
        specials = it.getattr(node13, "exclude_specials") if not isinstance(got13, str) else set()
        want13 = sorted(n_ for n_, v_ in vars(target13).items() if n_ not in specials and v_ is not type and v_ is not object)
        ctx.ob("R13", f"children|{label13}", got13 == want13, f"children of a {label13} whose namespace binds {sorted(n_ for n_ in vars(target13) if not n_.startswith('__'))}: "
               f"{got13}; expected {want13}", where(prog.lookup_method(node_cls, "children")[0]))
    for q13 in ("inspect.getmembers", "inspect.unwrap", "builtins.vars", "builtins.id"):
        it.ext_handlers.pop(q13, None)

    # ------------------------------------------------------------------ R14 recorded values and defaults are text
    inspected_values_table(prog, ctx, "R14")

    # ------------------------------------------------------------------ R15 the static side finds definitions in every kind of block
    # (a compat fallback defined in an `except` handler or an `else` branch exists at run time when that branch runs: the inspector reports it)
    from sa.tables import extraction

    ctx.rule("R15", "the visitor finds functions, classes and assignments in every block context (if / else, try / except / else / finally, for, with, "
                    "guards): one member per bound name, as the extraction table of C01 states it")
    ex15 = extraction.Extraction(prog)
    gm15 = prog.function("_griffe.agents.visitor.Visitor.get_module")
    n15 = 0
    for label15, src15 in extraction.corpus(False):
        parts15 = label15.split("|")
        if parts15[0] != "module" or len(parts15) < 3 or parts15[2] not in ("function", "class", "assignment"):
            continue
        res15 = ex15.visit(src15)
        problems15 = [res15] if isinstance(res15, str) else [p_ for p_ in extraction.compare(src15, extraction.reference(src15), *res15) if p_.startswith("members differ")]
        n15 += 1
        ctx.ob("R15", f"found|{label15}", not problems15, f"{label15}: " + (problems15[0] if problems15 else "the member is found"), where(gm15))
    ctx.expect_min("R15", n15, 50)

