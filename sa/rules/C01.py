"""C01 - Static extraction is faithful to the source (structural part).

R1 dispatch coverage, R2 extension-event protocol, R3 span provenance, R4 runtime flag + scoped type-guard flag,
R5 tie-break dominance, R6 visibility decision tables, R7 docstring pick table, R8 label / guard spellings.
"""

from __future__ import annotations

import ast
import itertools

from sa import events
from sa.absint import Interp, Obj, Raised
from sa.cfg import implied
from sa.report import Ctx
from sa.srcmodel import AnalysisError, FunctionInfo, Program, ancestors, dotted, norm, parent, unparse, walk_no_nested
from sa.tables import visibility
from sa.util import calls_in, cfg_of, key, kwarg, node_index, stmt_of, stores_of, where

V = "_griffe.agents.visitor.Visitor"
REQUIRED_HANDLERS = ["Module", "ClassDef", "FunctionDef", "AsyncFunctionDef", "Assign", "AnnAssign", "AugAssign", "Import", "ImportFrom", "If"]


def run(prog: Program, ctx: Ctx) -> None:  # noqa: PLR0912,PLR0915
    vis = prog.cls(V)

    # ------------------------------------------------------------------ R1 dispatch coverage
    ctx.rule("R1", "a visit_<kind> handler exists for every binding statement kind and is named after a real ast class; unknown kinds fall back "
                   "to generic_visit; compound handlers visit their children on every path; the name-extraction tables cover what they dispatch on "
                   "and their KeyError is caught at each call site")
    ast_names = {n.lower(): n for n in dir(ast) if isinstance(getattr(ast, n), type) and issubclass(getattr(ast, n), ast.AST)}
    for k in REQUIRED_HANDLERS:
        ctx.ob("R1", f"handler|{k}", bool(vis.methods.get(f"visit_{k.lower()}")), f"Visitor.visit_{k.lower()} handles ast.{k}", f"{vis.module.relpath}:{vis.node.lineno}")
    for name, defs in vis.methods.items():
        if name.startswith("visit_"):
            ctx.ob("R1", f"real-kind|{name}", name[len("visit_"):] in ast_names, f"{name} is named after an ast node class (otherwise it is never dispatched to)", where(defs[0]))
    visit = prog.function(f"{V}.visit")
    disp = [c for c in calls_in(visit.node) if isinstance(c.func, ast.Call) and dotted(c.func.func) == "getattr"]
    ok = False
    for c in disp:
        g = c.func
        if len(g.args) == 3 and isinstance(g.args[1], ast.JoinedStr) and g.args[1].values and isinstance(g.args[1].values[0], ast.Constant) \
                and g.args[1].values[0].value == "visit_" and unparse(g.args[2]) == "self.generic_visit" and len(c.args) == 1:
            ok = True
    ctx.ob("R1", key(visit, "dispatch"), ok, "visit() dispatches on the node kind with generic_visit as the default (bodies of for/while/try/with are traversed)", where(visit))
    gv = prog.function(f"{V}.generic_visit")
    loops = [n for n in walk_no_nested(gv.node) if isinstance(n, ast.For) and "ast_children" in unparse(n.iter)
             and any(isinstance(c, ast.Call) and dotted(c.func) == "self.visit" for c in ast.walk(n))]
    ctx.ob("R1", key(gv, "visits-all-children"), len(loops) == 1, "generic_visit visits every child of the node", where(gv))
    # compound handlers: visit_if must visit children on every path
    for name in ("visit_if",):
        for f in vis.methods.get(name, []):
            cfg = cfg_of(f)

            def visits(x):
                s = x.stmt
                if s is None:
                    return False
                if x.kind == "for" and unparse(s.iter).replace(" ", "") == f"ast_children({f.params[1] if len(f.params) > 1 else 'node'})" and any(isinstance(c, ast.Call) and dotted(c.func) == "self.visit" for c in ast.walk(s)):
                    return True
                return x.kind == "stmt" and any(isinstance(c, ast.Call) and dotted(c.func) == "self.generic_visit" for c in walk_no_nested(s, include_self=True))

            leak = cfg.reach(cfg.entry, avoid=visits, normal_only=True) & {cfg.exit}
            ctx.ob("R1", key(f, "children-visited-on-every-path"), not leak, f"{name} traverses the statement's children on every path (definitions inside if blocks are extracted)", where(f))
    asg = prog.module("_griffe.agents.nodes.assignments")
    for table, need in (("_node_names_map", {"ast.Assign", "ast.AnnAssign"}), ("_node_name_map", {"ast.Name", "ast.Attribute"})):
        v = asg.assigns.get(table)
        keys = {unparse(k) for k in v.keys} if isinstance(v, ast.Dict) else set()
        ctx.ob("R1", f"table|{table}", need <= keys, f"{table} covers {sorted(need)} (has {sorted(keys)})", f"{asg.relpath}:{getattr(v, 'lineno', 0)}")
    ha = prog.function(f"{V}.handle_attribute")
    n_sites = 0
    for c in calls_in(ha.node):
        if (dotted(c.func) or "") in ("get_names", "get_instance_names"):
            n_sites += 1
            from sa.aliasderef import enclosing_catch

            got = enclosing_catch(c)
            ctx.ob("R1", key(ha, f"KeyError-caught:{norm(c)}@{_branch_of(c)}"), bool(got & {"KeyError", "LookupError", "Exception"}),
                   "an unsupported assignment target (KeyError from the name table) is skipped, not raised", where(ha, c))
    ctx.expect_min("R1", n_sites, 3)

    # ------------------------------------------------------------------ R2 event protocol
    ctx.rule("R2", "per constructed object: on_node -> on_<k>_node -> construct -> attach -> on_instance -> on_<k>_instance -> visit members -> "
                   "on_members -> on_<k>_members; each exactly once, with the object just built")
    n = 0
    # finite domain of the setter/deleter discriminator, read from the function that produces it
    gbp = prog.function(f"{V}.get_base_property")
    dom: set[str] = set()
    for r in walk_no_nested(gbp.node):
        if isinstance(r, ast.Return) and r.value is not None and not (isinstance(r.value, ast.Constant) and r.value.value is None):
            for cmp_ in ast.walk(gbp.node):
                if isinstance(cmp_, ast.Compare) and isinstance(cmp_.ops[0], ast.In) and unparse(cmp_.left) == unparse(r.value) and isinstance(cmp_.comparators[0], (ast.Set, ast.Tuple, ast.List)):
                    dom |= {e.value for e in cmp_.comparators[0].elts if isinstance(e, ast.Constant)}
    if not dom:
        # the finite domain could not be read from the code: only used to prune an infeasible branch, so fall back to the documented one
        ctx.note("R2: discriminator domain of get_base_property not readable from the source; using the documented {setter, deleter}")
        dom = {"setter", "deleter"}
    ctx.ob("R2", key(gbp, "discriminator-domain"), dom == {"setter", "deleter"}, f"get_base_property returns None or one of {sorted(dom)}", where(gbp))
    hf = prog.function(f"{V}.handle_function")
    disc = [s.targets[0].id for s in walk_no_nested(hf.node) if isinstance(s, ast.Assign) and isinstance(s.value, ast.Call)
            and dotted(s.value.func) == "self.get_base_property" and isinstance(s.targets[0], ast.Name)]
    for name in ("visit_module", "visit_classdef", "handle_function", "handle_attribute", "visit_import", "visit_importfrom"):
        for f in vis.methods.get(name, []):
            n += events.check_protocol(prog, ctx, "R2", f, recursive_calls=("self.generic_visit",), domains={d: set(dom) for d in disc} if f is hf else None)
    ctx.expect_min("R2", n, 7)

    # ------------------------------------------------------------------ R3 span provenance
    ctx.rule("R3", "line spans come from the node being handled: endlineno=<node>.end_lineno; lineno=<node>.lineno or the first decorator's line "
                   "when decorators exist; decorator and docstring spans come from their own sub-node; Object.lines slices [lineno-1:endlineno]")
    n_spans = 0
    for f in [m for defs in vis.methods.values() for m in defs]:
        node_param = next((p for p in f.params if p == "node"), None)
        for var, cls, call, st in events.constructions(prog, f):
            if cls == "Module" or node_param is None:
                continue
            n_spans += 1
            end = kwarg(call, "endlineno")
            ctx.ob("R3", key(f, f"{cls}:endlineno"), end is not None and unparse(end) == f"{node_param}.end_lineno",
                   f"{cls}(endlineno=...) is `{unparse(end) if end else None}` (must be {node_param}.end_lineno)", where(f, call))
            ln = kwarg(call, "lineno")
            ctx.ob("R3", key(f, f"{cls}:lineno"), ln is not None and _lineno_ok(f, ln, node_param),
                   f"{cls}(lineno=...) is `{unparse(ln) if ln else None}` (must be {node_param}.lineno, or the first decorator's line under a non-empty decorator list)", where(f, call))
        for c in calls_in(f.node):
            if prog.resolve(f.module, dotted(c.func) or "") == "_griffe.models.Decorator":
                n_spans += 1
                ln, end = kwarg(c, "lineno"), kwarg(c, "endlineno")
                sub = dotted(ln.value) if isinstance(ln, ast.Attribute) else None
                ok = sub is not None and isinstance(ln, ast.Attribute) and ln.attr == "lineno" and isinstance(end, ast.Attribute) and end.attr == "end_lineno" \
                    and dotted(end.value) == sub and c.args and sub in {n.id for n in ast.walk(c.args[0]) if isinstance(n, ast.Name)} | _defs_names(f, c.args[0])
                ctx.ob("R3", key(f, f"Decorator-span:{norm(c, 50)}"), ok, "decorator value and span come from the same decorator node", where(f, c))
    ctx.expect_min("R3", n_spans, 8)
    gd = prog.function("_griffe.agents.nodes.docstrings.get_docstring")
    rets = [r for r in walk_no_nested(gd.node) if isinstance(r, ast.Return) and isinstance(r.value, ast.Tuple) and not all(isinstance(e, ast.Constant) for e in r.value.elts)]
    ok = len(rets) == 1 and len(rets[0].value.elts) == 3 and isinstance(rets[0].value.elts[0], ast.Attribute) and rets[0].value.elts[0].attr == "value" \
        and [getattr(e, "attr", None) for e in rets[0].value.elts[1:]] == ["lineno", "end_lineno"] \
        and len({dotted(e.value) for e in rets[0].value.elts if isinstance(e, ast.Attribute)}) == 1
    ctx.ob("R3", key(gd, "docstring-span"), ok, "docstring text, lineno and end_lineno come from the same string constant", where(gd))
    vgd = prog.function(f"{V}._get_docstring")
    ok = False
    for c in calls_in(vgd.node):
        if prog.resolve(vgd.module, dotted(c.func) or "") == "_griffe.models.Docstring":
            unpack = [s for s in walk_no_nested(vgd.node) if isinstance(s, ast.Assign) and isinstance(s.targets[0], ast.Tuple) and isinstance(s.value, ast.Call)
                      and (dotted(s.value.func) or "") == "get_docstring"]
            if unpack:
                names = [unparse(e) for e in unpack[0].targets[0].elts]
                ok = len(names) == 3 and c.args and unparse(c.args[0]) == names[0] and unparse(kwarg(c, "lineno")) == names[1] and unparse(kwarg(c, "endlineno")) == names[2]
    ctx.ob("R3", key(vgd, "docstring-span-forwarded"), ok, "the (value, lineno, endlineno) triple is forwarded to Docstring in that order", where(vgd))
    ol = prog.function("_griffe.models.Object.lines")
    slices = [n for n in walk_no_nested(ol.node) if isinstance(n, ast.Subscript) and isinstance(n.slice, ast.Slice)]
    ok = len(slices) == 1 and unparse(slices[0].slice.lower).replace(" ", "") == "self.lineno-1" and unparse(slices[0].slice.upper) == "self.endlineno" and slices[0].slice.step is None
    ctx.ob("R3", key(ol, "slice-bounds"), ok, "Object.lines returns lines[lineno-1:endlineno] (1-based inclusive span)", where(ol))

    # ------------------------------------------------------------------ R4 runtime flag
    ctx.rule("R4", "every object built by the visitor carries runtime=not self.type_guarded; the type-guard flag is scoped: saved before it is "
                   "raised, raised for the body of `if TYPE_CHECKING:` only, restored to the saved value on every exit")
    n_rt = 0
    for f in [m for defs in vis.methods.values() for m in defs]:
        for var, cls, call, st in events.constructions(prog, f):
            if cls == "Module":
                continue
            n_rt += 1
            rt = kwarg(call, "runtime")
            ctx.ob("R4", key(f, f"{cls}:runtime:{_branch_of(call)}"), rt is not None and unparse(rt) == "not self.type_guarded",
                   f"{cls}(...) built in {f.name} passes runtime=not self.type_guarded (got {unparse(rt) if rt else 'nothing'})", where(f, call))
    ctx.expect_min("R4", n_rt, 6)
    writers = []
    for f in prog.functions.values():
        for nn in walk_no_nested(f.node):
            if isinstance(nn, ast.Attribute) and nn.attr == "type_guarded" and isinstance(nn.ctx, ast.Store):
                writers.append((f, nn))
    ctx.expect_min("R4", len(writers), 2)
    for f in {w[0].qualname: w[0] for w in writers}.values():
        if f.name == "__init__":
            st = [stmt_of(nn) for ff, nn in writers if ff is f]
            ctx.ob("R4", key(f, "flag-init-false"), all(isinstance(s.value, ast.Constant) and s.value.value is False for s in st), "the flag starts False", where(f))
            continue
        ctx.ob("R4", key(f, "flag-writer"), f.cls is vis and f.name == "visit_if", f"type_guarded is written only by the `if` handler (found in {f.qualname})", where(f))
        cfg = cfg_of(f)
        saves = [x for x in cfg.live_nodes() if x.kind == "stmt" and isinstance(x.stmt, ast.Assign) and unparse(x.stmt.value) == "self.type_guarded"
                 and isinstance(x.stmt.targets[0], ast.Name)]
        ctx.ob("R4", key(f, "flag-saved"), len(saves) == 1, "the previous flag value is saved in a local", where(f))
        if len(saves) != 1:
            continue
        saved = saves[0].stmt.targets[0].id
        stores = [x for x in cfg.live_nodes() if x.kind == "stmt" and isinstance(x.stmt, ast.Assign) and any(unparse(t) == "self.type_guarded" for t in x.stmt.targets)]

        def is_restore(x, saved=saved):
            return x in stores and unparse(x.stmt.value) == saved

        for s in stores:
            ctx.ob("R4", key(f, f"saved-before-store:{norm(s.stmt, 60)}"), cfg.dominated_by_node(s, lambda x: x is saves[0]), "the flag is saved before any store", where(f, s.stmt))
            if is_restore(s):
                continue
            starts = [b for b, lab in cfg.succ[s] if lab != "exc"]
            leak = cfg.reach(starts, avoid=is_restore, normal_only=True) & {cfg.exit}
            ctx.ob("R4", key(f, f"restored-after:{norm(s.stmt, 60)}"), not leak, "after raising the flag every normal exit restores the saved value (a nested `if` cannot un-guard the enclosing block)", where(f, s.stmt))
            # the raised value must be confined to the body
            val = s.stmt.value
            body_only = any(isinstance(c, ast.Compare) and isinstance(c.ops[0], ast.In) and unparse(c.comparators[0]).endswith(".body") for c in ast.walk(val))
            const_true = isinstance(val, ast.Constant) and val.value is True
            if const_true:
                # accepted only if the visit that follows covers the body alone
                nxt = cfg.reach(starts, avoid=is_restore, normal_only=True)
                visits_all = any(x.kind == "stmt" and any(isinstance(c, ast.Call) and dotted(c.func) == "self.generic_visit" for c in walk_no_nested(x.stmt, include_self=True)) for x in nxt if x.stmt is not None)
                body_only = not visits_all
            ctx.ob("R4", key(f, f"body-only:{norm(s.stmt, 60)}"), body_only or unparse(val) == saved,
                   "the flag is raised for the statements of the `if` body only (the else branch runs at runtime)", where(f, s.stmt))
        # guard recognised only for module/class level ifs and both spellings
        spell = {c.value for c in ast.walk(f.node) if isinstance(c, ast.Constant) and isinstance(c.value, str) and "TYPE_CHECKING" in c.value}
        ctx.ob("R8", key(f, "TYPE_CHECKING-spellings"), {"TYPE_CHECKING", "typing.TYPE_CHECKING"} <= spell, f"both spellings of the guard are recognised (found {sorted(spell)})", where(f))

    # ------------------------------------------------------------------ R5 tie-break
    ctx.rule("R5", "later definitions win, except that an assignment inside if/except does not displace an existing member: the `continue` that "
                   "keeps the existing member is dominated by `name in parent.members` and by the if/except-parent test; every other path of the "
                   "loop body reaches set_member")
    cfg = cfg_of(ha)
    loops = [x for x in cfg.live_nodes() if x.kind == "for" and isinstance(x.stmt, ast.For) and unparse(x.stmt.iter) == "names"]
    if len(loops) != 1:
        raise AnalysisError("C01-R5: name loop of handle_attribute not found")
    lp = loops[0]
    tv = unparse(lp.stmt.target)
    body = cfg.reach([b for b, lab in cfg.succ[lp] if lab == "T"], avoid=lambda x: x is lp, normal_only=True)
    conts = [x for x in body if isinstance(x.stmt, ast.Continue)]
    sets = [x for x in body if x.kind == "stmt" and any(isinstance(c, ast.Call) and isinstance(c.func, ast.Attribute) and c.func.attr == "set_member" for c in walk_no_nested(x.stmt, include_self=True))]
    ctx.ob("R5", key(ha, "set_member-in-loop"), len(sets) == 1, "one set_member per extracted name", where(ha, lp.stmt))
    n_keep = 0
    for c in conts:
        facts = cfg.facts_on_all_paths(c)
        texts = {(t, v) for t, v in facts}
        dotted_skip = (f"'.' in {tv}", True) in texts
        present = any(t.replace(" ", "") == f"{tv}inparent.members" and v for t, v in texts)
        cond_parent = any(v and t.startswith("isinstance(node.parent") and "ast.If" in t and "ast.ExceptHandler" in t for t, v in texts)
        if dotted_skip:
            ctx.ob("R5", key(ha, "skip:dotted-name"), True, "dotted targets (x.y = ...) are skipped", where(ha, c.stmt))
            continue
        n_keep += 1
        ctx.ob("R5", key(ha, "keep-existing:dominated"), present and cond_parent,
               "the `continue` that keeps an existing member is reached only when the name already exists AND the assignment sits in an if/except block"
               if present and cond_parent else f"a `continue` skips set_member without both conditions (facts: {sorted(texts)})", where(ha, c.stmt))
    ctx.ob("R5", key(ha, "keep-existing:exists"), n_keep == 1, f"exactly one keep-existing arm (found {n_keep})", where(ha, lp.stmt))
    if sets:
        # every path through the body that is not one of the tabled `continue`s reaches set_member
        starts = [b for b, lab in cfg.succ[lp] if lab == "T"]
        leak = cfg.reach(starts, avoid=lambda x: x in sets or x in conts, normal_only=True)
        ctx.ob("R5", key(ha, "later-wins"), lp not in leak and cfg.exit not in leak, "on every other path the new attribute replaces the member (later definitions win)", where(ha, sets[0].stmt))

    # imports: a later import always rebinds the name, except for the tabled self-alias cases
    for hname, tabled in (("visit_import", ()), ("visit_importfrom", ("is_init_module", "alias_path != "))):
        f = prog.function(f"{V}.{hname}")
        cfg_i = cfg_of(f)
        lps = [x for x in cfg_i.live_nodes() if x.kind == "for" and isinstance(x.stmt, ast.For) and unparse(x.stmt.iter) == "node.names"]
        if len(lps) != 1:
            raise AnalysisError(f"C01-R5: name loop of {hname} not found")
        lpi = lps[0]
        sm = [x for x in cfg_i.live_nodes() if x.kind == "stmt" and any(isinstance(c, ast.Call) and isinstance(c.func, ast.Attribute) and c.func.attr == "set_member"
                                                                       for c in walk_no_nested(x.stmt, include_self=True))]

        def tabled_edge(a, _b, label, tabled=tabled):
            if a.kind != "test" or a.expr is None or label not in "TF":
                return False
            txt = unparse(a.expr)
            # the tabled skip is the branch that does NOT lead to the alias: T of the init-module special case, F of the self-alias guard
            if "is_init_module" in txt and "is_init_module" in tabled and label == "T":
                return True
            return bool(txt.startswith("alias_path != ") and "alias_path != " in tabled and label == "F")

        starts = [b for b, lab in cfg_i.succ[lpi] if lab == "T"]
        leak = cfg_i.reach(starts, avoid=lambda x: x in sm, avoid_edge=tabled_edge, normal_only=True)
        ok = lpi not in leak and cfg_i.exit not in leak
        ctx.ob("R5", key(f, "import-rebinds"), ok,
               "every imported name (re)binds its member: the only skips are the tabled self-alias cases (later statements win, also over an earlier "
               "definition or a type-guarded import of the same name)" if ok else
               "an iteration of the import loop can skip set_member outside the tabled self-alias cases: a later import would not displace the earlier binding",
               where(f, lpi.stmt))

    # ------------------------------------------------------------------ R9 never raising on unsupported node kinds
    ctx.rule("R9", "no KeyError from the node-kind lookup tables (unsupported target / expression kinds) escapes a visitor handler")
    from sa.callgraph import CallGraph
    from sa.excflow import ExcFlow

    def intrinsic(fn, n):
        if isinstance(n, ast.Subscript) and isinstance(n.ctx, ast.Load) and isinstance(n.value, ast.Name) and isinstance(n.slice, ast.Call) and dotted(n.slice.func) == "type":
            tbl = fn.module.assigns.get(n.value.id)
            if isinstance(tbl, ast.Dict):
                return ["KeyError"]
        return []

    cgx = CallGraph(prog)
    ef = ExcFlow(prog, cgx, intrinsic)
    handlers = [m for defs in vis.methods.values() for m in defs]
    ef.compute(handlers)
    n_tables = sum(1 for m in prog.modules.values() for fn_ in prog.functions.values() if fn_.module is m for n in walk_no_nested(fn_.node) if intrinsic(fn_, n))
    ctx.expect_min("R9", n_tables, 4)
    for m in handlers:
        if not (m.name.startswith(("visit", "handle")) or m.name in ("get_module", "generic_visit")):
            continue
        r = ef.escapes(m).get("KeyError")
        ctx.ob("R9", key(m, "no-KeyError"), r is None, f"{m.name} lets no table-lookup KeyError escape" if r is None else
               f"{m.name} can raise KeyError for an unsupported node kind: {r.describe()}", where(m))

    # ------------------------------------------------------------------ R6 visibility tables
    ctx.rule("R6", "is_public / is_private / is_special / is_class_private / is_imported / is_exported / is_wildcard_exposed equal the documented "
                   "decision table on every abstract state (public x alias x module x name class x parent kind x __all__ x imported [x runtime])")
    mix = prog.cls(visibility.MIXIN)
    for pred in visibility.REFS:
        rows = visibility.tabulate(prog, pred)
        ctx.expect_min("R6", len(rows), 400)
        bad = [(st, g, w) for st, g, w in rows if g != w]
        f = prog.lookup_method(mix, pred)[0]
        ctx.ob("R6", f"{pred}|table({len(rows)} rows)", not bad, f"{pred} equals the documented table on {len(rows)} abstract states" if not bad else
               f"{pred} differs from the documented table on {len(bad)} of {len(rows)} states", where(f), {"first_rows": [(visibility.fmt(s), g, w) for s, g, w in bad[:5]]})
        for st, g, w in bad[:3]:
            ctx.ob("R6", f"{pred}|{visibility.fmt(st)}", False, f"{pred}: code gives {g}, documentation says {w} for [{visibility.fmt(st)}]", where(f))

    # ------------------------------------------------------------------ R7 docstring pick
    ctx.rule("R7", "get_docstring: an Expr node yields its own value; otherwise the first body statement unless strict; only string constants count; "
                   "attribute docstrings are looked up on the next sibling with strict=True and a missing sibling means no docstring")
    it = Interp(prog)

    def astobj(kind: str, **attrs) -> ast.AST:
        # real syntax-tree nodes of the stdlib, used as pure data by the evaluator
        return getattr(ast, kind)(**{"lineno": 1, "end_lineno": 9, **attrs})

    const = astobj("Constant", value="doc", lineno=3, end_lineno=4)
    nonstr = astobj("Constant", value=42, lineno=3, end_lineno=3)
    name = astobj("Name", id="x", lineno=3, end_lineno=3)
    for node_kind, strict, first, val in itertools.product(("Expr", "FunctionDef"), (False, True), ("Expr", "Pass", "empty"), ("str", "int", "name")):
        value = {"str": const, "int": nonstr, "name": name}[val]
        if node_kind == "Expr":
            if first != "Expr":
                continue
            node = astobj("Expr", value=value)
            want = ("doc", 3, 4) if val == "str" else (None, None, None)
        else:
            body = {"Expr": [astobj("Expr", value=value)], "Pass": [astobj("Pass")], "empty": []}[first]
            node = astobj("FunctionDef", body=body)
            want = ("doc", 3, 4) if (not strict and first == "Expr" and val == "str") else (None, None, None)
        try:
            got = it.call(gd, node, strict=strict)
        except Raised as r:
            got = f"raises {r.exc}"
        ctx.ob("R7", f"get_docstring|node={node_kind}|strict={strict}|first={first}|value={val}", got == want,
               f"get_docstring(node={node_kind}, strict={strict}, first statement={first}, value={val}) = {got}, expected {want}", where(gd))
    ok = False
    for c in calls_in(ha.node):
        if dotted(c.func) == "self._get_docstring" and c.args and unparse(c.args[0]).replace(" ", "") == "ast_next(node)":
            s = kwarg(c, "strict")
            from sa.aliasderef import enclosing_catch

            ok = isinstance(s, ast.Constant) and s.value is True and "LastNodeError" in enclosing_catch(c)
    ctx.ob("R7", key(ha, "attribute-docstring"), ok, "attribute docstring = the string expression right after the assignment (strict, LastNodeError tolerated)", where(ha))

    # ------------------------------------------------------------------ R8 label tables
    ctx.rule("R8", "decorator label tables are consulted (builtin and stdlib), the overload set contains both typing spellings, and the "
                   "TYPE_CHECKING guard both spellings")
    vm = prog.module("_griffe.agents.visitor")
    to = vm.assigns.get("typing_overload")
    vals = {e.value for e in ast.walk(to) if isinstance(e, ast.Constant)} if to is not None else set()
    ctx.ob("R8", "typing_overload", {"typing.overload", "typing_extensions.overload"} <= vals, f"typing_overload = {sorted(vals)}", f"{vm.relpath}:{getattr(to, 'lineno', 0)}")
    d2l = prog.function(f"{V}.decorators_to_labels")
    used = {n.id for n in ast.walk(d2l.node) if isinstance(n, ast.Name)}
    ctx.ob("R8", key(d2l, "tables-consulted"), {"builtin_decorators", "stdlib_decorators"} <= used, "both decorator tables are consulted", where(d2l))
    bd = vm.assigns.get("builtin_decorators")
    keys = {k.value for k in bd.keys if isinstance(k, ast.Constant)} if isinstance(bd, ast.Dict) else set()
    ctx.ob("R8", "builtin_decorators", {"property", "staticmethod", "classmethod"} <= keys, f"builtin decorator labels: {sorted(keys)}", f"{vm.relpath}:{getattr(bd, 'lineno', 0)}")
    sd = vm.assigns.get("stdlib_decorators")
    if isinstance(sd, ast.Dict):
        for k, v in zip(sd.keys, sd.values):
            if isinstance(k, ast.Constant) and k.value in ("functools.cached_property", "cached_property.cached_property"):
                labs = {e.value for e in ast.walk(v) if isinstance(e, ast.Constant)}
                ctx.ob("R8", f"stdlib_decorators|{k.value}", "property" in labs, f"{k.value} is labelled as a property (so it becomes an Attribute): {sorted(labs)}", f"{vm.relpath}:{k.lineno}")


def _branch_of(node: ast.AST) -> str:
    """Stable discriminator for sibling call sites in one function: the texts of the enclosing if-tests."""
    parts = []
    child = node
    for anc in ancestors(node):
        if isinstance(anc, ast.If):
            parts.append(("T:" if any(child is s or any(child is x for x in ast.walk(s)) for s in anc.body) else "F:") + norm(anc.test, 40))
        if isinstance(anc, (ast.FunctionDef, ast.AsyncFunctionDef)):
            break
        child = anc
    return "|".join(reversed(parts))


def _defs_names(f: FunctionInfo, expr: ast.AST) -> set[str]:
    out: set[str] = set()
    for n in ast.walk(expr):
        if isinstance(n, ast.Name):
            for s in stores_of(f.node, n.id):
                if isinstance(s, ast.Assign):
                    out |= {x.id for x in ast.walk(s.value) if isinstance(x, ast.Name)}
    return out


def _lineno_ok(f: FunctionInfo, ln: ast.expr, node_param: str) -> bool:
    if unparse(ln) == f"{node_param}.lineno":
        return True
    if not isinstance(ln, ast.Name):
        return False
    defs = [s for s in stores_of(f.node, ln.id) if isinstance(s, ast.Assign)]
    if not defs:
        return False
    cfg = cfg_of(f)
    for d in defs:
        t = unparse(d.value).replace(" ", "")
        if t == f"{node_param}.lineno":
            continue
        if t == f"{node_param}.decorator_list[0].lineno":
            nodes = [x for x in cfg.live_nodes() if x.stmt is d]
            if all(cfg.dominated_by_fact(x, lambda a, tr: tr and unparse(a) == f"{node_param}.decorator_list") for x in nodes):
                continue
        return False
    return True
