"""C01 - Static extraction is faithful to the source (structural part).

R1 dispatch coverage, R2 extension-event protocol, R3 span provenance, R4 runtime flag + scoped type-guard flag,
R5 tie-break dominance, R6 visibility decision tables, R7 docstring pick table, R8 label / guard spellings.
"""

from __future__ import annotations

import ast
import itertools

from sa import events
from sa.absint import Interp, Obj, Raised
from sa.cfg import implied
from sa.report import Ctx
from sa.srcmodel import AnalysisError, FunctionInfo, Program, ancestors, dotted, norm, parent, unparse, walk_no_nested
from sa.tables import visibility
from sa.util import calls_in, cfg_of, key, kwarg, node_index, stmt_of, stores_of, where

V = "_griffe.agents.visitor.Visitor"
REQUIRED_HANDLERS = ["Module", "ClassDef", "FunctionDef", "AsyncFunctionDef", "Assign", "AnnAssign", "AugAssign", "Import", "ImportFrom", "If"]


def run(prog: Program, ctx: Ctx) -> None:  # noqa: PLR0912,PLR0915
    vis = prog.cls(V)

    # ------------------------------------------------------------------ R1 dispatch coverage
    ctx.rule("R1", "a visit_<kind> handler exists for every binding statement kind and is named after a real ast class; unknown kinds fall back "
                   "to generic_visit; compound handlers visit their children on every path; the name-extraction tables cover what they dispatch on "
                   "and their KeyError is caught at each call site")
    ast_names = {n.lower(): n for n in dir(ast) if isinstance(getattr(ast, n), type) and issubclass(getattr(ast, n), ast.AST)}
    for k in REQUIRED_HANDLERS:
        ctx.ob("R1", f"handler|{k}", bool(vis.methods.get(f"visit_{k.lower()}")), f"Visitor.visit_{k.lower()} handles ast.{k}", f"{vis.module.relpath}:{vis.node.lineno}")
    for name, defs in vis.methods.items():
        if name.startswith("visit_"):
            ctx.ob("R1", f"real-kind|{name}", name[len("visit_"):] in ast_names, f"{name} is named after an ast node class (otherwise it is never dispatched to)", where(defs[0]))
    visit = prog.function(f"{V}.visit")
    disp = [c for c in calls_in(visit.node) if isinstance(c.func, ast.Call) and dotted(c.func.func) == "getattr"]
    ok = False
    for c in disp:
        g = c.func
        if len(g.args) == 3 and isinstance(g.args[1], ast.JoinedStr) and g.args[1].values and isinstance(g.args[1].values[0], ast.Constant) \
                and g.args[1].values[0].value == "visit_" and unparse(g.args[2]) == "self.generic_visit" and len(c.args) == 1:
            ok = True
    ctx.ob("R1", key(visit, "dispatch"), ok, "visit() dispatches on the node kind with generic_visit as the default (bodies of for/while/try/with are traversed)", where(visit))
    gv = prog.function(f"{V}.generic_visit")
    loops = [n for n in walk_no_nested(gv.node) if isinstance(n, ast.For) and "ast_children" in unparse(n.iter)
             and any(isinstance(c, ast.Call) and dotted(c.func) == "self.visit" for c in ast.walk(n))]
    ctx.ob("R1", key(gv, "visits-all-children"), len(loops) == 1, "generic_visit visits every child of the node", where(gv))
    # compound handlers: visit_if must visit children on every path
    for name in ("visit_if",):
        for f in vis.methods.get(name, []):
            cfg = cfg_of(f)

            def visits(x):
                s = x.stmt
                if s is None:
                    return False
                if x.kind == "for" and unparse(s.iter).replace(" ", "") == f"ast_children({f.params[1] if len(f.params) > 1 else 'node'})" and any(isinstance(c, ast.Call) and dotted(c.func) == "self.visit" for c in ast.walk(s)):
                    return True
                return x.kind == "stmt" and any(isinstance(c, ast.Call) and dotted(c.func) == "self.generic_visit" for c in walk_no_nested(s, include_self=True))

            leak = cfg.reach(cfg.entry, avoid=visits, normal_only=True) & {cfg.exit}
            ctx.ob("R1", key(f, "children-visited-on-every-path"), not leak, f"{name} traverses the statement's children on every path (definitions inside if blocks are extracted)", where(f))
    asg = prog.module("_griffe.agents.nodes.assignments")
    for table, need in (("_node_names_map", {"ast.Assign", "ast.AnnAssign"}), ("_node_name_map", {"ast.Name", "ast.Attribute"})):
        v = asg.assigns.get(table)
        keys = {unparse(k) for k in v.keys} if isinstance(v, ast.Dict) else set()
        ctx.ob("R1", f"table|{table}", need <= keys, f"{table} covers {sorted(need)} (has {sorted(keys)})", f"{asg.relpath}:{getattr(v, 'lineno', 0)}")
    ha = prog.function(f"{V}.handle_attribute")
    n_sites = 0
    for c in calls_in(ha.node):
        if (dotted(c.func) or "") in ("get_names", "get_instance_names"):
            n_sites += 1
            from sa.aliasderef import enclosing_catch

            got = enclosing_catch(c)
            ctx.ob("R1", key(ha, f"KeyError-caught:{norm(c)}@{_branch_of(c)}"), bool(got & {"KeyError", "LookupError", "Exception"}),
                   "an unsupported assignment target (KeyError from the name table) is skipped, not raised", where(ha, c))
    ctx.expect_min("R1", n_sites, 3)

    # ------------------------------------------------------------------ R2 event protocol
    ctx.rule("R2", "per constructed object: on_node -> on_<k>_node -> construct -> attach -> on_instance -> on_<k>_instance -> visit members -> "
                   "on_members -> on_<k>_members; each exactly once, with the object just built")
    n = 0
    # finite domain of the setter/deleter discriminator, read from the function that produces it
    gbp = prog.function(f"{V}.get_base_property")
    dom: set[str] = set()
    for r in walk_no_nested(gbp.node):
        if isinstance(r, ast.Return) and r.value is not None and not (isinstance(r.value, ast.Constant) and r.value.value is None):
            for cmp_ in ast.walk(gbp.node):
                if isinstance(cmp_, ast.Compare) and isinstance(cmp_.ops[0], ast.In) and unparse(cmp_.left) == unparse(r.value) and isinstance(cmp_.comparators[0], (ast.Set, ast.Tuple, ast.List)):
                    dom |= {e.value for e in cmp_.comparators[0].elts if isinstance(e, ast.Constant)}
    if not dom:
        # the finite domain could not be read from the code: only used to prune an infeasible branch, so fall back to the documented one
        ctx.note("R2: discriminator domain of get_base_property not readable from the source; using the documented {setter, deleter}")
        dom = {"setter", "deleter"}
    ctx.ob("R2", key(gbp, "discriminator-domain"), dom == {"setter", "deleter"}, f"get_base_property returns None or one of {sorted(dom)}", where(gbp))
    hf = prog.function(f"{V}.handle_function")
    disc = [s.targets[0].id for s in walk_no_nested(hf.node) if isinstance(s, ast.Assign) and isinstance(s.value, ast.Call)
            and dotted(s.value.func) == "self.get_base_property" and isinstance(s.targets[0], ast.Name)]
    # every method of the visitor that constructs a model object (today: visit_module, visit_classdef, handle_function, handle_attribute,
    # visit_import, visit_importfrom: seven constructions; the two import handlers may share one helper, which leaves six)
    for name, defs in vis.methods.items():
        for f in defs:
            n += events.check_protocol(prog, ctx, "R2", f, recursive_calls=("self.generic_visit",), domains={d: set(dom) for d in disc} if f is hf else None)
    ctx.expect_min("R2", n, 5)

    # R3 (span provenance), R4 (runtime flag) and R5 (tie-break) used to be decided on the shape of the handlers' code; they are now decided by
    # the extraction table R10 on the handlers' behaviour (every definition x context x duplicate), which does not depend on how the code is written.
    gd = prog.function("_griffe.agents.nodes.docstrings.get_docstring")

    # ------------------------------------------------------------------ R9 never raising on unsupported node kinds
    ctx.rule("R9", "no KeyError from the node-kind lookup tables (unsupported target / expression kinds) escapes a visitor handler")
    from sa.callgraph import CallGraph
    from sa.excflow import ExcFlow

    def intrinsic(fn, n):
        if isinstance(n, ast.Subscript) and isinstance(n.ctx, ast.Load) and isinstance(n.value, ast.Name) and isinstance(n.slice, ast.Call) and dotted(n.slice.func) == "type":
            tbl = fn.module.assigns.get(n.value.id)
            if isinstance(tbl, ast.Dict):
                return ["KeyError"]
        return []

    cgx = CallGraph(prog)
    ef = ExcFlow(prog, cgx, intrinsic)
    handlers = [m for defs in vis.methods.values() for m in defs]
    ef.compute(handlers)
    n_tables = sum(1 for m in prog.modules.values() for fn_ in prog.functions.values() if fn_.module is m for n in walk_no_nested(fn_.node) if intrinsic(fn_, n))
    ctx.expect_min("R9", n_tables, 4)
    for m in handlers:
        if not (m.name.startswith(("visit", "handle")) or m.name in ("get_module", "generic_visit")):
            continue
        r = ef.escapes(m).get("KeyError")
        ctx.ob("R9", key(m, "no-KeyError"), r is None, f"{m.name} lets no table-lookup KeyError escape" if r is None else
               f"{m.name} can raise KeyError for an unsupported node kind: {r.describe()}", where(m))

    # ------------------------------------------------------------------ R6 visibility tables
    ctx.rule("R6", "is_public / is_private / is_special / is_class_private / is_imported / is_exported / is_wildcard_exposed equal the documented "
                   "decision table on every abstract state (public x alias x module x name class x parent kind x __all__ x imported [x runtime])")
    mix = prog.cls(visibility.MIXIN)
    for pred in visibility.REFS:
        rows = visibility.tabulate(prog, pred)
        ctx.expect_min("R6", len(rows), 400)
        bad = [(st, g, w) for st, g, w in rows if g != w]
        f = prog.lookup_method(mix, pred)[0]
        ctx.ob("R6", f"{pred}|table({len(rows)} rows)", not bad, f"{pred} equals the documented table on {len(rows)} abstract states" if not bad else
               f"{pred} differs from the documented table on {len(bad)} of {len(rows)} states", where(f), {"first_rows": [(visibility.fmt(s), g, w) for s, g, w in bad[:5]]})
        for st, g, w in bad[:3]:
            ctx.ob("R6", f"{pred}|{visibility.fmt(st)}", False, f"{pred}: code gives {g}, documentation says {w} for [{visibility.fmt(st)}]", where(f))

    # ------------------------------------------------------------------ R7 docstring pick
    ctx.rule("R7", "get_docstring: an Expr node yields its own value; otherwise the first body statement unless strict; only string constants count; "
                   "attribute docstrings are looked up on the next sibling with strict=True and a missing sibling means no docstring")
    it = Interp(prog)

    def astobj(kind: str, **attrs) -> ast.AST:
        # real syntax-tree nodes of the stdlib, used as pure data by the evaluator
        return getattr(ast, kind)(**{"lineno": 1, "end_lineno": 9, **attrs})

    const = astobj("Constant", value="doc", lineno=3, end_lineno=4)
    nonstr = astobj("Constant", value=42, lineno=3, end_lineno=3)
    name = astobj("Name", id="x", lineno=3, end_lineno=3)
    for node_kind, strict, first, val in itertools.product(("Expr", "FunctionDef"), (False, True), ("Expr", "Pass", "empty"), ("str", "int", "name")):
        value = {"str": const, "int": nonstr, "name": name}[val]
        if node_kind == "Expr":
            if first != "Expr":
                continue
            node = astobj("Expr", value=value)
            want = ("doc", 3, 4) if val == "str" else (None, None, None)
        else:
            body = {"Expr": [astobj("Expr", value=value)], "Pass": [astobj("Pass")], "empty": []}[first]
            node = astobj("FunctionDef", body=body)
            want = ("doc", 3, 4) if (not strict and first == "Expr" and val == "str") else (None, None, None)
        try:
            got = it.call(gd, node, strict=strict)
        except Raised as r:
            got = f"raises {r.exc}"
        ctx.ob("R7", f"get_docstring|node={node_kind}|strict={strict}|first={first}|value={val}", got == want,
               f"get_docstring(node={node_kind}, strict={strict}, first statement={first}, value={val}) = {got}, expected {want}", where(gd))
    # (which statement handle_attribute hands to get_docstring - the next one of the same block, strictly a string - is decided on generated modules by
    # the extraction table R10: attribute docstrings, strings opening an else / except / finally block, last statements)

    # ------------------------------------------------------------------ R8 label tables
    ctx.rule("R8", "decorator label tables are consulted (builtin and stdlib), the overload set contains both typing spellings, and the "
                   "TYPE_CHECKING guard both spellings")
    vm = prog.module("_griffe.agents.visitor")
    to = vm.assigns.get("typing_overload")
    vals = {e.value for e in ast.walk(to) if isinstance(e, ast.Constant)} if to is not None else set()
    ctx.ob("R8", "typing_overload", {"typing.overload", "typing_extensions.overload"} <= vals, f"typing_overload = {sorted(vals)}", f"{vm.relpath}:{getattr(to, 'lineno', 0)}")
    d2l = prog.function(f"{V}.decorators_to_labels")
    used = {n.id for n in ast.walk(d2l.node) if isinstance(n, ast.Name)}
    ctx.ob("R8", key(d2l, "tables-consulted"), {"builtin_decorators", "stdlib_decorators"} <= used, "both decorator tables are consulted", where(d2l))
    bd = vm.assigns.get("builtin_decorators")
    keys = {k.value for k in bd.keys if isinstance(k, ast.Constant)} if isinstance(bd, ast.Dict) else set()
    ctx.ob("R8", "builtin_decorators", {"property", "staticmethod", "classmethod"} <= keys, f"builtin decorator labels: {sorted(keys)}", f"{vm.relpath}:{getattr(bd, 'lineno', 0)}")
    sd = vm.assigns.get("stdlib_decorators")
    if isinstance(sd, ast.Dict):
        for k, v in zip(sd.keys, sd.values):
            if isinstance(k, ast.Constant) and k.value in ("functools.cached_property", "cached_property.cached_property"):
                labs = {e.value for e in ast.walk(v) if isinstance(e, ast.Constant)}
                ctx.ob("R8", f"stdlib_decorators|{k.value}", "property" in labs, f"{k.value} is labelled as a property (so it becomes an Attribute): {sorted(labs)}", f"{vm.relpath}:{k.lineno}")

    # ------------------------------------------------------------------ R10 extraction table
    from sa.tables import extraction

    ctx.rule("R10", "extraction table: the visitor evaluated on generated modules (every supported definition in every block context at module and "
                    "class level, instance attributes in __init__, every ordered pair of definitions of one name with the second in a plain or "
                    "conditional position) yields one member per bound name with the kind of the surviving binding, line span (decorators "
                    "included) that slices out the definition, decorators and their spans, docstring text and span, attribute docstrings, "
                    "runtime flag, right parent; every object announced exactly once, parent first, members-complete after the last member")
    ex = extraction.Extraction(prog)
    n10 = 0
    seen10: set[str] = set()
    gm = prog.function(f"{V}.get_module")
    for label, src in extraction.corpus(ctx.tier == "thorough"):
        res = ex.visit(src)
        n10 += 1
        ref = extraction.reference(src)
        problems = [res] if isinstance(res, str) else extraction.compare(src, ref, *res)
        if not problems and "m.__all__" in ref and isinstance(ref["m.__all__"]["node"], ast.Assign):
            # the module's exports are what the surviving `__all__` assignment lists
            try:
                want_all = list(ast.literal_eval(ref["m.__all__"]["node"].value))
            except ValueError:
                want_all = None
            if want_all is not None and ex.last_exports != want_all:
                problems = [f"m: exports are {ex.last_exports}, the `__all__` member that survives (line {ref['m.__all__']['lineno']}) lists {want_all}"]
        if problems:
            cls_key = f"{label.split('|')[0]}|{problems[0].split(': ', 1)[-1][:70]}"
            if cls_key in seen10:
                continue
            seen10.add(cls_key)
            ctx.ob("R10", f"extract-class|{cls_key}", False, f"{label}: {problems[0]}" + (f" (+{len(problems) - 1} more)" if len(problems) > 1 else ""), where(gm), {"source": src, "problems": problems[:6]})
        else:
            ctx.ob("R10", f"extract|{label}", True, f"{label}: members, kinds, spans, docstrings, flags and announcements agree with the source", where(gm))
    ctx.expect_min("R10", n10, 400)
    ctx.analysed["extraction_modules"] = n10


    # ------------------------------------------------------------------ R11 every registered extension hears every event
    ctx.rule("R11", "Extensions.call(event) reaches the hook of that name on every registered extension, whether the extension's class defines the "
                    "hook itself or inherits it from a base class")
    from sa.absint import Interp as _Interp11, Obj as _Obj11, Raised as _Raised11

    it11 = _Interp11(prog)
    base_ext = prog.cls("_griffe.extensions.base.Extension")
    exts_cls = prog.cls("_griffe.extensions.base.Extensions")
    hooks = sorted(n_ for n_ in base_ext.methods if n_.startswith("on_"))
    heard: list[tuple[str, str]] = []
    for h_ in hooks:
        it11.stubs[f"_griffe.extensions.base.Extension.{h_}"] = (lambda h_: (lambda _i, self_, **_k: heard.append((h_, self_.label))))(h_)
    sub = next((c_ for c_ in prog.subclasses(base_ext) if c_ is not base_ext), None)  # an extension that inherits most hooks (the built-in one)
    n11 = 0
    if sub is None:
        raise AnalysisError("C01-R11: no in-repository subclass of Extension to register")
    own_hooks = {n_ for n_ in sub.methods if n_.startswith("on_")}
    try:
        e1, e2 = _Obj11(base_ext, {}, label="first"), _Obj11(sub, {}, label="second (inherits its hooks)")
        reg = it11._construct(exts_cls, [e1, e2], {})
        for h_ in hooks:
            if h_ in own_hooks:
                continue
            heard.clear()
            it11.steps = 0
            it11.call(prog.lookup_method(exts_cls, "call")[0], reg, h_, node=None, agent=None)
            n11 += 1
            ctx.ob("R11", f"event|{h_}", heard == [(h_, "first"), (h_, "second (inherits its hooks)")],
                   f"call({h_!r}) with two extensions registered (the second one inherits {h_}): heard by {[l_ for _h, l_ in heard]}, in that order", where(prog.lookup_method(exts_cls, "call")[0]))
    except _Raised11 as r:
        ctx.ob("R11", "event|registry", False, f"registering two extensions and calling an event raises {r.exc}", where(prog.lookup_method(exts_cls, "call")[0]))
    ctx.expect_min("R11", n11, 10)


    # ------------------------------------------------------------------ R12 what the `__all__` statements of a module leave in its exports
    from sa.rules.C05 import exports_table

    exports_table(prog, ctx, "R12")


def _branch_of(node: ast.AST) -> str:
    """Stable discriminator for sibling call sites in one function: the texts of the enclosing if-tests."""
    parts = []
    child = node
    for anc in ancestors(node):
        if isinstance(anc, ast.If):
            parts.append(("T:" if any(child is s or any(child is x for x in ast.walk(s)) for s in anc.body) else "F:") + norm(anc.test, 40))
        if isinstance(anc, (ast.FunctionDef, ast.AsyncFunctionDef)):
            break
        child = anc
    return "|".join(reversed(parts))


def _defs_names(f: FunctionInfo, expr: ast.AST) -> set[str]:
    out: set[str] = set()
    for n in ast.walk(expr):
        if isinstance(n, ast.Name):
            for s in stores_of(f.node, n.id):
                if isinstance(s, ast.Assign):
                    out |= {x.id for x in ast.walk(s.value) if isinstance(x, ast.Name)}
    return out


def _lineno_ok(f: FunctionInfo, ln: ast.expr, node_param: str) -> bool:
    if unparse(ln) == f"{node_param}.lineno":
        return True
    if not isinstance(ln, ast.Name):
        return False
    defs = [s for s in stores_of(f.node, ln.id) if isinstance(s, ast.Assign)]
    if not defs:
        return False
    cfg = cfg_of(f)
    for d in defs:
        t = unparse(d.value).replace(" ", "")
        if t == f"{node_param}.lineno":
            continue
        if t == f"{node_param}.decorator_list[0].lineno":
            nodes = [x for x in cfg.live_nodes() if x.stmt is d]
            if all(cfg.dominated_by_fact(x, lambda a, tr: tr and unparse(a) == f"{node_param}.decorator_list") for x in nodes):
                continue
        return False
    return True
