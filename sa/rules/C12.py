"""C12 - Docstring parsers are total and terminating on arbitrary text (structural part).

R1 loop progress (difference-bound analysis of every while loop's cursor, with reader summaries),
R2 no escaping exception from catalogued partial operations:
   a) line indexing `L[x + c]` bounded on every path (slack analysis, caller-established preconditions followed),
   b) annotation-element access (`.slice.elements[...]`) inside handlers for AttributeError and IndexError,
   c) `docstring.parent.<...>` chains guarded (parent may be None / any object kind),
   d) string methods on a section value only for text sections,
   e) tuple-unpacking of `.split(sep, n)` handled,
   f) compile() of docstring text handled for every way CPython rejects input,
R3 dispatch totality, R4 purity (no mutation of the docstring or its parent), R5 regex safety.
"""

from __future__ import annotations

import ast
import re

from sa.absint import Env, Interp
from sa.aliasderef import enclosing_catch
from sa.bounds import Progress, Slack, linear
from sa.callgraph import CallGraph
from sa.cfg import implied
from sa.regexsafe import findings as regex_findings
from sa.report import Ctx
from sa.shape import Shapes, guard_len, module_int_consts
from sa.srcmodel import AnalysisError, FunctionInfo, Program, ancestors, dotted, norm, parent, unparse, walk_no_nested
from sa.util import calls_in, cfg_of, key, node_index, stmt_of, stores_of, where

PARSER_MODULES = ("_griffe.docstrings.google", "_griffe.docstrings.numpy", "_griffe.docstrings.sphinx", "_griffe.docstrings.utils", "_griffe.docstrings.parsers")
MUTATORS = {"append", "extend", "insert", "pop", "remove", "clear", "sort", "reverse", "update", "setdefault", "add", "discard", "popitem", "__setitem__", "__delitem__"}
COMPILE_RAISES = {"SyntaxError", "RecursionError", "MemoryError"}


def _short_circuit_facts(site: ast.AST) -> list[tuple[ast.expr, bool]]:
    out = []
    child = site
    cur = parent(site)
    while cur is not None and not isinstance(cur, ast.stmt):
        if isinstance(cur, ast.BoolOp):
            pos = next((i for i, v in enumerate(cur.values) if v is child), None)
            if pos:
                for prev in cur.values[:pos]:
                    out += implied(prev, isinstance(cur.op, ast.And))
        if isinstance(cur, ast.IfExp) and child is not cur.test:
            out += implied(cur.test, child is cur.body)
        child = cur
        cur = parent(cur)
    return out


def run(prog: Program, ctx: Ctx) -> None:  # noqa: PLR0912,PLR0915
    fns = [f for f in prog.functions.values() if f.module.name in PARSER_MODULES]
    cg = CallGraph(prog)

    # ------------------------------------------------------------------ R1 loop progress
    ctx.rule("R1", "every `while` loop of the parsers advances its cursor by at least one on every path back to the loop head (reader calls "
                   "contribute their summarised lower bound: returned offset >= offset argument + k)")
    pr = Progress(prog)
    n_loops = 0
    for f in fns:
        cfg = cfg_of(f)
        for n in cfg.live_nodes():
            if n.kind == "test" and isinstance(n.stmt, ast.While):
                n_loops += 1
                res = pr.loop_progress(f, n)
                if not res:
                    ctx.ob("R1", key(f, f"loop:{norm(n.stmt.test, 70)}"), False, "while loop without a cursor variable: termination not evident", where(f, n.stmt))
                for x, ok, detail in res:
                    ctx.ob("R1", key(f, f"loop:{norm(n.stmt.test, 70)}|{x}"), ok, detail, where(f, n.stmt))
    ctx.expect_min("R1", n_loops, 12)
    ctx.analysed["reader_summaries"] = {k.split(".")[-1]: v for k, v in pr._summary.items() if v is not None}

    # ------------------------------------------------------------------ R2a line indexing
    ctx.rule("R2", "no exception escapes through the catalogued partial operations: bounded line indexing, guarded annotation-element access, "
                   "guarded docstring.parent chains, string methods only on text sections, handled split-unpacking, handled compile()")
    n_sites = 0
    cache: dict[tuple[str, tuple], Slack] = {}

    def slack(f: FunctionInfo, assume: dict | None = None) -> Slack:
        k = (f.qualname, tuple(sorted((assume or {}).items())))
        if k not in cache:
            cache[k] = Slack(prog, f, assume, lists={"lines"} if assume else None)
        return cache[k]

    def callers_establish(g: FunctionInfo, param: str, need: int, depth: int = 0) -> tuple[bool, str]:
        """Every call site of g passes for `param` a cursor with slack >= need (recursively through forwarding callers)."""
        if depth > 4:
            return False, "precondition chain too deep"
        sites = []
        for f in fns:
            for c in calls_in(f.node):
                if g in pr._callees(f, c):
                    sites.append((f, c))
        if not sites:
            return False, f"no caller of {g.name} found to establish `{param} + {need} < len(lines)`"
        for f, c in sites:
            arg = None
            for kw in c.keywords:
                if kw.arg == param:
                    arg = kw.value
            if arg is None:
                a = g.node.args
                pos = [x.arg for x in (*a.posonlyargs, *a.args)]
                if param in pos and pos.index(param) < len(c.args):
                    arg = c.args[pos.index(param)]
            if arg is None:
                return False, f"call `{norm(c, 60)}` in {f.name} does not pass `{param}`"
            s0 = slack(f).slack_of(c, arg)
            if s0 is not None and s0 >= need:
                continue
            lin = linear(arg)
            if lin is not None and lin[0] in f.params:
                # forwarded parameter: the obligation moves to f's callers
                inner = slack(f, {(lin[0], "lines"): need + lin[1]}).slack_of(c, arg)
                if inner is not None and inner >= need:
                    ok, why = callers_establish(f, lin[0], need + lin[1], depth + 1)
                    if ok:
                        continue
                    return False, why
            return False, f"`{norm(c, 60)}` in {f.name} passes `{unparse(arg)}` without `{unparse(arg)} + {need} < len(lines)` being known"
        return True, f"established by all {len(sites)} call sites"

    for f in fns:
        sl = slack(f)
        for site, x, c, ok, why in sl.index_sites():
            n_sites += 1
            k = key(f, f"index:{norm(site, 50)}@{_branch_key(site)}")
            if ok:
                ctx.ob("R2", k, True, why, where(f, site))
                continue
            # is the cursor a (copy of a) parameter whose bound the callers establish?
            done = False
            for p in f.params:
                sl2 = slack(f, {(p, unparse(site.value)): c})
                again = [r for r in sl2.index_sites() if r[0] is site]
                if again and again[0][3]:
                    good, detail = callers_establish(f, p, c)
                    ctx.ob("R2", k, good, f"precondition `{p} + {c} < len(lines)` of {f.name}: {detail}", where(f, site))
                    done = True
                    break
            if not done:
                ctx.ob("R2", k, False, f"possible IndexError: {why}", where(f, site))
    ctx.expect_min("R2", n_sites, 25)

    # ------------------------------------------------------------------ R2g constant indexes into lists built by the parsers
    # `X[c]` with a constant c: X has more than c elements by construction (displays, split(sep), items produced by the block readers - followed
    # through return values, loop targets, tuple unpacking and parameters), or a dominating test / short-circuit operand / IndexError handler says so.
    shapes = Shapes(prog, fns)
    n_const = 0
    for f in fns:
        idx = node_index(f)
        cfg = cfg_of(f)
        for n in walk_no_nested(f.node):
            if not (isinstance(n, ast.Subscript) and isinstance(n.ctx, ast.Load)):
                continue
            sl, neg = n.slice, False
            if isinstance(sl, ast.UnaryOp) and isinstance(sl.op, ast.USub):
                sl, neg = sl.operand, True
            if not (isinstance(sl, ast.Constant) and isinstance(sl.value, int) and not isinstance(sl.value, bool)):
                continue
            if isinstance(n.value, ast.Attribute) and n.value.attr == "elements":
                continue  # annotation elements: R2b
            need = sl.value if neg else sl.value + 1
            if need <= 0:
                continue
            n_const += 1
            subject = unparse(n.value)
            k = key(f, f"const-index:{norm(n, 50)}@{_branch_key(n)}")
            sh = shapes.expr(f, n.value, n)
            if sh is not None and sh.minlen >= need:
                ctx.ob("R2", k, True, f"`{subject}` has at least {sh.minlen} element(s) by construction", where(f, n))
                continue
            if enclosing_catch(n) & {"IndexError", "LookupError", "Exception", "BaseException"}:
                ctx.ob("R2", k, True, "inside a handler for IndexError", where(f, n))
                continue
            facts = [(unparse(a), t) for a, t in _short_circuit_facts(n)]
            consts = module_int_consts(f.module)
            per_node = [guard_len(facts + cfg.facts_on_all_paths(cn), subject, consts) for cn in idx.get(id(n), [])]
            lo = min(per_node) if per_node else guard_len(facts, subject, consts)
            ok = lo >= need
            ctx.ob("R2", k, ok, f"`{subject}` is known to have at least {lo} element(s) here (dominating test)" if ok else
                   f"possible IndexError: `{unparse(n)}` needs {need} element(s); by construction `{subject}` has at least "
                   f"{sh.minlen if sh is not None else 'an unknown number of'}, and no test or handler covers the difference", where(f, n))
    ctx.expect_min("R2", n_const, 40)

    # ------------------------------------------------------------------ R2b annotation elements
    n_el = 0
    for f in fns:
        for n in walk_no_nested(f.node):
            if isinstance(n, ast.Subscript) and isinstance(n.ctx, ast.Load) and isinstance(n.value, ast.Attribute) and n.value.attr == "elements":
                n_el += 1
                got = enclosing_catch(n)
                ok = bool(got & {"Exception", "BaseException"}) or ({"AttributeError", "IndexError"} <= got)
                ctx.ob("R2", key(f, f"elements:{norm(n, 50)}@{_branch_key(n)}"), ok,
                       "annotation element access handled for AttributeError (not a subscript expression) and IndexError (fewer elements than items)" if ok else
                       f"`{unparse(n)}` is only protected against {sorted(got) or 'nothing'}: more documented items than annotation elements raise IndexError "
                       "out of the parser", where(f, n))
    ctx.expect_min("R2", n_el, 4)

    # ------------------------------------------------------------------ R2c docstring.parent chains
    n_par = 0
    for f in fns:
        idx = node_index(f)
        cfg = cfg_of(f)
        for n in walk_no_nested(f.node):
            if isinstance(n, ast.Attribute) and isinstance(n.ctx, ast.Load) and unparse(n.value) == "docstring.parent":
                # an access *through* the parent
                n_par += 1
                got = enclosing_catch(n)
                if got & {"AttributeError", "Exception", "BaseException"}:
                    ctx.ob("R2", key(f, f"parent:{norm(n, 50)}@{_branch_key(n)}"), True, "inside a handler for AttributeError (parent may be None)", where(f, n))
                    continue
                facts = [(unparse(a), t) for a, t in _short_circuit_facts(n)]
                for cn in idx.get(id(n), []):
                    facts += cfg.facts_on_all_paths(cn)
                # inside the handler of a try whose body already dereferenced the parent and raised something other than AttributeError
                for anc in ancestors(n):
                    if isinstance(anc, ast.ExceptHandler) and anc.type is not None and "AttributeError" not in unparse(anc.type):
                        tr_ = parent(anc)
                        if isinstance(tr_, ast.Try) and any(isinstance(x, ast.Attribute) and unparse(x.value) == "docstring.parent" for b in tr_.body for x in ast.walk(b)):
                            facts.append(("docstring.parent is not None", True))
                nonnull = any((t == "docstring.parent is not None" and tr) or (t == "docstring.parent" and tr) or (t == "docstring.parent is None" and not tr) for t, tr in facts)
                ctx.ob("R2", key(f, f"parent:{norm(n, 50)}@{_branch_key(n)}"), nonnull,
                       "dominated by a test that the docstring has a parent" if nonnull else
                       f"`{unparse(n)}` dereferences docstring.parent, which may be None, outside any AttributeError handler or non-None test", where(f, n))
    ctx.expect_min("R2", n_par, 20)

    # ------------------------------------------------------------------ R2d polymorphic section value
    n_val = 0
    STR_METHODS = {"lstrip", "rstrip", "strip", "split", "splitlines", "startswith", "endswith", "lower", "upper", "replace", "partition", "rpartition", "removeprefix", "removesuffix", "join"}
    for f in fns:
        idx = node_index(f)
        cfg = cfg_of(f)
        for n in walk_no_nested(f.node):
            if isinstance(n, ast.Attribute) and n.attr in STR_METHODS and isinstance(n.value, ast.Attribute) and n.value.attr == "value" \
                    and isinstance(n.value.value, ast.Subscript) and "sections" in unparse(n.value.value.value):
                n_val += 1
                sec = unparse(n.value.value)
                facts = [(unparse(a), t) for a, t in _short_circuit_facts(n)]
                for cn in idx.get(id(n), []):
                    facts += cfg.facts_on_all_paths(cn)
                is_text = any(tr and t.replace(" ", "") in (f"{sec}.kindisDocstringSectionKind.text", f"isinstance({sec},DocstringSectionText)", f"{sec}.kind==DocstringSectionKind.text") for t, tr in facts)
                ctx.ob("R2", key(f, f"section-value:{norm(n, 50)}"), is_text,
                       "string method on a section value, dominated by a test that it is a text section" if is_text else
                       f"`{unparse(n)}`: a section value is a string only for text sections (lists / element objects otherwise): AttributeError", where(f, n))
    ctx.expect_min("R2", n_val, 1)

    # ------------------------------------------------------------------ R2e split unpack
    n_sp = 0
    for f in fns:
        for s in walk_no_nested(f.node):
            if isinstance(s, ast.Assign) and isinstance(s.targets[0], ast.Tuple) and isinstance(s.value, ast.Call) and isinstance(s.value.func, ast.Attribute) \
                    and s.value.func.attr in ("split", "rsplit"):
                n_sp += 1
                got = enclosing_catch(s)
                sep = s.value.args[0] if s.value.args else None
                facts = []
                for cn in node_index(f).get(id(s.value), []):
                    facts += cfg_of(f).facts_on_all_paths(cn)
                guarded = sep is not None and any(tr and t.replace(" ", "") == f"{unparse(sep)}in{unparse(s.value.func.value)}".replace(" ", "") for t, tr in facts)
                ok = bool(got & {"ValueError", "Exception", "BaseException"}) or guarded
                ctx.ob("R2", key(f, f"split-unpack:{norm(s, 60)}"), ok, "tuple-unpacking of split() is handled (ValueError) or dominated by a membership test of the separator" if ok else
                       f"`{norm(s, 80)}` raises ValueError when the separator is absent", where(f, s))
    ctx.expect_min("R2", n_sp, 4)

    # ------------------------------------------------------------------ R2f compile
    n_cp = 0
    for f in fns:
        for c in calls_in(f.node):
            if isinstance(c.func, ast.Name) and c.func.id == "compile":
                n_cp += 1
                got = enclosing_catch(c)
                ok = bool(got & {"Exception", "BaseException"}) or COMPILE_RAISES <= got
                ctx.ob("R2", key(f, "compile-handled"), ok, "compile() of docstring text is handled for SyntaxError, RecursionError and MemoryError" if ok else
                       f"compile() of docstring text only handles {sorted(got)}: input the parser finds too deeply nested raises "
                       f"{sorted(COMPILE_RAISES - got)} out of the docstring parser", where(f, c))
                # text that cannot be encoded (a lone surrogate) makes compile() raise UnicodeEncodeError, a ValueError
                ok_u = bool(got & {"Exception", "BaseException", "ValueError", "UnicodeError", "UnicodeEncodeError"})
                ctx.ob("R2", key(f, "compile-unencodable"), ok_u, "compile() of docstring text is handled for text that cannot be encoded (UnicodeEncodeError / ValueError)"
                       if ok_u else f"compile() of docstring text only handles {sorted(got)}: a lone surrogate in an annotation raises UnicodeEncodeError out of the docstring parser",
                       where(f, c))
    ctx.expect_min("R2", n_cp, 1)

    # ------------------------------------------------------------------ R2h member lookups through the parent
    from sa.aliasderef import AliasDeref
    from sa.excflow import ExcFlow

    ef = ExcFlow(prog, cg, None)
    getitem = prog.lookup_method(prog.cls("_griffe.models.Object"), "__getitem__")
    ef.compute(getitem)
    lookup_raises = {"KeyError"} | {e for g in getitem for e in ef.escapes(g)}  # what `parent[name]` can raise: a missing member, an empty name, a broken alias on the way
    ad = AliasDeref(prog, cg)
    n_lk = 0
    for f in fns:
        for n in walk_no_nested(f.node):
            if isinstance(n, ast.Subscript) and isinstance(n.ctx, ast.Load) and unparse(n.value) == "docstring.parent":
                n_lk += 1
                needed = set(lookup_raises)
                par = parent(n)
                if isinstance(par, ast.Attribute) and par.value is n and par.attr in ad.raising:
                    needed |= {"AliasResolutionError", "CyclicAliasError"}  # the member found may be an imported name
                got = enclosing_catch(n)
                missing = set() if got & {"Exception", "BaseException"} else {e for e in needed if e not in got and not (e in ("AliasResolutionError", "CyclicAliasError") and got & {"GriffeError"})}
                ctx.ob("R2", key(f, f"member-lookup:{norm(n, 50)}"), not missing,
                       f"`{unparse(par if isinstance(par, ast.Attribute) else n)}` is handled for everything the lookup can raise ({sorted(needed)})" if not missing else
                       f"`{unparse(par if isinstance(par, ast.Attribute) else n)}` is only protected against {sorted(got)}: {sorted(missing)} "
                       "(an empty member name, a member that is an unresolvable import) escape the docstring parser", where(f, n))
    ctx.expect_min("R2", n_lk, 3)
    # `docstring.parent.parameters`: for a class this goes through its `__init__` member, which can be a name imported in the class body
    cparams = prog.lookup_method(prog.cls("_griffe.models.Class"), "parameters")
    ef.compute(cparams)
    params_raises = {e for g in cparams for e in ef.escapes(g) if e in ("AliasResolutionError", "CyclicAliasError")}
    n_pp = 0
    for f in fns:
        for n in walk_no_nested(f.node):
            if isinstance(n, ast.Attribute) and n.attr == "parameters" and isinstance(n.ctx, ast.Load) and unparse(n.value) == "docstring.parent":
                n_pp += 1
                got = enclosing_catch(n)
                missing = set() if got & {"Exception", "BaseException", "GriffeError"} else params_raises - got
                ctx.ob("R2", key(f, f"parent-parameters:{_branch_key(n)}"), not missing,
                       "`docstring.parent.parameters` cannot raise an alias error here" if not missing else
                       f"`docstring.parent.parameters` is only protected against {sorted(got)}: for a class whose `__init__` is an unresolvable import, "
                       f"Class.parameters raises {sorted(missing)} out of the docstring parser", where(f, n))
    ctx.expect_min("R2", n_pp, 6)

    # ------------------------------------------------------------------ R2i helpers that promise not to raise
    repo_exceptions = {c.name for c in prog.classes.values() if c.module.name == "_griffe.exceptions"}
    for q in ("_griffe.expressions.safe_get_expression", "_griffe.docstrings.utils.parse_docstring_annotation", "_griffe.docstrings.utils.docstring_warning"):
        hf = prog.function(q)
        ef.compute([hf])
        esc = {e: r for e, r in ef.escapes(hf).items() if e in repo_exceptions}
        ctx.ob("R2", key(hf, "no-griffe-exception-escapes"), not esc,
               "no griffe exception can escape this helper (may-raise summary over the call graph)" if not esc else
               "; ".join(f"{e} raised at {r.fn}:{r.line} reaches the caller via {' -> '.join(x.split('.')[-1] for x in r.via)}" for e, r in sorted(esc.items()))
               + ": it escapes every docstring parser that uses the helper", where(hf))

    # ------------------------------------------------------------------ R3 dispatch totality
    ctx.rule("R3", "every section kind a title maps to has a reader; every Parser member has a parser function; the reader lookup is dominated by "
                   "the membership test of the title")
    for modname in ("_griffe.docstrings.google", "_griffe.docstrings.numpy"):
        m = prog.module(modname)
        sk, sr = m.assigns.get("_section_kind"), m.assigns.get("_section_reader")
        if not isinstance(sk, ast.Dict) or not isinstance(sr, ast.Dict):
            raise AnalysisError(f"C12-R3: section tables of {modname} not found")
        kinds = {unparse(v) for v in sk.values}
        readers = {unparse(k) for k in sr.keys}
        for kd in sorted(kinds):
            ctx.ob("R3", f"{modname.split('.')[-1]}|reader|{kd}", kd in readers, f"{kd} has a reader in {modname.split('.')[-1]}._section_reader", f"{m.relpath}:{sr.lineno}")
        for k_, v_ in zip(sr.keys, sr.values):
            full = prog.resolve(m, dotted(v_) or "")
            ctx.ob("R3", f"{modname.split('.')[-1]}|reader-exists|{unparse(k_)}", full in prog.functions, f"reader {unparse(v_)} exists", f"{m.relpath}:{k_.lineno}")
        main = prog.function(f"{modname}.parse_{modname.split('.')[-1]}")
        cfg = cfg_of(main)
        for n in walk_no_nested(main.node):
            if isinstance(n, ast.Subscript) and isinstance(n.ctx, ast.Load) and unparse(n.value) == "_section_kind":
                keytxt = unparse(n.slice)
                ok = False
                for cn in node_index(main).get(id(n), []):
                    facts = cfg.facts_on_all_paths(cn)
                    direct = any(tr and t.replace(" ", "") == f"{keytxt}in_section_kind".replace(" ", "") for t, tr in facts)
                    named = False
                    for t, tr in facts:
                        if tr and t.isidentifier():
                            defs = [s for s in stores_of(main.node, t) if isinstance(s, ast.Assign)]
                            if len(defs) == 1 and unparse(defs[0].value).replace(" ", "") == f"{keytxt}in_section_kind".replace(" ", ""):
                                named = True
                    ok = direct or named
                ctx.ob("R3", f"{modname.split('.')[-1]}|lookup-guarded", ok, "the section-kind lookup is dominated by the membership test of the same title", where(main, n))
    pm = prog.module("_griffe.docstrings.parsers")
    ptab = pm.assigns.get("parsers")
    pk = {unparse(k_).split(".")[-1] for k_ in ptab.keys} if isinstance(ptab, ast.Dict) else set()
    members = {mn for mn, v in prog.cls("_griffe.enumerations.Parser").class_attrs.items() if isinstance(v, ast.Constant)}
    ctx.ob("R3", "parsers-total", members <= pk, f"parsers table covers every Parser member ({sorted(members)} vs {sorted(pk)})", f"{pm.relpath}:{getattr(ptab, 'lineno', 0)}")

    # ------------------------------------------------------------------ R4 purity
    ctx.rule("R4", "the parsers never mutate the docstring or its parent: no store, deletion or mutating-method call rooted at the `docstring` "
                   "parameter (or at `self` in Docstring.parse / parsed / lines); Docstring.lines is a fresh list and the stored value is cleaned "
                   "and right-stripped (last line not blank)")
    dcls = prog.cls("_griffe.models.Docstring")
    scope = list(fns) + [m for name in ("parse", "parsed", "lines", "source") for m in dcls.methods.get(name, [])]
    n_checked = 0
    for f in scope:
        roots = {"docstring"} if f.cls is not dcls else {"self"}
        aliases: set[str] = set()
        # locals bound once to a mutable attribute of the docstring are aliases of it (`opts = docstring.parser_options`)
        for s in walk_no_nested(f.node):
            if isinstance(s, ast.Assign) and isinstance(s.targets[0], ast.Name) and isinstance(s.value, ast.Attribute):
                r = _root_name(s.value)
                if r in roots and s.value.attr not in ("lines", "value", "lineno", "endlineno", "parser") and len(stores_of(f.node, s.targets[0].id)) == 1 \
                        and not (s.value.attr == "parent"):
                    aliases.add(s.targets[0].id)
        roots = roots | aliases
        for n in walk_no_nested(f.node):
            bad = None
            if isinstance(n, (ast.Attribute, ast.Subscript)) and isinstance(n.ctx, (ast.Store, ast.Del)) and _root_name(n) in roots:
                if not (isinstance(n, ast.Attribute) and isinstance(n.value, ast.Name) and n.value.id not in ("docstring", "self")):
                    bad = f"store to `{unparse(n)}`"
                elif n.value.id in roots:
                    bad = f"store to `{unparse(n)}`"
            elif isinstance(n, ast.Call) and isinstance(n.func, ast.Attribute) and n.func.attr in MUTATORS and _root_name(n.func.value) in roots \
                    and (isinstance(n.func.value, (ast.Attribute, ast.Subscript)) or (isinstance(n.func.value, ast.Name) and n.func.value.id in aliases)):
                bad = f"mutating call `{norm(n, 60)}`"
            elif isinstance(n, ast.AugAssign) and _root_name(n.target) in roots and not isinstance(n.target, ast.Name):
                bad = f"augmented assignment to `{unparse(n.target)}`"
            if bad:
                ctx.ob("R4", key(f, f"mutation:{norm(n, 60)}"), False, f"{f.name}: {bad} modifies the docstring (or its parent) while parsing", where(f, n))
        n_checked += 1
        ctx.ob("R4", key(f, "pure"), True, f"{f.name}: no store / deletion / mutating call rooted at the docstring", where(f), nontrivial=False)
    ctx.expect_min("R4", n_checked, 60)
    lines_p = dcls.methods.get("lines", [None])[0]
    ok = lines_p is not None and any(isinstance(r, ast.Return) and isinstance(r.value, ast.Call) and isinstance(r.value.func, ast.Attribute) and r.value.func.attr == "split"
                                     and unparse(r.value.func.value) == "self.value" for r in walk_no_nested(lines_p.node))
    ctx.ob("R4", "lines-fresh", ok, "Docstring.lines returns a fresh list (value.split) on every access", where(lines_p) if lines_p else "")
    init = dcls.methods.get("__init__", [None])[0]
    ok = False
    if init is not None:
        for s in walk_no_nested(init.node):
            if isinstance(s, (ast.Assign, ast.AnnAssign)) and unparse(s.targets[0] if isinstance(s, ast.Assign) else s.target) == "self.value":
                v = unparse(s.value).replace(" ", "")
                ok = "cleandoc(" in v and ".rstrip()" in v
    ctx.ob("R4", "value-invariant", ok, "the stored docstring value is cleandoc(value.rstrip()): its last line is not blank (invariant used by the skip-blank loops)", where(init) if init else "")
    # positive control for the purity rule: the rule recognises a mutation when it sees one
    probe = ast.parse("def _p(docstring):\n    docstring.parser_options.update({})\n    docstring.value = ''\n").body[0]
    hits = sum(1 for n in ast.walk(probe) if (isinstance(n, ast.Call) and isinstance(n.func, ast.Attribute) and n.func.attr in MUTATORS and _root_name(n.func.value) == "docstring")
               or (isinstance(n, ast.Attribute) and isinstance(n.ctx, ast.Store) and _root_name(n) == "docstring"))
    ctx.ob("R4", "positive-control", hits == 2, "positive control: the mutation patterns are recognised on a probe snippet", "")

    # ------------------------------------------------------------------ R5 regex safety
    ctx.rule("R5", "no pattern used by the parsers nests an unbounded repeat inside an unbounded repeat in a way that can be split ambiguously "
                   "(exponential backtracking); patterns are evaluated from the module constants and parsed with the stdlib's regex parser")
    it = Interp(prog)
    n_pat = 0
    for m in [prog.module(x) for x in PARSER_MODULES]:
        for n in ast.walk(m.tree):
            if isinstance(n, ast.Call) and (dotted(n.func) or "") in ("re.compile", "re.match", "re.search", "re.sub", "re.fullmatch", "re.split", "re.findall") and n.args:
                try:
                    pat = it.eval(n.args[0], Env(m))
                except AnalysisError:
                    fn_ = prog.fn_containing(n)
                    if fn_ is None:
                        raise
                    continue  # pattern built from run-time values inside a function: not a constant pattern
                if not isinstance(pat, str):
                    continue
                fl = 0
                for a in n.args[1:] + [k.value for k in n.keywords if k.arg == "flags"]:
                    for x in ast.walk(a):
                        if isinstance(x, ast.Attribute) and dotted(x.value) == "re" and hasattr(re, x.attr):
                            fl |= int(getattr(re, x.attr))
                n_pat += 1
                try:
                    fs = regex_findings(pat, fl)
                except re.error as exc:
                    fs = [f"pattern does not compile: {exc}"]
                ctx.ob("R5", f"{m.name.split('.')[-1]}|{pat[:50]!r}", not fs, "no ambiguous nested unbounded repeat" if not fs else fs[0], f"{m.relpath}:{n.lineno}",
                       {"pattern": pat, "findings": fs})
    ctx.expect_min("R5", n_pat, 9)
    ctl = regex_findings(r"(?:[^()]+|\([^()]*\))+") and regex_findings(r"(a+)+") and not regex_findings(r"(?:\w+,\s*)*\w+")
    ctx.ob("R5", "positive-control", bool(ctl), "positive control: known catastrophic patterns are flagged and a safe separator-delimited one is not", "")
    _totality_table(prog, ctx)
    _annotation_table(prog, ctx)


ALPHABET = [
    "", "Summary line.", "foo", "  indented", "    x: d", "    x (int): d", "    (int): d", "        continuation", "Returns:", "Yields:", "Args:", "Raises:", "Attributes:",
    "Note:", "Examples:", "Returns", "Parameters", "-------", "x : int", "x", ":", ":param x: d", ":type x: int", ":returns: d", ":raises E:", ":var", ">>> f()  # doctest: +SKIP", "```",
    "Deprecated", "1.0",
]


def _totality_chunk(arg: tuple) -> tuple[int, list[tuple[str, str, str]]]:
    """Worker: parse every sequence of the chunk under every configuration; -> (#parses, [(class key, message, where)])."""
    import inspect
    import itertools

    from sa.absint import Obj, Raised, StepLimit

    overlay, seqs, thorough = arg
    prog = Program(overlay=overlay or None)
    it = Interp(prog, max_depth=40, max_steps=50_000)
    it.stubs["_griffe.docstrings.utils.parse_docstring_annotation"] = lambda _i, ann, _ds, **_k: ann
    # (docstring_warning is evaluated too: every parser's error path goes through it)
    dcls = prog.cls("_griffe.models.Docstring")
    fn_par = Obj(prog.cls("_griffe.models.Function"), {"parameters": {"x": Obj(None, {"name": "x", "annotation": "T", "default": "1", "__closed__": True})}, "returns": "Ret[A, B]",
                                                        "labels": set(), "name": "f", "path": "m.f", "__closed__": True}, label="function")
    prop_par = Obj(prog.cls("_griffe.models.Attribute"), {"annotation": "int", "labels": {"property"}, "name": "p", "path": "m.p", "members": {}, "__closed__": True}, label="property")
    fcls_ = prog.cls("_griffe.models.Function")
    init_attrs = {"parameters": {"x": Obj(None, {"name": "x", "annotation": "T", "default": "1", "__closed__": True})}, "returns": None, "labels": set(), "name": "__init__",
                  "is_function": True, "__closed__": True}
    klass_par = Obj(prog.cls("_griffe.models.Class"), {"name": "K", "path": "m.K", "is_class": True, "members": {}, "parent": None, "__closed__": True}, label="class")
    init_detached = Obj(fcls_, {**init_attrs, "path": "__init__", "parent": None}, label="detached __init__")
    init_in_class = Obj(fcls_, {**init_attrs, "path": "m.K.__init__", "parent": klass_par}, label="__init__ of a class")
    parents = {"no parent": None, "function": fn_par, "property": prop_par, "detached __init__": init_detached, "__init__ of a class": init_in_class}
    configs = {
        "google": [{}, {"returns_multiple_items": False, "receives_multiple_items": False}, {"returns_named_value": False, "receives_named_value": False},
                   {"returns_type_in_property_summary": True}, {"ignore_init_summary": True}],
        "numpy": [{}, {"ignore_init_summary": True}],
        "sphinx": [{}],
    }
    n = 0
    found: list[tuple[str, str, str]] = []
    seen: set[str] = set()
    for style, opts_list in configs.items():
        fn = prog.function(f"_griffe.docstrings.{style}.parse_{style}")
        hung = False
        for seq in seqs:
            if hung:
                break  # one non-terminating parse is the finding; the remaining documents of this style would each burn the whole budget
            value = inspect.cleandoc("\n".join(seq).rstrip())  # what Docstring.__init__ stores (R4 decides that it does)
            if not value:
                continue
            lines = value.split("\n")
            for opts, (pname, par) in itertools.product(opts_list, parents.items()):
                if pname == "property" and not opts.get("returns_type_in_property_summary"):
                    continue
                if pname == "no parent" and opts and not thorough:
                    continue
                if "__init__" in pname and not opts.get("ignore_init_summary"):
                    continue  # these two parents only matter to the option that looks at them
                # a docstring built by hand (no parent) has no line number either
                ds = Obj(dcls, {"lines": list(lines), "value": value, "parent": par, "lineno": None if par is None else 1, "endlineno": None if par is None else len(lines)}, label="docstring")
                it.steps = 0
                try:
                    out = it.call(fn, ds, warn_unknown_params=par is not None, **opts)
                    problem = None if isinstance(out, list) else f"returns {type(out).__name__}"
                    if problem is None and (ds.attrs["lines"] != lines or ds.attrs["value"] != value):
                        problem = "modifies the docstring"
                except Raised as r:
                    problem = f"raises {r.exc}"
                except StepLimit:
                    problem = f"does not finish within {it.max_steps} evaluation steps (a terminating parse of four lines needs a few thousand)"
                    it.depth = 0
                    hung = True
                n += 1
                if problem is None:
                    continue
                cls_key = f"{style}|{problem}|{sorted(opts)}|{pname}"
                if cls_key in seen:
                    continue
                seen.add(cls_key)
                found.append((cls_key, f"parse_{style}({value!r}, {opts or 'default options'}, {pname}) {problem}", where(fn)))
    return n, found


ANNOTATION_TEXTS = [
    "int", "list[int]", "a.b | None", "a b", "{", "}", "{x}", "{0}", "{}", "await x", "await {x}", "await {}", "await {0}", "(yield {x})", "(yield)", "lambda: {x}",
    "await {path}", "await {error!r:>{w}}", "x := {y}", "await {x", "f'{x}'", "await f'{x}'", "'{x}'", "await '{x}'", "[{x} async for x in y]", "*{x}", "%", "{{", "await {{}}",
]


def _annotation_table(prog: Program, ctx: Ctx) -> None:
    """R7: the helper every parser sends an item's type text through, evaluated (not stubbed, unlike in R6) on texts that compile but cannot be converted,
    with braces in them: the text of a docstring is data, never a format string; whatever it is, the helper returns (the expression or the text)."""
    from sa.absint import Obj, Raised, StepLimit

    ctx.rule("R7", "parse_docstring_annotation evaluated on annotation texts (convertible, not compilable, compilable but not convertible, with and without braces), "
                   "for a docstring with a parent: it returns the expression or the text and never raises")
    pda = prog.function("_griffe.docstrings.utils.parse_docstring_annotation")
    it = Interp(prog, max_depth=60, max_steps=200_000)
    M = "_griffe.models"
    mod = it._construct(prog.cls(f"{M}.Module"), ["m"], {})
    fn = it._construct(prog.cls(f"{M}.Function"), ["f"], {})
    it.call(prog.lookup_method(mod.cls, "set_member")[0], mod, "f", fn)
    ds = it._construct(prog.cls(f"{M}.Docstring"), ["Summary."], {"parent": fn, "lineno": 1, "endlineno": 1})
    n = 0
    for ann in ANNOTATION_TEXTS:
        it.steps = 0
        it.depth = 0
        try:
            out = it.call(pda, ann, ds)
            ok, msg = (isinstance(out, str) or (isinstance(out, Obj) and out.cls is not None)), f"returns {out if isinstance(out, str) else getattr(getattr(out, 'cls', None), 'name', type(out).__name__)!r}"
        except Raised as r:
            ok, msg = False, f"raises {r.exc}: it escapes every parser that reads an item type"
        except StepLimit:
            ok, msg = False, "does not finish"
        n += 1
        ctx.ob("R7", f"annotation|{ann}", ok, f"parse_docstring_annotation({ann!r}, <docstring of m.f>) {msg}", where(pda))
    ctx.expect_min("R7", n, len(ANNOTATION_TEXTS))


def _totality_table(prog: Program, ctx: Ctx) -> None:
    """R6: the three parsers evaluated on every line sequence up to the bound over an alphabet of line shapes, under the option sets that select
    different reader paths, with and without a parent: none raises, each returns a list of sections, the docstring object is unchanged."""
    import itertools

    ctx.rule("R6", "bounded-exhaustive totality: for every sequence of up to N lines over an alphabet of line shapes (titles, items, continuation lines, "
                   "dash lines, field lists, blank lines), every style, the option sets that switch reader paths and three kinds of parent, the parser "
                   "returns a list of sections without raising")
    thorough = ctx.tier == "thorough"
    depth = 3 if thorough else 2
    # quick: single lines, and every pair of lines after a summary and a blank line (where sections are recognised); thorough: all sequences up to 3 lines too
    seqs = [(a,) for a in ALPHABET] + [("Summary line.", "", a, b) for a, b in itertools.product(ALPHABET, repeat=2)]
    if thorough:
        seqs += [s for n_ in range(2, depth + 1) for s in itertools.product(ALPHABET, repeat=n_)]
        seqs += [("Summary line.", "", a, b, c) for a, b, c in itertools.product(ALPHABET[:18], repeat=3)]
    import os
    from concurrent.futures import ProcessPoolExecutor

    jobs = min(16 if thorough else 4, os.cpu_count() or 4)
    with ProcessPoolExecutor(max_workers=jobs) as ex:
        results = list(ex.map(_totality_chunk, [(dict(prog.overlay), seqs[i::jobs], thorough) for i in range(jobs)]))
    n = sum(r[0] for r in results)
    reported: set[str] = set()
    for _n, found in results:
        for cls_key, msg, loc in found:
            if cls_key in reported:
                continue
            reported.add(cls_key)
            ctx.ob("R6", f"total|{cls_key}", False, msg, loc)
    ctx.ob("R6", f"total|{n} parses", True, f"{n} parses (sequences up to {depth} lines over {len(ALPHABET)} line shapes) returned sections without raising", "", nontrivial=True)
    if not reported:
        ctx.expect_min("R6", n, 4000)
    ctx.analysed["totality_parses"] = n

def _root_name(node: ast.AST) -> str | None:
    while isinstance(node, (ast.Attribute, ast.Subscript)):
        node = node.value
    return node.id if isinstance(node, ast.Name) else None


def _branch_key(node: ast.AST) -> str:
    parts = []
    child = node
    for anc in ancestors(node):
        if isinstance(anc, ast.If):
            parts.append(("T:" if any(child is s or any(child is x for x in ast.walk(s)) for s in anc.body) else "F:") + norm(anc.test, 30))
        if isinstance(anc, (ast.FunctionDef, ast.AsyncFunctionDef)):
            break
        child = anc
    return "|".join(reversed(parts[-3:]))
