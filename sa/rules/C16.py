"""C16 - Object-tree invariants hold after any history of member mutations (structural part).

R1 ownership of `.members` writes, R2 store/parent pairing, R3 alias back-references, R4 no self-target,
R5 retargeting on replacement, R6 path arithmetic of the get/set/del mixins.
"""

from __future__ import annotations

import ast

from sa.cfg import implied
from sa.report import Ctx
from sa.srcmodel import AnalysisError, FunctionInfo, Program, ancestors, dotted, norm, parent, unparse, walk_no_nested
from pathlib import PurePosixPath as PurePosixPathC16

from sa.util import calls_in, cfg_nodes_containing, cfg_of, key, path_text, stmt_of, where

EXCLUDED = {"_griffe.tests"}
MUTATORS = {"update", "setdefault", "pop", "popitem", "clear", "__setitem__", "__delitem__"}
SET_OWNER = "_griffe.mixins.SetMembersMixin"
DEL_OWNER = "_griffe.mixins.DelMembersMixin"


def _is_members_attr(node: ast.AST) -> bool:
    return isinstance(node, ast.Attribute) and node.attr == "members"


def run(prog: Program, ctx: Ctx) -> None:  # noqa: PLR0912,PLR0915
    # ------------------------------------------------------------------ R1 ownership
    ctx.rule("R1", "item stores into a `.members` mapping exist only in SetMembersMixin, deletions only in DelMembersMixin (or in private helpers "
                   "of the mixins module called from nowhere else); everything else goes through set_member/del_member/[]")
    stores: list[tuple[FunctionInfo, ast.AST]] = []
    dels: list[tuple[FunctionInfo, ast.AST]] = []
    n_sites = 0
    from sa.util import private_call_sites

    def owner_of(fn: FunctionInfo, stack: tuple = ()) -> str | None:
        """The class a function works for: its own class, or - for a private helper of the mixins module whose every call site can be seen - the
        one class all its callers work for."""
        if fn.cls is not None:
            return fn.cls.qualname
        if fn.module.name != "_griffe.mixins" or fn.qualname in stack:
            return None
        sites = private_call_sites(prog, fn)
        if not sites:
            return None
        owners = {owner_of(g, (*stack, fn.qualname)) for g, _c in sites if g.qualname != fn.qualname}
        return next(iter(owners)) if len(owners) == 1 else None

    for fn in prog.functions.values():
        if fn.module.name in EXCLUDED:
            continue
        owner = owner_of(fn)
        for n in walk_no_nested(fn.node):
            kind = None
            if isinstance(n, ast.Subscript) and _is_members_attr(n.value):
                if isinstance(n.ctx, ast.Store):
                    kind = "store"
                elif isinstance(n.ctx, ast.Del):
                    kind = "del"
            elif isinstance(n, ast.Call) and isinstance(n.func, ast.Attribute) and n.func.attr in MUTATORS and _is_members_attr(n.func.value):
                kind = "del" if n.func.attr in ("pop", "popitem", "clear", "__delitem__") else "store"
            elif isinstance(n, ast.Attribute) and n.attr == "members" and isinstance(n.ctx, ast.Store):
                # whole-mapping assignment: only constructors may create the mapping
                n_sites += 1
                ctx.ob("R1", key(fn, f"members-init:{norm(stmt_of(n))}"), fn.name == "__init__" and dotted(n.value) == "self",
                       "the members mapping is created in a constructor only", where(fn, n))
                continue
            elif isinstance(n, ast.AugAssign) and (_is_members_attr(n.target) or (isinstance(n.target, ast.Subscript) and _is_members_attr(n.target.value))):
                kind = "store"
            if kind is None:
                continue
            n_sites += 1
            if kind == "store":
                ok = owner == SET_OWNER
                ctx.ob("R1", key(fn, stmt_of(n)), ok, "members store inside SetMembersMixin" if ok else
                       "direct store into a members mapping outside SetMembersMixin (bypasses parent/collection linking and alias retargeting)", where(fn, n))
                if ok:
                    stores.append((fn, n))
            else:
                ok = owner == DEL_OWNER
                ctx.ob("R1", key(fn, stmt_of(n)), ok, "members deletion inside DelMembersMixin" if ok else
                       "direct deletion from a members mapping outside DelMembersMixin", where(fn, n))
                if ok:
                    dels.append((fn, n))
    ctx.expect_min("R1", len(stores), 1)  # (two today: set_member and __setitem__; one when they share a helper)
    ctx.expect_min("R1", len(dels), 1)

    # R2 (the stored value is linked to its container), R3 (a resolved alias is listed by its target under its current path, also after its parent
    # changes), R4 (an alias never targets itself) and R5 (aliases registered on a replaced member follow the replacement; stubs merging only for
    # two regular modules) are decided on behaviour by the history table R7 and its extra rows.  Their first versions matched the statements of
    # set_member / the target setter (a store followed by a link, a loop over `.aliases`, a test in front of a store): behaviour-preserving
    # refactorings written by independent sub-agents (helpers extracted from set_member, the registration block shared between the setter and
    # _resolve_target) made them report, so they were retired (DESIGN 7.7).
    # ------------------------------------------------------------------ R6 path arithmetic
    ctx.rule("R6", "_get_parts rejects empty keys; single-part keys act on parts[0]; multi-part keys recurse on parts[1:] through the "
                   "same-named operation of the child members[parts[0]]")
    gp = prog.function("_griffe.mixins._get_parts")
    from sa.absint import Interp as _Interp
    from sa.absint import Raised as _Raised

    itp = _Interp(prog)
    for keyv, want in (("a", ("a",)), ("a.b.c", ("a", "b", "c")), (("a", "b"), ("a", "b")), (["a"], ("a",)), ("", "raises ValueError"), ((), "raises ValueError"), ([], "raises ValueError")):
        try:
            got = tuple(itp.call(gp, keyv))
        except _Raised as r:
            got = f"raises {r.exc}"
        ctx.ob("R6", f"_get_parts|{keyv!r}", got == want, f"_get_parts({keyv!r}) = {got!r}, expected {want!r}", where(gp))
    # every operation of the three mixins rejects an empty key the same way (multi-part keys are decided by the history table R7)
    from sa.absint import Obj as _Obj

    ops = ("get_member", "set_member", "del_member", "__getitem__", "__setitem__", "__delitem__")
    n_ops = 0
    mcls = prog.cls("_griffe.models.Module")
    for mname in ops:
        for keyv in ("", (), []):
            holder = itp._construct(mcls, ["m"], {})
            f = prog.lookup_method(mcls, mname)[0]
            args = [holder, keyv] + ([itp._construct(prog.cls("_griffe.models.Attribute"), ["x"], {})] if "set" in mname else [])
            try:
                itp.call(f, *args)
                got = "returns"
            except _Raised as r:
                got = f"raises {r.exc}"
            n_ops += 1
            ctx.ob("R6", f"empty-key|{mname}|{keyv!r}", got == "raises ValueError", f"{mname}({keyv!r}) {got} (an empty key is rejected with ValueError)", where(f))
    ctx.expect_min("R6", n_ops, 18)
    _history_table(prog, ctx)


def _history_table(prog: Program, ctx: Ctx) -> None:  # noqa: PLR0912,PLR0915
    """R7: every operation sequence up to the bound over a small universe, evaluated on the mixins' and models' own code, against a dictionary model."""
    import itertools

    from sa.absint import Interp, Obj, Raised

    ctx.rule("R7", "after every sequence of up to three insertions / replacements / deletions (by name, dotted path or tuple, on objects or on the "
                   "collection): no operation raises except KeyError for a missing key, every member's parent is its container, dotted, tuple and chained "
                   "lookups agree with a dictionary model, deleted members are gone, aliases registered on a replaced object follow the replacement, "
                   "every resolved alias is listed by its target under its current path, and no alias targets itself")
    M = "_griffe.models"
    it = Interp(prog, max_depth=60, max_steps=3_000_000)
    cc = prog.cls("_griffe.collections.ModulesCollection")
    AE = {"AliasResolutionError", "CyclicAliasError"}

    def new(cls: str, *a: object, **k: object) -> Obj:
        return it._construct(prog.cls(f"{M}.{cls}"), list(a), dict(k))

    def meth(o: Obj, name: str):
        return prog.lookup_method(o.cls, name)[0]

    def build() -> tuple[Obj, dict]:
        coll = it._construct(cc, [], {})
        m, n = new("Module", "m"), new("Module", "n")
        it.call(meth(coll, "set_member"), coll, "m", m)
        it.call(meth(coll, "set_member"), coll, "n", n)
        k = new("Class", "K")
        it.call(meth(m, "set_member"), m, "K", k)
        it.call(meth(m, "set_member"), m, "x", new("Attribute", "x"))
        it.call(meth(k, "set_member"), k, "f", new("Function", "f"))
        it.call(meth(n, "set_member"), n, "y", new("Alias", "y", "m.x"))
        it.call(meth(n, "set_member"), n, "w", new("Alias", "w", "m.K"))
        it.call(meth(n, "set_member"), n, "z", new("Alias", "z", "n.y"))  # a chain: n.z -> n.y -> m.x
        return coll, {"m": {"K": {"f": {}}, "x": {}}, "n": {"y": {}, "w": {}, "z": {}}}

    def container(coll: Obj, path: tuple[str, ...]) -> Obj:
        cur = coll
        for p in path:
            cur = cur.attrs["members"][p]
        return cur

    # operations: (label, function applied to (coll, model)) ; each returns None or the name of an exception
    def op_set(via: str, path: tuple[str, ...], factory: str):
        def make(coll: Obj) -> Obj:
            name = path[-1]
            if factory == "alias created with its target object":
                return new("Alias", name, container(coll, ("m", "x")))  # (KeyError when an earlier step removed m.x: nothing to check then)
            if factory == "object":
                return new("Attribute", name)
            if factory == "alias":
                return new("Alias", name, "m.K.f")
            if factory == "dangling alias":
                return new("Alias", name, "ext.missing")
            return new("Alias", name, ".".join(path))  # would target its own path

        def run(coll: Obj, model: dict) -> None:
            value = make(coll)
            if via == "name":
                cont = container(coll, path[:-1])
                it.call(meth(cont, "set_member"), cont, path[-1], value)
            elif via == "dotted":
                it.call(meth(coll, "set_member"), coll, ".".join(path), value)
            elif via == "tuple":
                it.call(meth(coll, "set_member"), coll, tuple(path), value)
            elif via == "item":  # item assignment on the container
                cont = container(coll, path[:-1])
                it.call(meth(cont, "__setitem__"), cont, path[-1], value)
            elif via == "item on the collection, dotted":
                it.call(meth(coll, "__setitem__"), coll, ".".join(path), value)
            else:  # item assignment on the collection with a tuple key
                it.call(meth(coll, "__setitem__"), coll, tuple(path), value)
            d = model
            for p in path[:-1]:
                d = d[p]
            d[path[-1]] = {}

        return (f"set {'.'.join(path)} = {factory} via {via}", run)

    def op_del(via: str, path: tuple[str, ...]):
        def run(coll: Obj, model: dict) -> None:
            if via == "name":
                cont = container(coll, path[:-1])
                it.call(meth(cont, "del_member"), cont, path[-1])
            elif via == "dotted":
                it.call(meth(coll, "del_member"), coll, ".".join(path))
            else:
                it.call(meth(coll, "__delitem__"), coll, tuple(path))
            d = model
            for p in path[:-1]:
                d = d[p]
            del d[path[-1]]

        return (f"del {'.'.join(path)} via {via}", run)

    def op_resolve(path: tuple[str, ...]):
        def run(coll: Obj, _model: dict) -> None:
            a = container(coll, path)
            try:
                it.getattr(a, "target")
            except Raised as r:
                if r.exc not in AE:
                    raise

        return (f"resolve {'.'.join(path)}", run)

    def op_move(src: tuple[str, ...], dst: tuple[str, ...]):
        """Take a subtree out and attach the same objects somewhere else (after their paths were read by the previous walk)."""
        def run(coll: Obj, model: dict) -> None:
            obj = container(coll, src)
            for pth_, o_ in ((src, obj), *(((*src, n_), c_) for n_, c_ in obj.attrs.get("members", {}).items())):
                it.getattr(o_, "path")  # somebody looked at the paths before the move
            sc = container(coll, src[:-1])
            it.call(meth(sc, "del_member"), sc, src[-1])
            dc = container(coll, dst[:-1])
            it.call(meth(dc, "set_member"), dc, dst[-1], obj)
            d = model
            for p in src[:-1]:
                d = d[p]
            sub = d.pop(src[-1])
            d = model
            for p in dst[:-1]:
                d = d[p]
            d[dst[-1]] = sub

        return (f"move {'.'.join(src)} to {'.'.join(dst)}", run)

    ops = [
        op_move(("m", "K"), ("n", "K")), op_move(("n", "y"), ("m", "y")), op_set("name", ("n", "y"), "alias created with its target object"),
        op_set("name", ("m", "x"), "object"), op_set("dotted", ("m", "x"), "object"), op_set("tuple", ("m", "K", "f"), "object"), op_set("item", ("m", "x"), "object"),
        op_set("name", ("m", "x"), "alias"), op_set("name", ("m", "x"), "dangling alias"), op_set("name", ("m", "x"), "self alias"), op_set("dotted", ("m", "K"), "object"),
        op_set("name", ("m", "z"), "object"), op_set("name", ("n", "y"), "alias"),
        op_set("item on the collection, dotted", ("m", "x"), "object"), op_set("item on the collection, tuple", ("m", "K", "f"), "object"),
        op_del("name", ("m", "x")), op_del("dotted", ("m", "K", "f")), op_del("tuple", ("n", "y")), op_del("dotted", ("m", "x")),
        op_resolve(("n", "y")), op_resolve(("n", "w")), op_resolve(("n", "z")),
    ]

    def walk(o: Obj, model: dict, path: tuple[str, ...], problems: list[str], coll: Obj) -> None:
        members = o.attrs["members"]
        if sorted(members) != sorted(model):
            problems.append(f"{'.'.join(path) or '<collection>'} has members {sorted(members)}, the model has {sorted(model)}")
            return
        for name, child in members.items():
            cpath = (*path, name)
            if path and it.getattr(child, "parent") is not o:
                problems.append(f"parent of {'.'.join(cpath)} is not its container")
            if child.attrs.get("name") != name:
                problems.append(f"{'.'.join(cpath)} is stored under a key different from its name")
            try:
                own_path = it.getattr(child, "path")
            except Raised as r:
                own_path = f"raises {r.exc}"
            if own_path != ".".join(cpath):
                problems.append(f"the member at {'.'.join(cpath)} reports the path {own_path}")
            for form, keyv in (("dotted", ".".join(cpath)), ("tuple", tuple(cpath)), ("item syntax", ".".join(cpath)), ("item syntax with a tuple", tuple(cpath))):
                try:
                    got = it.call(meth(coll, "__getitem__" if form.startswith("item") else "get_member"), coll, keyv)
                except Raised as r:
                    got = f"raises {r.exc}"
                if got is not child:
                    problems.append(f"{form} lookup of {'.'.join(cpath)} gives {got}")
            is_alias = child.cls is not None and child.cls.name == "Alias"
            if is_alias:
                tgt = child.attrs.get("_target")
                if tgt is child:
                    problems.append(f"alias {'.'.join(cpath)} targets itself")
                hops = 0
                while isinstance(tgt, Obj) and tgt.cls is not None and tgt.cls.name == "Alias" and hops < 8:  # a chain registers on the object at its end
                    tgt = tgt.attrs.get("_target")
                    hops += 1
                if isinstance(tgt, Obj) and tgt.cls is not None and tgt.cls.name != "Alias":
                    reg = tgt.attrs.get("aliases", {})
                    if reg.get(".".join(cpath)) is not child:
                        problems.append(f"resolved alias {'.'.join(cpath)} is not listed by its target {it.getattr(tgt, 'path')} (listed: {sorted(reg)})")
                # members seen through an alias: dotted, tuple and chained lookups all give the member *at the alias's path*
                if isinstance(tgt, Obj) and tgt.cls is not None and tgt.cls.name != "Alias" and tgt.attrs.get("members"):
                    for sub in list(tgt.attrs["members"]):
                        want_path = ".".join((*cpath, sub))
                        seen_paths_ = {}
                        for form, call_ in (("dotted", lambda: it.call(meth(coll, "get_member"), coll, want_path)),
                                            ("tuple", lambda: it.call(meth(coll, "get_member"), coll, (*cpath, sub))),
                                            ("chained", lambda: it.call(meth(child, "get_member"), child, sub))):
                            try:
                                seen_ = call_()
                                seen_paths_[form] = it.getattr(seen_, "path")
                                # ... and it stands for the member the target has *now* (after a replacement under the same name, too)
                                cur_ = tgt.attrs["members"][sub]
                                if isinstance(seen_, Obj) and seen_.cls is not None and seen_.cls.name == "Alias" and seen_.attrs.get("_target") is not cur_ and seen_ is not cur_:
                                    stale_ = seen_.attrs.get("_target")
                                    problems.append(f"{form} lookup of {want_path} through the alias {'.'.join(cpath)} stands for "
                                                    f"{'a detached object (no longer a member of ' + it.getattr(tgt, 'path') + ')' if isinstance(stale_, Obj) else repr(stale_)}, "
                                                    f"not for the current member {it.getattr(cur_, 'path')}")
                            except Raised as r:
                                seen_paths_[form] = f"raises {r.exc}"
                        if set(seen_paths_.values()) != {want_path}:
                            problems.append(f"lookups of {want_path} through the alias {'.'.join(cpath)} give objects at {seen_paths_}")
            else:
                walk(child, model[name], cpath, problems, coll)

    n_hist = 0
    reported: set[str] = set()
    depth = 3 if ctx.tier == "thorough" else 2
    singles = [(o,) for o in ops]
    pairs = list(itertools.product(ops, repeat=2))
    triples = list(itertools.product(ops, repeat=3)) if depth == 3 else []
    for hist in [*singles, *pairs, *triples]:
        coll, model = build()
        # resolve the two aliases first in half of the universes (registered aliases follow replacements)
        labels = []
        problem = None
        it.steps = 0
        for label, fn in hist:
            labels.append(label)
            before_regs = {}
            try:
                tgt_path = label.split(" ")[1] if label.startswith("set ") else None
                if tgt_path:
                    try:
                        old = container(coll, tuple(tgt_path.split(".")))
                        before_regs = dict(old.attrs.get("aliases", {})) if old.cls is not None and old.cls.name != "Alias" else {}
                    except KeyError:
                        before_regs = {}
                fn(coll, model)
            except KeyError:
                break  # the operation addresses something an earlier step removed: a model-level KeyError, nothing to check
            except Raised as r:
                legit = r.exc == "KeyError" and _missing(model, label)
                if legit:
                    break
                problem = f"`{label}` raises {r.exc}"
                break
            problems: list[str] = []
            walk(coll, model, (), problems, coll)
            if tgt_path and "via item" not in label and not problems:
                new_val = container(coll, tuple(tgt_path.split(".")))
                for apath, a in before_regs.items():
                    if a.attrs.get("_target") is not new_val and a is not new_val and not _self_cycle(apath, new_val, it):
                        # a replacement that is itself an alias with an unresolvable chain cannot be linked to: the alias then stays
                        # unresolved, pointing at the replacement's path (all-or-nothing, C06)
                        if a.attrs.get("_target") is None and a.attrs.get("target_path") == it.getattr(new_val, "path") and _broken(new_val, it):
                            continue
                        problems.append(f"alias {apath} still targets the replaced object after `{label}`")
            if problems:
                problem = problems[0]
                break
        n_hist += 1
        ok = problem is None
        k = f"history|{' ; '.join(labels)}"
        if not ok:
            cls_key = f"history-class|{labels[-1]}|{problem.split(' raises ')[-1] if ' raises ' in problem else problem[:60]}"
            if cls_key in reported:
                continue
            reported.add(cls_key)
            k = cls_key
        ctx.ob("R7", k, ok, f"after {labels}: " + ("all invariants hold" if ok else problem), "src/_griffe/mixins.py")
    ctx.expect_min("R7", n_hist, 250)
    ctx.analysed["histories"] = n_hist
    # an alias that is not in a tree yet (the producer API builds it first, attaches it later) can be given its target
    for tkind in ("Function", "Alias"):
        it.steps = 0
        try:
            free = new("Alias", "a", "m.f")
            tgt_ = new("Function", "f") if tkind == "Function" else new("Alias", "f", "m.g")
            it.call(next(f_ for f_ in prog.lookup_method(free.cls, "target") if f_.is_setter), free, tgt_)
            problem = None if free.attrs.get("_target") is tgt_ and free.attrs.get("target_path") == "f" else f"target {free.attrs.get('_target')}, target_path {free.attrs.get('target_path')}"
        except Raised as r:
            problem = f"raises {r.exc}"
        ctx.ob("R7", f"parentless-alias|target = a {tkind}", problem is None, f"`alias.target = <{tkind} f>` on an alias without parent: " + (problem or "target and target path set"), "src/_griffe/models.py")
    # assigning a target directly: an alias never ends up targeting itself (or another object that sits at its own path), and a rejected
    # assignment leaves the alias exactly as it was
    setter = next(f_ for f_ in prog.lookup_method(prog.cls(f"{M}.Alias"), "target") if f_.is_setter)
    for what in ("itself", "another alias object at its own path", "an object at its own path", "a function elsewhere"):
        it.steps = 0
        try:
            coll, _model = build()
            n_mod = container(coll, ("n",))
            y = container(coll, ("n", "y"))
            it.getattr(y, "target")  # resolved: n.y -> m.x
            before = (y.attrs.get("_target"), y.attrs.get("target_path"))
            if what == "itself":
                value = y
            elif what == "another alias object at its own path":
                value = new("Alias", "y", "m.K", parent=n_mod)
            elif what == "an object at its own path":
                value = new("Attribute", "y", parent=n_mod)
            else:
                value = container(coll, ("m", "K", "f"))
        except Raised as r:
            ctx.ob("R7", f"retarget|n.y.target = {what}", False, f"building the tree for the row raises {r.exc}", where(setter))
            continue
        try:
            it.call(setter, y, value)
            outcome = "accepted"
        except Raised as r:
            outcome = f"raises {r.exc}"
        after = (y.attrs.get("_target"), y.attrs.get("target_path"))
        if what == "a function elsewhere":
            good = outcome == "accepted" and after == (value, "m.K.f") and value.attrs.get("aliases", {}).get("n.y") is y
            want = "accepted, and the function lists n.y among its aliases"
        else:
            good = outcome == "raises CyclicAliasError" and after == before
            want = "CyclicAliasError, the alias still targets m.x"
        ctx.ob("R7", f"retarget|n.y.target = {what}", good,
               f"`n.y.target = <{what}>`: expected {want}; got {outcome}, target path {after[1]}", where(setter))
    # a portion of a namespace sub-package replaced by another one: stored as is (stubs merging is for two regular modules only)
    for label, fp1, fp2, parent_fp in (
        ("namespace sub-package", [PurePosixPathC16("/s1/ns/sub")], [PurePosixPathC16("/s2/ns/sub")], [PurePosixPathC16("/s1/ns")]),
        ("namespace package in the collection", [PurePosixPathC16("/s1/ns")], [PurePosixPathC16("/s2/ns")], None),
    ):
        it.steps = 0
        try:
            coll = it._construct(cc, [], {})
            if parent_fp is not None:
                holder = new("Module", "ns", filepath=parent_fp)
                it.call(meth(coll, "set_member"), coll, "ns", holder)
                name = "sub"
            else:
                holder, name = coll, "ns"
            it.call(meth(holder, "set_member"), holder, name, new("Module", name, filepath=fp1))
            second = new("Module", name, filepath=fp2)
            it.call(meth(holder, "set_member"), holder, name, second)
            problem = None if holder.attrs["members"][name] is second else "the replacement is not what the tree stores"
        except Raised as r:
            problem = f"raises {r.exc}"
        ctx.ob("R7", f"replace|{label}", problem is None, f"a {label} replaced by another portion of it: " + (problem or "the new module is stored, nothing is merged"),
               "src/_griffe/mixins.py")
    # a module replaced by its stubs counterpart (or the stubs by the module) while a resolved alias is registered on it: the alias ends up on
    # whichever module object the tree keeps
    from pathlib import PurePosixPath as PP

    sm = prog.function("_griffe.mixins.SetMembersMixin.set_member")
    for holder_kind, (first, second) in itertools.product(("collection", "package"), ((".py", ".pyi"), (".pyi", ".py"))):
        it.steps = 0
        label = f"stubs-merge|{holder_kind}|{first} then {second}"
        try:
            coll = it._construct(cc, [], {})
            if holder_kind == "package":
                holder = new("Module", "p", filepath=PP("/s/p/__init__.py"))
                it.call(meth(coll, "set_member"), coll, "p", holder)
                base, target_path = "/s/p/m", "p.m"
            else:
                holder, base, target_path = coll, "/s/m", "m"
            m1 = new("Module", "m", filepath=PP(base + first))
            it.call(meth(holder, "set_member"), holder, "m", m1)
            it.call(meth(m1, "set_member"), m1, "x", new("Attribute", "x"))
            n_ = new("Module", "n", filepath=PP("/s/n.py"))
            it.call(meth(coll, "set_member"), coll, "n", n_)
            a = new("Alias", "v", target_path)
            it.call(meth(n_, "set_member"), n_, "v", a)
            it.getattr(a, "target")
            m2 = new("Module", "m", filepath=PP(base + second))
            it.call(meth(m2, "set_member"), m2, "x", new("Attribute", "x"))
            it.call(meth(holder, "set_member"), holder, "m", m2)
            stored = holder.attrs["members"]["m"]
            if a.attrs.get("_target") is not stored:
                problem = "the alias n.v targets a module object that is not the one stored in the tree"
            elif stored.attrs.get("aliases", {}).get("n.v") is not a:
                problem = "the stored module does not list the alias n.v"
            else:
                problem = None
        except Raised as r:
            problem = f"raises {r.exc}"
        ctx.ob("R7", label, problem is None, f"module m ({first}) with a resolved alias on it, replaced in its {holder_kind} by m ({second}): "
               + (problem or "the alias follows the module the tree keeps"), where(sm))


def _missing(model: dict, label: str) -> bool:
    """The operation addresses a path that the dictionary model does not contain (a KeyError is the documented outcome)."""
    parts = label.split(" ")[1].split(".")
    d = model
    upto = parts if label.startswith("del ") or label.startswith("resolve ") else parts[:-1]
    for p in upto:
        if not isinstance(d, dict) or p not in d:
            return True
        d = d[p]
    return False


def _broken(val, it) -> bool:
    """The value is an alias whose chain cannot be resolved."""
    from sa.absint import Raised

    try:
        it.getattr(val, "final_target")
    except Raised as r:
        return r.exc in ("AliasResolutionError", "CyclicAliasError")
    return False


def _self_cycle(alias_path: str, new_val, it) -> bool:
    """Retargeting is skipped (by design) when the new value sits at the alias's own path."""
    try:
        return it.getattr(new_val, "path") == alias_path
    except Exception:  # noqa: BLE001
        return False
