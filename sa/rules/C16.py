"""C16 - Object-tree invariants hold after any history of member mutations (structural part).

R1 ownership of `.members` writes, R2 store/parent pairing, R3 alias back-references, R4 no self-target,
R5 retargeting on replacement, R6 path arithmetic of the get/set/del mixins.
"""

from __future__ import annotations

import ast

from sa.cfg import implied
from sa.report import Ctx
from sa.srcmodel import AnalysisError, FunctionInfo, Program, ancestors, dotted, norm, parent, unparse, walk_no_nested
from sa.util import calls_in, cfg_nodes_containing, cfg_of, key, path_text, stmt_of, where

EXCLUDED = {"_griffe.tests"}
MUTATORS = {"update", "setdefault", "pop", "popitem", "clear", "__setitem__", "__delitem__"}
SET_OWNER = "_griffe.mixins.SetMembersMixin"
DEL_OWNER = "_griffe.mixins.DelMembersMixin"


def _is_members_attr(node: ast.AST) -> bool:
    return isinstance(node, ast.Attribute) and node.attr == "members"


def run(prog: Program, ctx: Ctx) -> None:  # noqa: PLR0912,PLR0915
    # ------------------------------------------------------------------ R1 ownership
    ctx.rule("R1", "item stores into a `.members` mapping exist only in SetMembersMixin, deletions only in DelMembersMixin; "
                   "everything else goes through set_member/del_member/[]")
    stores: list[tuple[FunctionInfo, ast.AST]] = []
    dels: list[tuple[FunctionInfo, ast.AST]] = []
    n_sites = 0
    for fn in prog.functions.values():
        if fn.module.name in EXCLUDED:
            continue
        owner = fn.cls.qualname if fn.cls else None
        for n in walk_no_nested(fn.node):
            kind = None
            if isinstance(n, ast.Subscript) and _is_members_attr(n.value):
                if isinstance(n.ctx, ast.Store):
                    kind = "store"
                elif isinstance(n.ctx, ast.Del):
                    kind = "del"
            elif isinstance(n, ast.Call) and isinstance(n.func, ast.Attribute) and n.func.attr in MUTATORS and _is_members_attr(n.func.value):
                kind = "del" if n.func.attr in ("pop", "popitem", "clear", "__delitem__") else "store"
            elif isinstance(n, ast.Attribute) and n.attr == "members" and isinstance(n.ctx, ast.Store):
                # whole-mapping assignment: only constructors may create the mapping
                n_sites += 1
                ctx.ob("R1", key(fn, f"members-init:{norm(stmt_of(n))}"), fn.name == "__init__" and dotted(n.value) == "self",
                       "the members mapping is created in a constructor only", where(fn, n))
                continue
            elif isinstance(n, ast.AugAssign) and (_is_members_attr(n.target) or (isinstance(n.target, ast.Subscript) and _is_members_attr(n.target.value))):
                kind = "store"
            if kind is None:
                continue
            n_sites += 1
            if kind == "store":
                ok = owner == SET_OWNER
                ctx.ob("R1", key(fn, stmt_of(n)), ok, "members store inside SetMembersMixin" if ok else
                       "direct store into a members mapping outside SetMembersMixin (bypasses parent/collection linking and alias retargeting)", where(fn, n))
                if ok:
                    stores.append((fn, n))
            else:
                ok = owner == DEL_OWNER
                ctx.ob("R1", key(fn, stmt_of(n)), ok, "members deletion inside DelMembersMixin" if ok else
                       "direct deletion from a members mapping outside DelMembersMixin", where(fn, n))
                if ok:
                    dels.append((fn, n))
    ctx.expect_min("R1", len(stores), 2)
    ctx.expect_min("R1", len(dels), 2)

    # ------------------------------------------------------------------ R2 store / parent pairing
    ctx.rule("R2", "every members store is followed on every normal path by `value.parent = self` (objects) or "
                   "`value._modules_collection = self` (collection), selected by `is_collection`")
    for fn, n in stores:
        st = stmt_of(n)
        if not (isinstance(st, ast.Assign) and isinstance(st.value, ast.Name) and isinstance(n, ast.Subscript) and dotted(n.value) == "self.members"):
            # recursive form self.members[parts[0]][parts[1:]] = value is a __setitem__ call on the child, not a store here
            continue
        val = st.value.id
        cfg = cfg_of(fn)

        def link(x, attr):
            s = x.stmt
            return x.kind == "stmt" and isinstance(s, ast.Assign) and len(s.targets) == 1 and isinstance(s.targets[0], ast.Attribute) \
                and s.targets[0].attr == attr and dotted(s.targets[0].value) == val and dotted(s.value) == "self"

        for s in [x for x in cfg.live_nodes() if x.stmt is st]:
            starts = [b for b, lab in cfg.succ[s] if lab != "exc"]
            leak = cfg.reach(starts, avoid=lambda x: link(x, "parent") or link(x, "_modules_collection"), normal_only=True) & {cfg.exit}
            wit = cfg.witness_path(s, leak, avoid=lambda x: link(x, "parent") or link(x, "_modules_collection"), normal_only=True) if leak else None
            ctx.ob("R2", key(fn, "parent-link-after-store"), not leak,
                   f"after `{norm(st)}` every path sets the stored value's parent / collection" if not leak else
                   "a path returns after the store without linking the value to its container", where(fn, st), {"path": path_text(wit)})
        for attr, want in (("parent", False), ("_modules_collection", True)):
            for x in cfg.live_nodes():
                if link(x, attr):
                    ok = cfg.dominated_by_fact(x, lambda a, t, want=want: dotted(a) == "self.is_collection" and t is want)
                    ctx.ob("R2", key(fn, f"{attr}-selected-by-is_collection"), ok,
                           f"`{val}.{attr} = self` runs exactly when is_collection is {want}", where(fn, x.stmt))

    # ------------------------------------------------------------------ R3 alias back references
    ctx.rule("R3", "every store of a non-None Alias._target (and every parent change) is followed by registration of the alias in "
                   "<target>.aliases[self.path] (guarded only by `parent is not None`)")
    alias = prog.cls("_griffe.models.Alias")
    upd = prog.lookup_method(alias, "_update_target_aliases")

    def is_registration(x, fn: FunctionInfo) -> bool:
        s = x.stmt
        if x.kind != "stmt" or s is None:
            return False
        for n in walk_no_nested(s, include_self=True):
            if isinstance(n, ast.Subscript) and isinstance(n.ctx, ast.Store) and isinstance(n.value, ast.Attribute) and n.value.attr == "aliases" \
                    and dotted(n.slice) == "self.path":
                asg = stmt_of(n)
                if isinstance(asg, ast.Assign) and dotted(asg.value) == "self":
                    return True
            if isinstance(n, ast.Call) and dotted(n.func) == "self._update_target_aliases":
                return True
        return False

    n_t = 0
    for fn in prog.functions.values():
        if fn.module.name in EXCLUDED:
            continue
        for n in walk_no_nested(fn.node):
            if isinstance(n, ast.Attribute) and n.attr == "_target" and isinstance(n.ctx, ast.Store):
                st = stmt_of(n)
                n_t += 1
                in_alias = fn.cls is alias and dotted(n.value) == "self"
                ctx.ob("R3", key(fn, f"owner:{norm(st)}"), in_alias, "Alias._target is written only by Alias methods on self", where(fn, n))
                if not in_alias or not isinstance(st, (ast.Assign, ast.AnnAssign)):
                    continue
                if isinstance(st.value, ast.Constant) and st.value.value is None:
                    continue
                cfg = cfg_of(fn)
                for s in [x for x in cfg.live_nodes() if x.stmt is st]:
                    starts = [b for b, lab in cfg.succ[s] if lab != "exc"]

                    def no_parent_edge(a, _b, label):
                        if a.kind != "test" or a.expr is None or label not in "TF":
                            return False
                        for atom, truth in implied(a.expr, label == "T"):
                            t = unparse(atom)
                            if t in ("self.parent is None", "self._parent is None") and truth:
                                return True
                            if t in ("self.parent is not None", "self._parent is not None", "self.parent", "self._parent") and not truth:
                                return True
                        return False

                    leak = cfg.reach(starts, avoid=lambda x: is_registration(x, fn), avoid_edge=no_parent_edge, normal_only=True) & {cfg.exit}
                    ctx.ob("R3", key(fn, f"register-after:{norm(st)}"), not leak,
                           "the alias registers itself with its new target" if not leak else
                           "a path returns after retargeting without registering the alias in target.aliases", where(fn, st))
            if isinstance(n, ast.Attribute) and n.attr == "_parent" and isinstance(n.ctx, ast.Store) and fn.cls is alias and fn.name != "__init__":
                st = stmt_of(n)
                cfg = cfg_of(fn)
                for s in [x for x in cfg.live_nodes() if x.stmt is st]:
                    starts = [b for b, lab in cfg.succ[s] if lab != "exc"]
                    leak = cfg.reach(starts, avoid=lambda x: is_registration(x, fn), normal_only=True) & {cfg.exit}
                    ctx.ob("R3", key(fn, "re-register-on-parent-change"), not leak,
                           "changing an alias's parent re-registers it under its new path", where(fn, st))
    ctx.expect_min("R3", n_t, 4)
    if not upd:
        raise AnalysisError("C16-R3: Alias._update_target_aliases vanished")
    reg_in_upd = any(
        isinstance(n, ast.Subscript) and isinstance(n.ctx, ast.Store) and isinstance(n.value, ast.Attribute) and n.value.attr == "aliases"
        and dotted(n.slice) == "self.path" for n in ast.walk(upd[0].node)
    )
    ctx.ob("R3", key(upd[0], "registers"), reg_in_upd, "_update_target_aliases stores self under self.path in the target's aliases", where(upd[0]))

    # ------------------------------------------------------------------ R4 no self target
    ctx.rule("R4", "an alias can never target itself: the target setter's store is dominated by the test "
                   "`value is self or value.path == self.path -> raise`; _resolve_target raises when the lookup returns the alias itself")
    setter = [f for f in alias.methods.get("target", []) if f.is_setter]
    if not setter:
        raise AnalysisError("C16-R4: Alias.target setter vanished")
    for fn in setter:
        cfg = cfg_of(fn)
        pname = fn.params[1] if len(fn.params) > 1 else "value"
        for x in cfg.live_nodes():
            s = x.stmt
            if x.kind == "stmt" and isinstance(s, ast.Assign) and any(isinstance(t, ast.Attribute) and t.attr == "_target" for t in s.targets):
                a_ok = cfg.dominated_by_fact(x, lambda a, t: not t and unparse(a) in (f"{pname} is self", f"self is {pname}"))
                b_ok = cfg.dominated_by_fact(x, lambda a, t: not t and unparse(a) in (f"{pname}.path == self.path", f"self.path == {pname}.path"))
                ctx.ob("R4", key(fn, "identity-guard"), a_ok, "store dominated by `value is self` being false", where(fn, s))
                ctx.ob("R4", key(fn, "path-guard"), b_ok, "store dominated by `value.path == self.path` being false", where(fn, s))
        raises = [r for r in walk_no_nested(fn.node) if isinstance(r, ast.Raise) and r.exc is not None and isinstance(r.exc, ast.Call) and dotted(r.exc.func) == "CyclicAliasError"]
        ctx.ob("R4", key(fn, "raises-CyclicAliasError"), bool(raises), "the rejected assignment raises CyclicAliasError", where(fn))
    for fn in alias.methods.get("_resolve_target", []):
        cfg = cfg_of(fn)
        for x in cfg.live_nodes():
            s = x.stmt
            if x.kind == "stmt" and isinstance(s, ast.Assign) and any(isinstance(t, ast.Attribute) and t.attr == "_target" for t in s.targets) and isinstance(s.value, ast.Name):
                v = s.value.id
                ok = cfg.dominated_by_fact(x, lambda a, t, v=v: not t and unparse(a) in (f"{v} is self", f"self is {v}"))
                ctx.ob("R4", key(fn, "identity-guard"), ok, "lookup result that is the alias itself is rejected before the store", where(fn, s))

    # ------------------------------------------------------------------ R5 retargeting on replacement
    ctx.rule("R5", "set_member: replacing a non-alias member first retargets every alias registered on it to the new value "
                   "(CyclicAliasError suppressed); stub merging happens only for two modules, not namespace packages, with different files")
    setm = prog.lookup_method(prog.cls(SET_OWNER), "set_member")
    if not setm:
        raise AnalysisError("C16-R5: SetMembersMixin.set_member vanished")
    fn = setm[0]
    cfg = cfg_of(fn)
    store_nodes = [x for x in cfg.live_nodes() if x.kind == "stmt" and isinstance(x.stmt, ast.Assign) and any(
        isinstance(t, ast.Subscript) and dotted(t.value) == "self.members" for t in x.stmt.targets) and isinstance(x.stmt.value, ast.Name)]
    if not store_nodes:
        raise AnalysisError("C16-R5: no members store in set_member")
    val = store_nodes[0].stmt.value.id  # type: ignore[union-attr]
    loops = []
    for x in cfg.live_nodes():
        if x.kind == "for" and isinstance(x.stmt, ast.For):
            it = unparse(x.stmt.iter)
            if ".aliases" in it:
                body_assign = [n for n in ast.walk(x.stmt) if isinstance(n, ast.Assign) and any(
                    isinstance(t, ast.Attribute) and t.attr == "target" and dotted(t.value) == dotted(x.stmt.target) for t in n.targets)
                    and dotted(n.value) == val]
                if body_assign:
                    loops.append((x, body_assign))
    ctx.ob("R5", key(fn, "retarget-loop"), bool(loops), f"a loop over <old member>.aliases assigns alias.target = {val}", where(fn))
    if loops:
        loop_node, assigns = loops[0]
        member_var = next((dotted(n.value) for n in ast.walk(loop_node.stmt.iter) if isinstance(n, ast.Attribute) and n.attr == "aliases"), None)  # type: ignore[union-attr]
        # every path to the store on which the old member exists and is not an alias passes the loop head
        branch_starts = []
        for x in cfg.live_nodes():
            if x.kind == "test" and x.expr is not None:
                for b, lab in cfg.succ[x]:
                    if lab in "TF" and any(unparse(a) == f"{member_var}.is_alias" and t is False for a, t in implied(x.expr, lab == "T")):
                        branch_starts.append(b)
        ctx.ob("R5", key(fn, "non-alias-branch"), bool(branch_starts), "the replaced member is tested for `is_alias`", where(fn))
        if branch_starts:
            heads = {loop_node}
            bad = cfg.reach(branch_starts, avoid=lambda x: x in heads, normal_only=True) & set(store_nodes)
            ctx.ob("R5", key(fn, "retarget-before-store"), not bad,
                   "on the non-alias replacement path the retarget loop runs before the store", where(fn, loop_node.stmt))
        for a in assigns:
            sup = False
            for anc in ancestors(a):
                if anc is loop_node.stmt:
                    break  # the handler must sit inside the loop body: one rejected alias must not end the loop
                if isinstance(anc, ast.With) and any("CyclicAliasError" in unparse(i.context_expr) and "suppress" in unparse(i.context_expr) for i in anc.items):
                    sup = True
                if isinstance(anc, ast.Try) and any("CyclicAliasError" in unparse(h.type) for h in anc.handlers if h.type is not None):
                    sup = True
            ctx.ob("R5", key(fn, "cyclic-suppressed-per-alias"), sup,
                   "a retarget that would create a cycle is skipped per alias (handler inside the loop), so the remaining aliases still follow the replacement",
                   where(fn, a))
    # stub-merge guard
    merges = [c for c in calls_in(fn.node) if (dotted(c.func) or "").endswith("merge_stubs")]
    for c in merges:
        nodes = cfg_nodes_containing(cfg, c)
        a0 = dotted(c.args[0]) if c.args else None
        a1 = dotted(c.args[1]) if len(c.args) > 1 else None
        for x in nodes:
            facts = {
                "old-is-module": lambda a, t: t and unparse(a) == f"{a0}.is_module",
                "new-is-module": lambda a, t: t and unparse(a) == f"{a1}.is_module",
                "not-namespace-package": lambda a, t: not t and unparse(a) == f"{a0}.is_namespace_package",
                "not-namespace-subpackage": lambda a, t: not t and unparse(a) == f"{a0}.is_namespace_subpackage",
                "different-files": lambda a, t: (t and unparse(a) in (f"{a1}.filepath != {a0}.filepath", f"{a0}.filepath != {a1}.filepath"))
                or (not t and unparse(a) in (f"{a1}.filepath == {a0}.filepath", f"{a0}.filepath == {a1}.filepath")),
                "old-not-alias": lambda a, t: not t and unparse(a) == f"{a0}.is_alias",
            }
            for name, f in facts.items():
                ctx.ob("R5", key(fn, f"merge-guard:{name}"), cfg.dominated_by_fact(x, f), f"merge_stubs is dominated by `{name}`", where(fn, c))
    ctx.expect_min("R5", len(merges), 1)

    # ------------------------------------------------------------------ R6 path arithmetic
    ctx.rule("R6", "_get_parts rejects empty keys; single-part keys act on parts[0]; multi-part keys recurse on parts[1:] through the "
                   "same-named operation of the child members[parts[0]]")
    gp = prog.function("_griffe.mixins._get_parts")
    from sa.absint import Interp as _Interp
    from sa.absint import Raised as _Raised

    itp = _Interp(prog)
    for keyv, want in (("a", ("a",)), ("a.b.c", ("a", "b", "c")), (("a", "b"), ("a", "b")), (["a"], ("a",)), ("", "raises ValueError"), ((), "raises ValueError"), ([], "raises ValueError")):
        try:
            got = tuple(itp.call(gp, keyv))
        except _Raised as r:
            got = f"raises {r.exc}"
        ctx.ob("R6", f"_get_parts|{keyv!r}", got == want, f"_get_parts({keyv!r}) = {got!r}, expected {want!r}", where(gp))
    ops = ("get_member", "set_member", "del_member", "__getitem__", "__setitem__", "__delitem__")
    n_ops = 0
    for cname in ("_griffe.mixins.GetMembersMixin", SET_OWNER, DEL_OWNER):
        cls = prog.cls(cname)
        for mname, defs in cls.methods.items():
            if mname not in ops:
                continue
            f = defs[0]
            n_ops += 1
            src_calls = [c for c in calls_in(f.node) if (dotted(c.func) or "") == "_get_parts"]
            ctx.ob("R6", key(f, "uses-_get_parts"), len(src_calls) == 1, "key is normalised through _get_parts (multi-part keys are decided on behaviour by the history table R7)", where(f))
    ctx.expect_min("R6", n_ops, 6)
    _history_table(prog, ctx)


def _history_table(prog: Program, ctx: Ctx) -> None:  # noqa: PLR0912,PLR0915
    """R7: every operation sequence up to the bound over a small universe, evaluated on the mixins' and models' own code, against a dictionary model."""
    import itertools

    from sa.absint import Interp, Obj, Raised

    ctx.rule("R7", "after every sequence of up to three insertions / replacements / deletions (by name, dotted path or tuple, on objects or on the "
                   "collection): no operation raises except KeyError for a missing key, every member's parent is its container, dotted, tuple and chained "
                   "lookups agree with a dictionary model, deleted members are gone, aliases registered on a replaced object follow the replacement, "
                   "every resolved alias is listed by its target under its current path, and no alias targets itself")
    M = "_griffe.models"
    it = Interp(prog, max_depth=60, max_steps=3_000_000)
    cc = prog.cls("_griffe.collections.ModulesCollection")
    AE = {"AliasResolutionError", "CyclicAliasError"}

    def new(cls: str, *a: object, **k: object) -> Obj:
        return it._construct(prog.cls(f"{M}.{cls}"), list(a), dict(k))

    def meth(o: Obj, name: str):
        return prog.lookup_method(o.cls, name)[0]

    def build() -> tuple[Obj, dict]:
        coll = it._construct(cc, [], {})
        m, n = new("Module", "m"), new("Module", "n")
        it.call(meth(coll, "set_member"), coll, "m", m)
        it.call(meth(coll, "set_member"), coll, "n", n)
        k = new("Class", "K")
        it.call(meth(m, "set_member"), m, "K", k)
        it.call(meth(m, "set_member"), m, "x", new("Attribute", "x"))
        it.call(meth(k, "set_member"), k, "f", new("Function", "f"))
        it.call(meth(n, "set_member"), n, "y", new("Alias", "y", "m.x"))
        it.call(meth(n, "set_member"), n, "w", new("Alias", "w", "m.K"))
        it.call(meth(n, "set_member"), n, "z", new("Alias", "z", "n.y"))  # a chain: n.z -> n.y -> m.x
        return coll, {"m": {"K": {"f": {}}, "x": {}}, "n": {"y": {}, "w": {}, "z": {}}}

    def container(coll: Obj, path: tuple[str, ...]) -> Obj:
        cur = coll
        for p in path:
            cur = cur.attrs["members"][p]
        return cur

    # operations: (label, function applied to (coll, model)) ; each returns None or the name of an exception
    def op_set(via: str, path: tuple[str, ...], factory: str):
        def make() -> Obj:
            name = path[-1]
            if factory == "object":
                return new("Attribute", name)
            if factory == "alias":
                return new("Alias", name, "m.K.f")
            if factory == "dangling alias":
                return new("Alias", name, "ext.missing")
            return new("Alias", name, ".".join(path))  # would target its own path

        def run(coll: Obj, model: dict) -> None:
            value = make()
            if via == "name":
                cont = container(coll, path[:-1])
                it.call(meth(cont, "set_member"), cont, path[-1], value)
            elif via == "dotted":
                it.call(meth(coll, "set_member"), coll, ".".join(path), value)
            elif via == "tuple":
                it.call(meth(coll, "set_member"), coll, tuple(path), value)
            elif via == "item":  # item assignment on the container
                cont = container(coll, path[:-1])
                it.call(meth(cont, "__setitem__"), cont, path[-1], value)
            elif via == "item on the collection, dotted":
                it.call(meth(coll, "__setitem__"), coll, ".".join(path), value)
            else:  # item assignment on the collection with a tuple key
                it.call(meth(coll, "__setitem__"), coll, tuple(path), value)
            d = model
            for p in path[:-1]:
                d = d[p]
            d[path[-1]] = {}

        return (f"set {'.'.join(path)} = {factory} via {via}", run)

    def op_del(via: str, path: tuple[str, ...]):
        def run(coll: Obj, model: dict) -> None:
            if via == "name":
                cont = container(coll, path[:-1])
                it.call(meth(cont, "del_member"), cont, path[-1])
            elif via == "dotted":
                it.call(meth(coll, "del_member"), coll, ".".join(path))
            else:
                it.call(meth(coll, "__delitem__"), coll, tuple(path))
            d = model
            for p in path[:-1]:
                d = d[p]
            del d[path[-1]]

        return (f"del {'.'.join(path)} via {via}", run)

    def op_resolve(path: tuple[str, ...]):
        def run(coll: Obj, _model: dict) -> None:
            a = container(coll, path)
            try:
                it.getattr(a, "target")
            except Raised as r:
                if r.exc not in AE:
                    raise

        return (f"resolve {'.'.join(path)}", run)

    def op_move(src: tuple[str, ...], dst: tuple[str, ...]):
        """Take a subtree out and attach the same objects somewhere else (after their paths were read by the previous walk)."""
        def run(coll: Obj, model: dict) -> None:
            obj = container(coll, src)
            for pth_, o_ in ((src, obj), *(((*src, n_), c_) for n_, c_ in obj.attrs.get("members", {}).items())):
                it.getattr(o_, "path")  # somebody looked at the paths before the move
            sc = container(coll, src[:-1])
            it.call(meth(sc, "del_member"), sc, src[-1])
            dc = container(coll, dst[:-1])
            it.call(meth(dc, "set_member"), dc, dst[-1], obj)
            d = model
            for p in src[:-1]:
                d = d[p]
            sub = d.pop(src[-1])
            d = model
            for p in dst[:-1]:
                d = d[p]
            d[dst[-1]] = sub

        return (f"move {'.'.join(src)} to {'.'.join(dst)}", run)

    ops = [
        op_move(("m", "K"), ("n", "K")),
        op_set("name", ("m", "x"), "object"), op_set("dotted", ("m", "x"), "object"), op_set("tuple", ("m", "K", "f"), "object"), op_set("item", ("m", "x"), "object"),
        op_set("name", ("m", "x"), "alias"), op_set("name", ("m", "x"), "dangling alias"), op_set("name", ("m", "x"), "self alias"), op_set("dotted", ("m", "K"), "object"),
        op_set("name", ("m", "z"), "object"), op_set("name", ("n", "y"), "alias"),
        op_set("item on the collection, dotted", ("m", "x"), "object"), op_set("item on the collection, tuple", ("m", "K", "f"), "object"),
        op_del("name", ("m", "x")), op_del("dotted", ("m", "K", "f")), op_del("tuple", ("n", "y")), op_del("dotted", ("m", "x")),
        op_resolve(("n", "y")), op_resolve(("n", "w")), op_resolve(("n", "z")),
    ]

    def walk(o: Obj, model: dict, path: tuple[str, ...], problems: list[str], coll: Obj) -> None:
        members = o.attrs["members"]
        if sorted(members) != sorted(model):
            problems.append(f"{'.'.join(path) or '<collection>'} has members {sorted(members)}, the model has {sorted(model)}")
            return
        for name, child in members.items():
            cpath = (*path, name)
            if path and it.getattr(child, "parent") is not o:
                problems.append(f"parent of {'.'.join(cpath)} is not its container")
            if child.attrs.get("name") != name:
                problems.append(f"{'.'.join(cpath)} is stored under a key different from its name")
            try:
                own_path = it.getattr(child, "path")
            except Raised as r:
                own_path = f"raises {r.exc}"
            if own_path != ".".join(cpath):
                problems.append(f"the member at {'.'.join(cpath)} reports the path {own_path}")
            for form, keyv in (("dotted", ".".join(cpath)), ("tuple", tuple(cpath)), ("item syntax", ".".join(cpath)), ("item syntax with a tuple", tuple(cpath))):
                try:
                    got = it.call(meth(coll, "__getitem__" if form.startswith("item") else "get_member"), coll, keyv)
                except Raised as r:
                    got = f"raises {r.exc}"
                if got is not child:
                    problems.append(f"{form} lookup of {'.'.join(cpath)} gives {got}")
            is_alias = child.cls is not None and child.cls.name == "Alias"
            if is_alias:
                tgt = child.attrs.get("_target")
                if tgt is child:
                    problems.append(f"alias {'.'.join(cpath)} targets itself")
                hops = 0
                while isinstance(tgt, Obj) and tgt.cls is not None and tgt.cls.name == "Alias" and hops < 8:  # a chain registers on the object at its end
                    tgt = tgt.attrs.get("_target")
                    hops += 1
                if isinstance(tgt, Obj) and tgt.cls is not None and tgt.cls.name != "Alias":
                    reg = tgt.attrs.get("aliases", {})
                    if reg.get(".".join(cpath)) is not child:
                        problems.append(f"resolved alias {'.'.join(cpath)} is not listed by its target {it.getattr(tgt, 'path')} (listed: {sorted(reg)})")
                # members seen through an alias: dotted, tuple and chained lookups all give the member *at the alias's path*
                if isinstance(tgt, Obj) and tgt.cls is not None and tgt.cls.name != "Alias" and tgt.attrs.get("members"):
                    for sub in list(tgt.attrs["members"]):
                        want_path = ".".join((*cpath, sub))
                        seen_paths_ = {}
                        for form, call_ in (("dotted", lambda: it.call(meth(coll, "get_member"), coll, want_path)),
                                            ("tuple", lambda: it.call(meth(coll, "get_member"), coll, (*cpath, sub))),
                                            ("chained", lambda: it.call(meth(child, "get_member"), child, sub))):
                            try:
                                seen_paths_[form] = it.getattr(call_(), "path")
                            except Raised as r:
                                seen_paths_[form] = f"raises {r.exc}"
                        if set(seen_paths_.values()) != {want_path}:
                            problems.append(f"lookups of {want_path} through the alias {'.'.join(cpath)} give objects at {seen_paths_}")
            else:
                walk(child, model[name], cpath, problems, coll)

    n_hist = 0
    reported: set[str] = set()
    depth = 3 if ctx.tier == "thorough" else 2
    singles = [(o,) for o in ops]
    pairs = list(itertools.product(ops, repeat=2))
    triples = list(itertools.product(ops, repeat=3)) if depth == 3 else []
    for hist in [*singles, *pairs, *triples]:
        coll, model = build()
        # resolve the two aliases first in half of the universes (registered aliases follow replacements)
        labels = []
        problem = None
        it.steps = 0
        for label, fn in hist:
            labels.append(label)
            before_regs = {}
            try:
                tgt_path = label.split(" ")[1] if label.startswith("set ") else None
                if tgt_path:
                    try:
                        old = container(coll, tuple(tgt_path.split(".")))
                        before_regs = dict(old.attrs.get("aliases", {})) if old.cls is not None and old.cls.name != "Alias" else {}
                    except KeyError:
                        before_regs = {}
                fn(coll, model)
            except KeyError:
                break  # the operation addresses something an earlier step removed: a model-level KeyError, nothing to check
            except Raised as r:
                legit = r.exc == "KeyError" and _missing(model, label)
                if legit:
                    break
                problem = f"`{label}` raises {r.exc}"
                break
            problems: list[str] = []
            walk(coll, model, (), problems, coll)
            if tgt_path and "via item" not in label and not problems:
                new_val = container(coll, tuple(tgt_path.split(".")))
                for apath, a in before_regs.items():
                    if a.attrs.get("_target") is not new_val and a is not new_val and not _self_cycle(apath, new_val, it):
                        # a replacement that is itself an alias with an unresolvable chain cannot be linked to: the alias then stays
                        # unresolved, pointing at the replacement's path (all-or-nothing, C06)
                        if a.attrs.get("_target") is None and a.attrs.get("target_path") == it.getattr(new_val, "path") and _broken(new_val, it):
                            continue
                        problems.append(f"alias {apath} still targets the replaced object after `{label}`")
            if problems:
                problem = problems[0]
                break
        n_hist += 1
        ok = problem is None
        k = f"history|{' ; '.join(labels)}"
        if not ok:
            cls_key = f"history-class|{labels[-1]}|{problem.split(' raises ')[-1] if ' raises ' in problem else problem[:60]}"
            if cls_key in reported:
                continue
            reported.add(cls_key)
            k = cls_key
        ctx.ob("R7", k, ok, f"after {labels}: " + ("all invariants hold" if ok else problem), "src/_griffe/mixins.py")
    ctx.expect_min("R7", n_hist, 250)
    ctx.analysed["histories"] = n_hist
    # an alias that is not in a tree yet (the producer API builds it first, attaches it later) can be given its target
    for tkind in ("Function", "Alias"):
        it.steps = 0
        try:
            free = new("Alias", "a", "m.f")
            tgt_ = new("Function", "f") if tkind == "Function" else new("Alias", "f", "m.g")
            it.call(next(f_ for f_ in prog.lookup_method(free.cls, "target") if f_.is_setter), free, tgt_)
            problem = None if free.attrs.get("_target") is tgt_ and free.attrs.get("target_path") == "f" else f"target {free.attrs.get('_target')}, target_path {free.attrs.get('target_path')}"
        except Raised as r:
            problem = f"raises {r.exc}"
        ctx.ob("R7", f"parentless-alias|target = a {tkind}", problem is None, f"`alias.target = <{tkind} f>` on an alias without parent: " + (problem or "target and target path set"), "src/_griffe/models.py")
    # a module replaced by its stubs counterpart (or the stubs by the module) while a resolved alias is registered on it: the alias ends up on
    # whichever module object the tree keeps
    from pathlib import PurePosixPath as PP

    sm = prog.function("_griffe.mixins.SetMembersMixin.set_member")
    for holder_kind, (first, second) in itertools.product(("collection", "package"), ((".py", ".pyi"), (".pyi", ".py"))):
        it.steps = 0
        label = f"stubs-merge|{holder_kind}|{first} then {second}"
        try:
            coll = it._construct(cc, [], {})
            if holder_kind == "package":
                holder = new("Module", "p", filepath=PP("/s/p/__init__.py"))
                it.call(meth(coll, "set_member"), coll, "p", holder)
                base, target_path = "/s/p/m", "p.m"
            else:
                holder, base, target_path = coll, "/s/m", "m"
            m1 = new("Module", "m", filepath=PP(base + first))
            it.call(meth(holder, "set_member"), holder, "m", m1)
            it.call(meth(m1, "set_member"), m1, "x", new("Attribute", "x"))
            n_ = new("Module", "n", filepath=PP("/s/n.py"))
            it.call(meth(coll, "set_member"), coll, "n", n_)
            a = new("Alias", "v", target_path)
            it.call(meth(n_, "set_member"), n_, "v", a)
            it.getattr(a, "target")
            m2 = new("Module", "m", filepath=PP(base + second))
            it.call(meth(m2, "set_member"), m2, "x", new("Attribute", "x"))
            it.call(meth(holder, "set_member"), holder, "m", m2)
            stored = holder.attrs["members"]["m"]
            if a.attrs.get("_target") is not stored:
                problem = "the alias n.v targets a module object that is not the one stored in the tree"
            elif stored.attrs.get("aliases", {}).get("n.v") is not a:
                problem = "the stored module does not list the alias n.v"
            else:
                problem = None
        except Raised as r:
            problem = f"raises {r.exc}"
        ctx.ob("R7", label, problem is None, f"module m ({first}) with a resolved alias on it, replaced in its {holder_kind} by m ({second}): "
               + (problem or "the alias follows the module the tree keeps"), where(sm))


def _missing(model: dict, label: str) -> bool:
    """The operation addresses a path that the dictionary model does not contain (a KeyError is the documented outcome)."""
    parts = label.split(" ")[1].split(".")
    d = model
    upto = parts if label.startswith("del ") or label.startswith("resolve ") else parts[:-1]
    for p in upto:
        if not isinstance(d, dict) or p not in d:
            return True
        d = d[p]
    return False


def _broken(val, it) -> bool:
    """The value is an alias whose chain cannot be resolved."""
    from sa.absint import Raised

    try:
        it.getattr(val, "final_target")
    except Raised as r:
        return r.exc in ("AliasResolutionError", "CyclicAliasError")
    return False


def _self_cycle(alias_path: str, new_val, it) -> bool:
    """Retargeting is skipped (by design) when the new value sits at the alias's own path."""
    try:
        return it.getattr(new_val, "path") == alias_path
    except Exception:  # noqa: BLE001
        return False
