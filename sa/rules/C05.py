"""C05 - Imports, re-exports and wildcards resolve as CPython imports them (structural part).

R1 wildcard exposure table, R2 later-wins ordering table, R3 Alias proxy completeness / same-name forwarding / path rebasing,
R4 `__all__` collection tables, R5 exports expansion (must-pass-through), R6 import-map writes and self-alias guard.
"""

from __future__ import annotations

import ast
import itertools

from sa.absint import Env, Interp, Raised
from sa.cfg import implied
from sa.report import Ctx
from sa.srcmodel import AnalysisError, FunctionInfo, Program, dotted, norm, unparse, walk_no_nested
from sa.tables import visibility
from sa.util import calls_in, cfg_of, key, kwarg, node_index, stmt_of, where

L = "_griffe.loader.GriffeLoader"
MODELS = ("Object", "Module", "Class", "Function", "Attribute")


def exports_table(prog: Program, ctx: Ctx, rule: str) -> None:
    """What a module's `__all__` statements leave in `Module.exports`, on the visitor's own code (shared by C05-R4 and C01-R12)."""
    ctx.rule(rule, "__all__ collection: the extraction table handles list/tuple/set/+/names/attributes/starred/constants; `__all__ += ...` extends "
                   "exports exactly for the name __all__ in a module with the + operator; assignment to __all__ sets exports")
    from sa.tables.extraction import Extraction

    exn = Extraction(prog)
    gm = prog.function("_griffe.agents.visitor.Visitor.get_module")

    def shown(x: object) -> str:
        if isinstance(x, str):
            return x
        try:
            return "<" + exn.it.getattr(x, "canonical_path") + ">"  # a reference to another module's __all__, by the path it resolves to
        except Raised:
            return "<" + exn.it._str(x) + ">"

    cases = {  # source -> the list Python builds, references to other modules' __all__ kept symbolic
        '__all__ = ["a", "b"]': ["a", "b"],
        '__all__ = ("a", "b")': ["a", "b"],
        '__all__ = {"a"}': ["a"],
        '__all__ = ["a"] + ["b"] + ["c"]': ["a", "b", "c"],
        'from o import __all__ as o_all\n__all__ = [*o_all, "c"]': ["<o.__all__>", "c"],
        'from o import __all__ as o_all\n__all__ = ["a", *o_all]': ["a", "<o.__all__>"],
        'import o\n__all__ = o.__all__ + ["d"]': ["<o.__all__>", "d"],
        'import o\n__all__ = ["d"] + o.__all__': ["d", "<o.__all__>"],
        '__all__ = ["a"]\n__all__ += ["e", "f"]': ["a", "e", "f"],
        'import o\n__all__ = ["a"]\n__all__ += o.__all__': ["a", "<o.__all__>"],
        'import o\nimport p\n__all__ = ["a"]\n__all__ += o.__all__\n__all__ += p.__all__': ["a", "<o.__all__>", "<p.__all__>"],
        'import o\n__all__ = ["a"]\n__all__ += o.__all__\n__all__ += o.__all__': ["a", "<o.__all__>", "<o.__all__>"],
        '__all__ = ["a"]\n__all__ += ["e"]\n__all__ += ["g"]': ["a", "e", "g"],
        '__all__ = ["a", "b"]\n__all__ += ["a", "c"]\n__all__ += ["c"]': ["a", "b", "a", "c", "c"],  # list concatenation keeps repeated items
        '__all__ = ["a"]\nother = ["z"]\nother += ["y"]': ["a"],
        '__all__ = ["a"]\nclass K:\n    pass\nK.__all__ = ["q"]': ["a"],
        '__all__ = ["a"]\n__all__ = ["b"]': ["b"],
        '__all__ = ["a"]\n__all__ = __all__ + ["g"]': ["a", "g"],
        '__all__ = ["a"]\n__all__ = ["z"] + __all__': ["z", "a"],
        '__all__: list[str] = ["a"]': ["a"],
        'x = 1': None,
        '__all__ = []': [],
    }
    for src, want in cases.items():
        mod = exn.module(src + "\n")
        if isinstance(mod, str):
            got: object = mod
        else:
            ex_ = mod.attrs.get("exports")
            got = None if ex_ is None else [shown(x) for x in ex_]
        ctx.ob(rule, f"exports|{src}", got == want, f"`{src}` gives exports {got}; Python builds {want}", where(gm))



def run(prog: Program, ctx: Ctx) -> None:  # noqa: PLR0912,PLR0915
    # ------------------------------------------------------------------ R1
    ctx.rule("R1", "is_wildcard_exposed equals `from m import *` semantics on every abstract state: runtime object with a module parent; "
                   "__all__ present -> listed; else no leading underscore (sub-modules only when the parent imports them)")
    rows = visibility.tabulate(prog, "is_wildcard_exposed")
    bad = [(s, g, w) for s, g, w in rows if g != w]
    f = prog.lookup_method(prog.cls(visibility.MIXIN), "is_wildcard_exposed")[0]
    ctx.ob("R1", f"is_wildcard_exposed|table({len(rows)} rows)", not bad,
           f"equal to the reference on {len(rows)} abstract states" if not bad else f"differs on {len(bad)} states", where(f),
           {"first_rows": [(visibility.fmt(s), g, w) for s, g, w in bad[:5]]})
    for s, g, w in bad[:3]:
        ctx.ob("R1", f"is_wildcard_exposed|{visibility.fmt(s)}", False, f"code gives {g}, `from m import *` semantics give {w} for [{visibility.fmt(s)}]", where(f))
    ctx.expect_min("R1", len(rows), 900)
    # (that expansion collects exactly the exposed members, and never an unexpanded wildcard placeholder, is decided on behaviour by the wildcard table
    # R2 and by C06-R8 "no placeholder is left"; a check of the collector's filter text was retired when the collector was renamed and rewritten as a loop)

    # an unexpandable wildcard placeholder of the source module is not a name: `b: from ext import *; y = 1` (ext not loaded), `a: from pkg.b import *`
    from sa.absint import Native as _Native
    from sa.absint import Obj as _Obj
    from sa.absint import Raised as _Raised
    from sa.tables.aliasgraphs import PackageTable as _PT

    _t = _PT(prog)
    try:
        _t.it.steps = 0
        _coll = _t.it._construct(_t.cc, [], {})
        _pkg = _t.new("Module", "pkg", filepath=_t.PP("/s/pkg/__init__.py"))
        _t.setm(_coll, "pkg", _pkg)
        _ma, _mb = (_t.new("Module", n_, filepath=_t.PP(f"/s/pkg/{n_}.py")) for n_ in "ab")
        _t.setm(_pkg, "a", _ma)
        _t.setm(_pkg, "b", _mb)
        _t.setm(_mb, "ext/*", _t.new("Alias", "ext/*", "ext", lineno=1, endlineno=1))
        _mb.attrs["imports"]["ext/*"] = "ext"
        _t.setm(_mb, "y", _t.new("Attribute", "y", lineno=2, endlineno=2))
        _t.setm(_ma, "pkg/b/*", _t.new("Alias", "pkg/b/*", "pkg.b", lineno=1, endlineno=1))
        _ma.attrs["imports"]["pkg/b/*"] = "pkg.b"
        _loader = _Obj(prog.cls(L), {"modules_collection": _coll, "extensions": _Obj(None, {"call": _Native(lambda *_a, **_k: None)})}, label="loader")
        _t.it.call(_t.fns["expand_wildcards"], _loader, _pkg, external=False)
        got_ph: object = sorted(_ma.attrs["members"])
    except _Raised as r_:
        got_ph = f"raises {r_.exc}"
    ctx.ob("R1", "wildcard|placeholder of the source module is not imported", got_ph == ["y"],
           f"b: `from ext import *` (ext not loaded: the placeholder stays) and `y = 1`; a: `from pkg.b import *` -> members of a {got_ph}; expected ['y'] "
           "(the unexpanded placeholder `ext/*` is not a runtime name)", where(prog.function(f"{L}.expand_wildcards")))

    # ------------------------------------------------------------------ R2
    ctx.rule("R2", "expand_wildcards: an existing member is overwritten exactly when the wildcard import sits on a later line (missing line = 0); "
                   "the alias is added iff it is not a self-alias and (the name is new or overwrite)")
    from sa.importrules import wildcard_table

    wildcard_table(prog, ctx, "R2", importers=True)

    # ------------------------------------------------------------------ R3
    ctx.rule("R3", "every public attribute / property / method of Object, Module, Class, Function, Attribute exists on Alias; each proxy reads the "
                   "same-named attribute of the (final) target; members are re-wrapped as aliases parented to the alias (path rebasing)")
    alias = prog.cls("_griffe.models.Alias")
    pub: dict[str, str] = {}
    for cn in MODELS:
        c = prog.cls(f"_griffe.models.{cn}")
        for c2 in prog.mro(c):
            if c2.module.name.endswith("mixins"):
                continue
            for n in list(c2.methods) + list(c2.class_annots):
                if not n.startswith("_"):
                    pub.setdefault(n, c2.name)
        for fn in c.methods.get("__init__", []):
            for n in walk_no_nested(fn.node):
                if isinstance(n, (ast.AnnAssign, ast.Assign)):
                    t = n.target if isinstance(n, ast.AnnAssign) else n.targets[0]
                    if isinstance(t, ast.Attribute) and dotted(t.value) == "self" and not t.attr.startswith("_"):
                        pub.setdefault(t.attr, cn)
    have: set[str] = set()
    for c in prog.mro(alias):
        have |= set(c.methods) | set(c.class_annots) | set(c.class_attrs)
    for fn in alias.methods.get("__init__", []):
        for n in walk_no_nested(fn.node):
            if isinstance(n, (ast.AnnAssign, ast.Assign)):
                t = n.target if isinstance(n, ast.AnnAssign) else n.targets[0]
                if isinstance(t, ast.Attribute) and dotted(t.value) == "self":
                    have.add(t.attr)
    for n, owner in sorted(pub.items()):
        ctx.ob("R3", f"proxy-exists|{n}", n in have, f"{owner}.{n} is available on Alias", f"{alias.module.relpath}:{alias.node.lineno}")
    ctx.expect_min("R3", len(pub), 55)
    n_proxies = 0
    for name, defs in sorted(alias.methods.items()):
        if name in ("target", "final_target", "resolve_target", "_resolve_target", "_update_target_aliases", "__init__", "resolved", "as_json"):
            continue
        for fn in defs:
            reads: set[str] = set()
            for n in ast.walk(fn.node):
                if isinstance(n, ast.Attribute):
                    base = n.value
                    if isinstance(base, ast.Call) and dotted(base.func) == "cast" and len(base.args) == 2:
                        base = base.args[1]
                    if unparse(base) in ("self.final_target", "self.target", "final_target", "self._target"):
                        reads.add(n.attr)
            reads -= {"aliases"} if name != "aliases" else set()
            if not reads:
                continue
            n_proxies += 1
            ctx.ob("R3", f"proxy-forwards|{name}{'(setter)' if fn.is_setter else ''}", name in reads,
                   f"Alias.{name} forwards to the target's `{name}`" if name in reads else f"Alias.{name} reads {sorted(reads)} of its target (cross-wired proxy)", where(fn))
    ctx.expect_min("R3", n_proxies, 50)
    for mname, inherited in (("members", False), ("inherited_members", True)):
        for fn in alias.methods.get(mname, []):
            wraps = [c for c in calls_in(fn.node) if dotted(c.func) == "Alias"]
            comps = [n for n in ast.walk(fn.node) if isinstance(n, ast.DictComp)]
            unconditional = len(comps) == 1 and len(wraps) == 1 and comps[0].value is wraps[0] and not comps[0].generators[0].ifs
            ok = unconditional and len(wraps) == 1 and unparse(kwarg(wraps[0], "parent")) == "self" and unparse(kwarg(wraps[0], "inherited")) == str(inherited) \
                and (unparse(kwarg(wraps[0], "target")) if kwarg(wraps[0], "target") is not None else (unparse(wraps[0].args[1]) if len(wraps[0].args) > 1 else "")) == "member" \
                and unparse(wraps[0].args[0]) == "name"
            ctx.ob("R3", f"rebased|{mname}", ok, f"Alias.{mname} wraps each target member in Alias(name, target=member, parent=self, inherited={inherited})", where(fn))
    pth = alias.methods.get("path", [])
    ok = bool(pth) and any(isinstance(n, ast.JoinedStr) and "self.parent.path" in unparse(n) and "self.name" in unparse(n) for n in ast.walk(pth[0].node))
    ctx.ob("R3", "alias-path", ok, "an alias's path is its own parent's path plus its own name", where(pth[0]) if pth else "")

    # ------------------------------------------------------------------ R4
    exports_table(prog, ctx, "R4")

    # ------------------------------------------------------------------ R5
    ctx.rule("R5", "expand_exports: strings are kept, a referenced module's exports are spliced in place after that module was expanded itself; "
                   "the recursion into sub-modules is reached on every path (also when the module has no __all__)")
    xe = prog.function(f"{L}.expand_exports")
    cfg = cfg_of(xe)
    subloops = [n for n in cfg.live_nodes() if n.kind == "for" and isinstance(n.stmt, ast.For) and ".modules" in unparse(n.stmt.iter)
                and any(isinstance(c, ast.Call) and dotted(c.func) == "self.expand_exports" for c in ast.walk(n.stmt))]
    ctx.ob("R5", key(xe, "submodule-loop"), len(subloops) == 1, "expand_exports recurses into the module's sub-modules", where(xe))
    if subloops:
        leak = cfg.reach(cfg.entry, avoid=lambda x: x in subloops, normal_only=True) & {cfg.exit}
        wit = cfg.witness_path(cfg.entry, leak, avoid=lambda x: x in subloops, normal_only=True) if leak else None
        from sa.util import path_text

        ctx.ob("R5", key(xe, "submodules-on-every-path"), not leak,
               "every path through expand_exports reaches the sub-module recursion" if not leak else
               "a path returns before the sub-module recursion: sub-modules' __all__ are never expanded on that path", where(xe), {"path": path_text(wit)})
    idx = node_index(xe)
    rec = [c for c in calls_in(xe.node) if dotted(c.func) == "self.expand_exports" and c.args and unparse(c.args[0]) != "submodule"]
    reads = [n for n in walk_no_nested(xe.node) if isinstance(n, ast.Attribute) and n.attr == "exports" and isinstance(n.ctx, ast.Load) and unparse(n.value) not in ("module",)]
    ok = bool(rec) and bool(reads)
    if ok:
        r_nodes = {x for c in rec for x in idx.get(id(c), [])}
        seen_var = xe.params[2] if len(xe.params) > 2 else "seen"
        for rd in reads:
            for x in idx.get(id(rd), []):
                # the read is preceded on every path by the recursion, unless the module was already seen
                def skip(a, _b, label):
                    if a.kind != "test" or a.expr is None or label not in "TF":
                        return False
                    return any(isinstance(at, ast.Compare) and isinstance(at.ops[0], ast.NotIn) and unparse(at.comparators[0]) == seen_var and tr is False
                               for at, tr in implied(a.expr, label == "T"))

                before = cfg.reach(cfg.entry, avoid=lambda y: y in r_nodes, avoid_edge=skip, normal_only=True)
                ok = ok and x not in before
    ctx.ob("R5", key(xe, "recurse-before-read"), ok, "a referenced module is expanded (unless already seen) before its exports are spliced in", where(xe))
    app = [c for c in calls_in(xe.node) if isinstance(c.func, ast.Attribute) and c.func.attr == "append" and unparse(c.func.value) == "expanded" and unparse(c.args[0]) == "export"]
    ctx.ob("R5", key(xe, "strings-kept"), len(app) == 1, "plain string entries are kept as they are, in order", where(xe))
    store = [s for s in walk_no_nested(xe.node) if isinstance(s, ast.Assign) and unparse(s.targets[0]) == "module.exports" and unparse(s.value) == "expanded"]
    ctx.ob("R5", key(xe, "result-stored"), len(store) == 1, "the expanded list replaces module.exports", where(xe))

    # R5 table: expand_exports evaluated on small module graphs, every order of the sub-module dictionary.  `__all__ = [*m.__all__, "x"]` is list
    # concatenation: a module's expanded exports are its entries in order, a referenced module's list spliced in place (first occurrence kept).
    from sa.absint import Native, Obj

    graphs = {
        "shared-base": {"pkg": None, "pkg.base": ["A", "B"], "pkg.shapes": [("pkg.base",), "S"], "pkg.colors": [("pkg.base",), "R"],
                        "pkg.api": [("pkg.shapes",), ("pkg.colors",)]},
        "root-facade": {"pkg": [("pkg.a",), ("pkg.b",), "top"], "pkg.a": ["x", ("pkg.c",)], "pkg.b": [("pkg.c",), "y"], "pkg.c": ["z"]},
        "chain": {"pkg": None, "pkg.a": [("pkg.b",), "a"], "pkg.b": [("pkg.c",), "b"], "pkg.c": [("pkg.d",), "c"], "pkg.d": ["d"]},
        "unknown-module": {"pkg": [("ext.mod",), "k"], "pkg.a": ["a"]},
    }

    def flat(g: dict, path: str, stack: tuple = ()) -> list | None:
        if g[path] is None:
            return None
        out: list = []
        for e in g[path]:
            items = [e] if isinstance(e, str) else (flat(g, e[0], (*stack, path)) or [] if e[0] in g and e[0] not in stack else [])
            out += [x for x in items if x not in out]
        return out

    it5 = Interp(prog, max_depth=40)
    name_cls = prog.cls("_griffe.expressions.ExprName")
    n_tab = 0
    for gname, g in graphs.items():
        subs = [p for p in g if p != "pkg"]
        orders = list(itertools.permutations(subs)) if len(subs) <= 4 else [tuple(subs), tuple(reversed(subs))]
        for order in orders:
            objs: dict[str, Obj] = {}
            for pth in g:
                objs[pth] = Obj(prog.cls("_griffe.models.Module"), {"name": pth.rsplit(".", 1)[-1], "path": pth, "is_alias": False, "modules": {}}, label=pth)
            for pth, ex in g.items():
                objs[pth].attrs["exports"] = None if ex is None else [
                    e if isinstance(e, str) else Obj(name_cls, {"name": "__all__", "canonical_path": f"{e[0]}.__all__", "parent": None}, label=f"{e[0]}.__all__") for e in ex]
            objs["pkg"].attrs["modules"] = {p.rsplit(".", 1)[-1]: objs[p] for p in order}

            def get_member(path, objs=objs):
                if path not in objs:
                    raise Raised("KeyError")
                return objs[path]

            loader = Obj(prog.cls(L), {"modules_collection": Obj(None, {"get_member": Native(get_member)})}, label="loader")
            try:
                it5.steps = 0
                it5.call(xe, loader, objs["pkg"])
                got = {p: (None if o.attrs["exports"] is None else [x if isinstance(x, str) else f"<{x.label}>" for x in o.attrs["exports"]]) for p, o in objs.items()}
            except Raised as r:
                got = {"<raises>": r.exc}
            want = {p: flat(g, p) for p in g}
            n_tab += 1
            bad = {p: (got.get(p), want[p]) for p in want if got.get(p) != want[p]}
            ctx.ob("R5", f"exports-table|{gname}|order={','.join(x.rsplit('.', 1)[-1] for x in order)}", not bad,
                   f"graph {gname}, sub-modules walked as {[x.rsplit('.', 1)[-1] for x in order]}: every module's expanded __all__ equals the concatenation Python computes" if not bad else
                   f"graph {gname}, sub-modules walked as {[x.rsplit('.', 1)[-1] for x in order]}: " + "; ".join(f"{p}.__all__ = {g_} but Python gives {w_}" for p, (g_, w_) in bad.items()),
                   where(xe))
    ctx.expect_min("R5", n_tab, 40)

    # ------------------------------------------------------------------ R6
    from sa.importrules import import_rules, importfrom_table

    import_rules(prog, ctx, "R6")
    importfrom_table(prog, ctx, "R7")
