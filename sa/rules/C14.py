"""C14 - Module discovery matches the import system, independent of listing order (structural part).

The finder's functions are evaluated abstractly over a *virtual* file system (pure path arithmetic, nothing on disk):
R1 listing-order independence: find_package / submodules / .pth handling give the same result under different directory-listing orders; every
   listing source in finder.py is order-clean (sorted / min / membership only) before it reaches an order-sensitive consumer;
R2 precedence table of find_package against the import system's rule (first search path wins; package directory before module file;
   namespace portions accumulate; stubs);
R3 sub-module enumeration table (names, __pycache__, namespace portions, stub-only packages);
R4 module classification table (init module / package / sub-package / namespace package / namespace sub-package).
"""

from __future__ import annotations

import ast
import itertools
from pathlib import PurePosixPath as PP

from sa.absint import Interp, Native, Obj, Raised
from sa.report import Ctx
from sa.srcmodel import AnalysisError, FunctionInfo, Program, dotted, norm, parent, unparse, walk_no_nested
from sa.util import calls_in, key, stmt_of, where

F = "_griffe.finder"
LISTING_CALLS = {"iterdir", "listdir", "scandir", "glob", "rglob", "walk"}
ORDERS = {"sorted": lambda xs: sorted(xs), "reversed": lambda xs: sorted(xs, reverse=True), "rotated": lambda xs: (sorted(xs)[1:] + sorted(xs)[:1])}


def _vfs(files: dict[str, str], links: dict[str, str] | None = None) -> dict:
    """Virtual file system.  `links` are directory symlinks (name -> target directory): the target's files are reachable under both names."""
    fs = {PP(k): v for k, v in files.items()}
    lk = {PP(k): PP(v) for k, v in (links or {}).items()}
    for name, target in lk.items():
        if name.is_relative_to(target):
            raise AnalysisError(f"virtual symlink {name} -> {target} would loop")
        for f, text in list(fs.items()):
            if f.is_relative_to(target):
                fs[name / f.relative_to(target)] = text
    dirs = set()
    for p in fs:
        for anc in p.parents:
            dirs.add(anc)
    return {"files": fs, "dirs": dirs, "links": lk}


def _walk(i, top, topdown=True, followlinks=False, **_k):  # noqa: ANN001,ARG001
    """os.walk over the virtual file system: a generator that honours in-place pruning of the directory list, in the injected listing order."""
    vfs = i.vfs
    files, dirs, order = vfs["files"], vfs["dirs"], vfs.get("order", lambda x: x)

    def gen(d):
        entries = order(sorted(p for p in [*files, *dirs] if p.parent == d and p != d))
        dnames = [p.name for p in entries if p in dirs and (followlinks or p not in vfs.get("links", {}))]
        fnames = [p.name for p in entries if p in files]
        yield (str(d), dnames, fnames)
        for name in list(dnames):
            yield from gen(d / name)

    return gen(PP(top))


def _realpath(i, p, **_k):  # noqa: ANN001
    p = PP(p)
    for name, target in i.vfs.get("links", {}).items():
        if p == name or p.is_relative_to(name):
            return str(target / p.relative_to(name))
    return str(p)


def run(prog: Program, ctx: Ctx) -> None:  # noqa: PLR0912,PLR0915
    it = Interp(prog, max_steps=400_000)
    fcls = prog.cls(f"{F}.ModuleFinder")
    it.ext_handlers["pathlib.Path"] = lambda _i, *a: PP(*[str(x) for x in a])
    it.ext_handlers["os.path.splitext"] = lambda _i, p: __import__("os").path.splitext(p)
    it.ext_handlers["os.walk"] = _walk
    it.ext_handlers["os.path.realpath"] = _realpath
    it.ext_handlers["os.path.exists"] = lambda i, p: PP(p) in i.vfs["files"] or PP(p) in i.vfs["dirs"]

    def finder(search_paths: list[str], vfs: dict, order: str) -> Obj:
        vfs = {**vfs, "order": ORDERS[order]}
        it.vfs = vfs

        # (_is_pkg_style_namespace is evaluated on the file's text: the vfs serves read_text)
        # built by its own constructor (over the virtual file system: no .pth files unless the layout has some), so that the finder's private
        # state is whatever the current source calls it
        it.steps = 0
        try:
            return it._construct(fcls, [[PP(p) for p in search_paths]], {})
        except Raised as r:
            ctx.ob("R2", f"constructor|{search_paths}|{r.exc}", False, f"ModuleFinder({search_paths}) raises {r.exc} over a layout without .pth files", where(fp))
            return Obj(fcls, {"search_paths": [PP(p) for p in search_paths], "_paths_contents": {}, "_always_scan_for": {}}, label="finder")

    def describe(pkg) -> str:
        if isinstance(pkg, Obj) and pkg.cls is not None:
            if pkg.cls.name == "Package":
                return f"Package({pkg.attrs['name']}, {pkg.attrs['path']}, stubs={pkg.attrs.get('stubs')})"
            return f"NamespacePackage({pkg.attrs['name']}, {[str(p) for p in pkg.attrs['path']]})"
        return str(pkg)

    fp = prog.function(f"{F}.ModuleFinder.find_package")

    def find_package(search_paths, vfs, order, name="pkg") -> str:
        fo = finder(search_paths, vfs, order)
        it.steps = 0
        try:
            return describe(it.call(fp, fo, name))
        except Raised as r:
            return f"raises {r.exc}"

    # ------------------------------------------------------------------ R2 precedence table
    ctx.rule("R2", "find_package follows the import system: search paths in order, the first one providing the name wins; inside one path a package "
                   "directory wins over a module file; directories without __init__ accumulate as namespace portions (pkgutil-style __init__ too); "
                   "a sibling .pyi is attached as stubs")
    forms = {
        "absent": {},
        "module": {"{p}/pkg.py": "x = 1"},
        "module+stub": {"{p}/pkg.py": "x = 1", "{p}/pkg.pyi": "x: int"},
        "package": {"{p}/pkg/__init__.py": "", "{p}/pkg/a.py": ""},
        "package+stub": {"{p}/pkg/__init__.py": "", "{p}/pkg/__init__.pyi": ""},
        "stub-only package": {"{p}/pkg/__init__.pyi": ""},
        "namespace portion": {"{p}/pkg/a.py": ""},
        "pkgutil namespace": {"{p}/pkg/__init__.py": "__import__('pkg_resources').declare_namespace(__name__)", "{p}/pkg/b.py": ""},
        "package and module": {"{p}/pkg/__init__.py": "", "{p}/pkg.py": ""},
        # the declaration as tools write it: guarded by try/except, after a docstring; a commented-out one declares nothing
        "pkgutil namespace (try/except form)": {"{p}/pkg/__init__.py": '"""Namespace."""\ntry:\n    __import__("pkg_resources").declare_namespace(__name__)\nexcept ImportError:\n'
                                                                       '    __path__ = __import__("pkgutil").extend_path(__path__, __name__)\n', "{p}/pkg/c.py": ""},
        "pkgutil namespace (extend_path)": {"{p}/pkg/__init__.py": "__path__ = __import__('pkgutil').extend_path(__path__, __name__)\n", "{p}/pkg/d.py": ""},
    }

    def reference(f1: str, f2: str) -> str:
        ns: list[str] = []
        for p, form in (("/p1", f1), ("/p2", f2)):
            if form in ("package", "package+stub", "package and module"):
                stubs = f"{p}/pkg/__init__.pyi" if form == "package+stub" else None
                return f"Package(pkg, {p}/pkg/__init__.py, stubs={stubs})"
            if form == "stub-only package":
                return f"Package(pkg, {p}/pkg/__init__.pyi, stubs=None)"
            if form == "namespace portion" or form.startswith("pkgutil namespace"):
                ns.append(f"{p}/pkg")
                continue
            if form in ("module", "module+stub"):
                stubs = f"{p}/pkg.pyi" if form == "module+stub" else None
                return f"Package(pkg, {p}/pkg.py, stubs={stubs})"
        if ns:
            return f"NamespacePackage(pkg, {ns})"
        return "raises ModuleNotFoundError"

    rows = 0
    for f1, f2 in itertools.product(forms, repeat=2):
        files = {"/p1/other.py": "", "/p2/other.py": ""}
        for p, form in (("/p1", f1), ("/p2", f2)):
            files.update({k.format(p=p): v for k, v in forms[form].items()})
        vfs = _vfs(files)
        got = {o: find_package(["/p1", "/p2"], vfs, o) for o in ORDERS}
        want = reference(f1, f2)
        rows += 1
        ctx.ob("R2", f"find_package|p1={f1}|p2={f2}", got["sorted"] == want, f"/p1: {f1}; /p2: {f2} -> {got['sorted']}; import system: {want}", where(fp))
        ctx.ob("R1", f"order|find_package|p1={f1}|p2={f2}", len(set(got.values())) == 1, f"find_package under three listing orders: {got}", where(fp), nontrivial=False)
    ctx.expect_min("R2", rows, 80)

    # ------------------------------------------------------------------ R3 sub-module enumeration + order independence
    ctx.rule("R3", "submodules() of a package lists every importable module file under it exactly once with its dotted parts (no __pycache__, compiled "
                   "file names reduced to the module name, package __init__ mapped to the package), namespace portions merged with the first one winning")
    ctx.rule("R1", "listing-order independence: find_package, submodules and the .pth scan return the same result whatever order the (virtual) file "
                   "system lists entries in; every listing call in finder.py is sorted/min'ed or used for membership only before an order-sensitive use")
    sm = prog.function(f"{F}.ModuleFinder.submodules")
    layouts = {
        "regular": ({"/s/pkg/__init__.py": "", "/s/pkg/a.py": "", "/s/pkg/b.py": "", "/s/pkg/sub/__init__.py": "", "/s/pkg/sub/c.py": "", "/s/pkg/__pycache__/a.cpython-312.pyc": "",
                     "/s/pkg/data.txt": "", "/s/pkg/ext.cpython-312-x86_64-linux-gnu.so": ""}, PP("/s/pkg/__init__.py"),
                    {("a",): "/s/pkg/a.py", ("b",): "/s/pkg/b.py", ("sub",): "/s/pkg/sub/__init__.py", ("sub", "c"): "/s/pkg/sub/c.py", ("ext",): "/s/pkg/ext.cpython-312-x86_64-linux-gnu.so"}),
        "same module from several files": ({"/s/pkg/__init__.py": "", "/s/pkg/a.py": "", "/s/pkg/a.pyc": "", "/s/pkg/a.pyi": "", "/s/pkg/b.so": "", "/s/pkg/b.py": ""}, PP("/s/pkg/__init__.py"), None),
        "namespace over two paths": ({"/p1/ns/x.py": "", "/p1/ns/sub/__init__.py": "", "/p1/ns/sub/m.py": "", "/p2/ns/y.py": "", "/p2/ns/sub/__init__.py": "", "/p2/ns/sub/n.py": "", "/p2/ns/other/__init__.py": ""},
                                     [PP("/p1/ns"), PP("/p2/ns")],
                                     {("x",): "/p1/ns/x.py", ("sub",): "/p1/ns/sub/__init__.py", ("sub", "m"): "/p1/ns/sub/m.py", ("y",): "/p2/ns/y.py", ("other",): "/p2/ns/other/__init__.py"}),
        "pkgutil namespace over two paths": ({"/p1/ns/__init__.py": "__import__('pkg_resources').declare_namespace(__name__)\n", "/p1/ns/one.py": "",
                                              "/p2/ns/__init__.py": "try:\n    __import__('pkg_resources').declare_namespace(__name__)\nexcept ImportError:\n    __path__ = __import__('pkgutil').extend_path(__path__, __name__)\n", "/p2/ns/two.py": ""},
                                             [PP("/p1/ns"), PP("/p2/ns")], {("one",): "/p1/ns/one.py", ("two",): "/p2/ns/two.py"}),
        "stub-only sub-package": ({"/s/pkg/__init__.py": "", "/s/pkg/sub/__init__.pyi": "", "/s/pkg/sub/m.pyi": ""}, PP("/s/pkg/__init__.py"),
                                  {("sub",): "/s/pkg/sub/__init__.pyi", ("sub", "m"): "/s/pkg/sub/m.pyi"}),
    }
    # portions of a native namespace package: the import system walks ns.__path__ in order - the first portion providing a name wins, a regular
    # sub-package hides everything later portions have under that name, and a regular sub-package of a later portion wins over a bare directory of
    # an earlier one
    layouts["namespace|the same module in both portions"] = (
        {"/p1/ns/mod.py": "", "/p2/ns/mod.py": ""}, [PP("/p1/ns"), PP("/p2/ns")], {("mod",): "/p1/ns/mod.py"})
    layouts["namespace|the same module in both portions, greater directory first"] = (
        {"/p2/ns/mod.py": "", "/p1/ns/mod.py": ""}, [PP("/p2/ns"), PP("/p1/ns")], {("mod",): "/p2/ns/mod.py"})
    layouts["namespace|regular sub-package in the first portion, deeper content under that name in the second"] = (
        {"/p1/ns/sub/__init__.py": "", "/p1/ns/sub/m.py": "", "/p2/ns/sub/other/__init__.py": "", "/p2/ns/sub/other/y.py": "", "/p2/ns/sub/z.py": ""},
        [PP("/p1/ns"), PP("/p2/ns")], {("sub",): "/p1/ns/sub/__init__.py", ("sub", "m"): "/p1/ns/sub/m.py"})
    layouts["namespace|bare directory in the first portion, regular sub-package of that name in the second"] = (
        {"/p1/ns/sub/m.py": "", "/p2/ns/sub/__init__.py": "", "/p2/ns/sub/n.py": ""},
        [PP("/p1/ns"), PP("/p2/ns")], {("sub",): "/p2/ns/sub/__init__.py", ("sub", "n"): "/p2/ns/sub/n.py"})
    # one real directory reachable under two names through directory symlinks: CPython imports the modules under both names
    layouts["sub-package symlinked next to itself"] = (
        ({"/s/pkg/__init__.py": "", "/s/pkg/_impl/__init__.py": "", "/s/pkg/_impl/mod.py": ""}, {"/s/pkg/compat": "/s/pkg/_impl"}), PP("/s/pkg/__init__.py"),
        {("_impl",): "/s/pkg/_impl/__init__.py", ("_impl", "mod"): "/s/pkg/_impl/mod.py", ("compat",): "/s/pkg/compat/__init__.py", ("compat", "mod"): "/s/pkg/compat/mod.py"})
    layouts["two links to a shared directory"] = (
        ({"/s/pkg/__init__.py": "", "/s/pkg/a/__init__.py": "", "/s/pkg/b/__init__.py": "", "/shared/__init__.py": "", "/shared/tool.py": ""},
         {"/s/pkg/a/shared": "/shared", "/s/pkg/b/shared": "/shared"}), PP("/s/pkg/__init__.py"),
        {("a",): "/s/pkg/a/__init__.py", ("b",): "/s/pkg/b/__init__.py", ("a", "shared"): "/s/pkg/a/shared/__init__.py", ("a", "shared", "tool"): "/s/pkg/a/shared/tool.py",
         ("b", "shared"): "/s/pkg/b/shared/__init__.py", ("b", "shared", "tool"): "/s/pkg/b/shared/tool.py"})
    for label, (files, modpath, want) in layouts.items():
        vfs = _vfs(*files) if isinstance(files, tuple) else _vfs(files)
        results = {}
        for o in ORDERS:
            fo = finder(["/s", "/p1", "/p2"], vfs, o)
            module = Obj(None, {"filepath": modpath, "name": "pkg" if not isinstance(modpath, list) else "ns"}, label="module")
            it.steps = 0
            try:
                res = it.call(sm, fo, module)
                results[o] = [(tuple(parts), str(path)) for parts, path in res]
            except Raised as r:
                results[o] = f"raises {r.exc}"
        same = len({repr(v) for v in results.values()}) == 1
        ctx.ob("R1", f"order|submodules|{label}", same, f"submodules() of layout `{label}` is identical under sorted / reversed / rotated listings" if same else
               f"submodules() of layout `{label}` depends on the listing order: {results}", where(sm))
        if want is not None and isinstance(results["sorted"], list):
            got_map: dict[tuple, str] = {}
            dup = False
            for parts, path in results["sorted"]:
                if parts in got_map:
                    dup = True
                got_map[parts] = path
            ok = got_map == {k: v for k, v in want.items()} and (not dup or label.startswith("namespace|"))  # (the loader keeps the last file listed for a name)
            ctx.ob("R3", f"submodules|{label}", ok, f"layout `{label}`: {got_map}" + ("" if ok else f"; expected {want}"), where(sm))
        elif want is None and isinstance(results["sorted"], list):
            # files of the same module are ordered so that the last one (the winner) follows the import system's preference
            last = {}
            for parts, path in results["sorted"]:
                last[parts] = path
            ok = last.get(("a",), "").endswith(("a.py", "a.pyi")) and last.get(("b",), "").endswith("b.so")
            ctx.ob("R3", f"submodules|{label}", ok, f"winner per module when several files provide it: {last} (extension module > source > bytecode)", where(sm))

    # a search path entry that is a file (a zip archive, an .egg named by a .pth file) or does not exist is skipped, as the import system does
    for label, sps, files_z in (("a zip archive before the package's directory", ["/s/archive.zip", "/t"], {"/s/archive.zip": "PK", "/t/pkg/__init__.py": ""}),
                                ("a missing directory before the package's directory", ["/nowhere", "/t"], {"/t/pkg/__init__.py": ""})):
        got_z = {o: find_package(sps, _vfs(files_z), o) for o in ORDERS}
        ctx.ob("R2", f"precedence|{label}", set(got_z.values()) == {"Package(pkg, /t/pkg/__init__.py, stubs=None)"},
               f"search paths {sps}: find_package('pkg') = {got_z}; expected the package of /t", where(fp))
    it.vfs = {**_vfs({"/site/easy-install.pth": "/site/thing.egg\n/x1", "/site/thing.egg": "PK", "/x1/pkg/__init__.py": ""}), "order": ORDERS["sorted"]}
    try:
        it.steps = 0
        fo = it._construct(fcls, [["/site"]], {})
        it.stubs[f"{F}._is_pkg_style_namespace"] = lambda _i, init: False
        got_e = describe(it.call(fp, fo, "pkg"))
    except Raised as r:
        got_e = f"raises {r.exc}"
    ctx.ob("R2", "precedence|an .egg file named by a .pth file", got_e == "Package(pkg, /x1/pkg/__init__.py, stubs=None)",
           f"/site/easy-install.pth lists an .egg file and a directory: ModuleFinder(['/site']).find_package('pkg') = {got_e}; expected the package of /x1", where(fp))
    # a sub-package directory next to a module file of the same name: the import system takes the package; the file listed last wins in griffe
    files_sp = {"/s/pkg/__init__.py": "", "/s/pkg/sub.py": "", "/s/pkg/sub/__init__.py": "", "/s/pkg/sub/x.py": ""}
    last_by_order = {}
    for o in ORDERS:
        fo = finder(["/s"], _vfs(files_sp), o)
        it.steps = 0
        try:
            res = it.call(sm, fo, Obj(None, {"filepath": PP("/s/pkg/__init__.py"), "name": "pkg"}, label="module"))
            last_by_order[o] = {tuple(parts): str(path) for parts, path in res}
        except Raised as r:
            last_by_order[o] = f"raises {r.exc}"
    ok_sp = all(isinstance(v, dict) and v.get(("sub",)) == "/s/pkg/sub/__init__.py" and v.get(("sub", "x")) == "/s/pkg/sub/x.py" for v in last_by_order.values())
    ctx.ob("R3", "submodules|sub-package next to a module file of the same name", ok_sp,
           f"pkg/sub.py next to pkg/sub/__init__.py: the file loaded last for `sub` is {last_by_order}; CPython imports pkg/sub/__init__.py", where(sm))
    # .pth scan order, through the constructor (the public way in): ModuleFinder(search_paths) on a virtual file system
    init = prog.lookup_method(fcls, "__init__")[0]
    pth_layouts = {
        "two .pth files in one directory": (["/site"], {"/site/a.pth": "/x1", "/site/b.pth": "/x2\n# comment\n\n/nowhere", "/site/c.txt": "/x3", "/x1/pkg/__init__.py": "",
                                                         "/x2/pkg/__init__.py": "", "/x3/pkg/__init__.py": ""}, ["/site", "/x1", "/x2"]),
        "a .pth entry that is already a search path": (["/site", "/x1"], {"/site/a.pth": "/x1\n/x2", "/x1/m.py": "", "/x2/m.py": ""}, ["/site", "/x1", "/x2"]),
    }
    for label, (sps, files, want) in pth_layouts.items():
        outs = {}
        for o in ORDERS:
            it.vfs = {**_vfs(files), "order": ORDERS[o]}
            it.steps = 0
            try:
                fo = it._construct(fcls, [list(sps)], {})
                outs[o] = [str(p_) for p_ in fo.attrs["search_paths"]]
            except Raised as r:
                outs[o] = f"raises {r.exc}"
        same = len({repr(v) for v in outs.values()}) == 1
        ctx.ob("R1", f"order|pth-scan|{label}", same and outs.get("sorted") == want,
               f"ModuleFinder({sps}) with {label}: search paths {outs} whatever the listing order; expected {want} (existing directories named by .pth files, "
               "in sorted file order, each once)", where(init))
    # (where the additions of an earlier directory's .pth files go relative to LATER configured search paths is not decided: `site` itself interleaves them)
    # a package asked for by *path* (the development checkout) wins over a same-named package of a configured search path (the installed release)
    fs = prog.function(f"{F}.ModuleFinder.find_spec")
    for layout, files in {
        "checkout outside the search paths": {"/site/pkg/__init__.py": "", "/checkout/src/pkg/__init__.py": "", "/checkout/src/pkg/mod.py": ""},
        "checkout with a sub-package": {"/site/pkg/__init__.py": "", "/site/pkg/sub/__init__.py": "", "/checkout/src/pkg/__init__.py": "", "/checkout/src/pkg/sub/__init__.py": ""},
        # a directory whose name merely starts like a search path (`/site` and `/site-packages`, `lib` and `lib2`) is not inside it
        "checkout in a directory named like the search path plus a suffix": {"/site/other/__init__.py": "", "/site-packages/checkout/src/pkg/__init__.py": ""},
    }.items():
        for target in ("/checkout/src/pkg", "/checkout/src/pkg/__init__.py"):
            if "suffix" in layout:
                target = "/site-packages" + target
            fo = finder(["/site"], _vfs(files), "sorted")
            it.steps = 0
            try:
                res = it.call(fs, fo, PP(target), try_relative_path=True)
                got = describe(res[1]) if isinstance(res, tuple) else str(res)
            except Raised as r:
                got = f"raises {r.exc}"
            want = f"Package(pkg, {'/site-packages' if 'suffix' in layout else ''}/checkout/src/pkg/__init__.py, stubs=None)"
            ctx.ob("R2", f"by-path|{layout}|{target}", got == want, f"find_spec(Path('{target}')) with /site on the search paths and {layout}: {got}; the requested directory is {want}", where(fs))
    it.stubs.clear()
    it.vfs = None

    # the loader skips files whose dotted path cannot be a module path: a dot in *any* part (directory `v1.2/`) below a (namespace) package
    ls = prog.function("_griffe.loader.GriffeLoader._load_submodule")
    calls_seen: list = []
    it.stubs["_griffe.loader.GriffeLoader._get_or_create_parent_module"] = lambda _i, _s, _m, subparts, _p: (calls_seen.append(tuple(subparts)), Obj(None, {"members": {}, "set_member": Native(lambda *_a: None)}))[1]
    it.stubs["_griffe.loader.GriffeLoader._load_module"] = lambda _i, *_a, **_k: Obj(None, {"name": "x"})
    for subparts in (("mod",), ("sub", "mod"), ("v1.2", "script"), ("sub", "v1.2", "script"), ("sub", "mod.ext"), ("a.b",)):
        calls_seen.clear()
        loader = Obj(prog.cls("_griffe.loader.GriffeLoader"), {"submodules": True}, label="loader")
        it.steps = 0
        try:
            it.call(ls, loader, Obj(None, {"name": "ns", "path": "ns", "members": {}}), subparts, PP("/p/ns/" + "/".join(subparts) + ".py"))
            got = "skipped" if not calls_seen else "loaded"
        except Raised as r:
            got = f"raises {r.exc}"
        want = "skipped" if any("." in part for part in subparts) else "loaded"
        ctx.ob("R3", f"dotted-part|{'/'.join(subparts)}", got == want, f"sub-module file ns/{'/'.join(subparts)}.py is {got}; a part containing a dot cannot be imported, so expected {want}", where(ls))
    it.stubs.clear()

    # structural: every listing source is order-clean
    mod = prog.module(F)
    n_src = 0
    for f in [x for x in prog.functions.values() if x.module is mod]:
        for c in calls_in(f.node):
            nm = c.func.attr if isinstance(c.func, ast.Attribute) else (c.func.id if isinstance(c.func, ast.Name) else "")
            if nm not in LISTING_CALLS or (nm == "walk" and dotted(c.func) != "os.walk"):
                continue
            n_src += 1
            par = parent(c)
            clean = isinstance(par, ast.Call) and dotted(par.func) in ("sorted", "min", "max", "set", "frozenset", "len", "any", "all")
            how = f"wrapped in {dotted(par.func)}()" if clean else ""
            if not clean:
                # stored and used for membership/truthiness only, or sorted by every order-sensitive consumer
                how, clean = _uses_are_clean(prog, f, c)
            if clean:
                ctx.ob("R1", key(f, f"listing:{norm(c, 50)}"), True, f"`{norm(c, 50)}`: {how}", where(f, c))
            else:
                # The syntactic trace from a listing to a sort is a sufficient condition only (it knows `sorted(...)` around the use, membership tests,
                # consumers that sort with a total key).  Where it cannot follow the code - behaviour-preserving rewrites did that: a generator
                # expression inside sorted(), `found = [*a, *b]; found.sort(key=...)` - the verdict is left to the order rows above, which run
                # find_package / submodules / the .pth scan under three listing orders; reported here only when one of those rows fails too.
                order_rows_ok = all(o.ok for o in ctx.obligations if o.rule == "R1" and o.key.startswith("order|"))
                if "covered" not in locals():
                    from sa.callgraph import CallGraph as _CG

                    entry = [m_ for n_ in ("find_package", "submodules", "__init__") for m_ in fcls.methods.get(n_, [])]
                    covered = set(_CG(prog).reachable(entry))  # what the order rows execute: everything the three public entry points reach
                if order_rows_ok and f.qualname in covered and f.cls is fcls:  # (module-level .pth / editable-install helpers are not exercised by the rows)
                    ctx.note(f"R1: `{norm(c, 50)}` in {f.name}: no sort found on the way to the consumers by the syntactic trace ({how}); the listing-order rows hold")
                else:
                    ctx.ob("R1", key(f, f"listing:{norm(c, 50)}"), False, f"`{norm(c, 50)}` feeds an order-sensitive consumer in listing order ({how})", where(f, c))
    ctx.expect_min("R1", n_src, 3)

    # ------------------------------------------------------------------ R4 classification
    ctx.rule("R4", "module classification table over (has parent?, file path kind): init module, package, sub-package, namespace package and namespace "
                   "sub-package are mutually consistent and follow their definitions")
    mcls = prog.cls("_griffe.models.Module")
    for has_parent, kind, parent_ns in itertools.product((False, True), ("__init__.py", "__init__.pyi", "mod.py", "ext.cpython-312.so", "list", "none"), (False, True)):
        if not has_parent and parent_ns:
            continue
        par = None
        if has_parent:
            par = Obj(mcls, {"name": "top", "parent": None, "_filepath": [PP("/s/top")] if parent_ns else PP("/s/top/__init__.py")}, label="top")
        fpv = {"list": [PP("/s/top/m")], "none": None}.get(kind, PP(f"/s/top/m/{kind}" if kind.startswith("__init__") else f"/s/top/{kind}"))
        m = Obj(mcls, {"name": "m", "parent": par, "_filepath": fpv}, label="m")
        got = {}
        for pred in ("is_init_module", "is_package", "is_subpackage", "is_namespace_package", "is_namespace_subpackage"):
            try:
                got[pred] = bool(it.truth(it.getattr(m, pred)))
            except Raised as r:
                got[pred] = f"raises {r.exc}"
        init = kind.startswith("__init__")
        want = {"is_init_module": init, "is_package": init and not has_parent, "is_subpackage": init and has_parent,
                "is_namespace_package": kind == "list" and not has_parent, "is_namespace_subpackage": kind == "list" and has_parent and parent_ns}
        ctx.ob("R4", f"classify|parent={has_parent}|parent namespace={parent_ns}|file={kind}", got == want, f"{got}" + ("" if got == want else f"; expected {want}"),
               where(prog.lookup_method(mcls, "is_package")[0]))


    # ------------------------------------------------------------------ R5 intermediate namespace modules
    ctx.rule("R5", "intermediate namespace sub-packages created while loading a sub-module get the directory of that package level as file path, "
                   "for plain modules, __init__.py and stub-only __init__.pyi leaves alike; a missing parent under a regular package is refused")
    gp = prog.function("_griffe.loader.GriffeLoader._get_or_create_parent_module")
    lcls = prog.cls("_griffe.loader.GriffeLoader")

    def module_obj(name, fpv, par=None):
        o = Obj(mcls, {"name": name, "parent": par, "_filepath": fpv, "members": {}}, label=name)
        o.attrs["get_member"] = Native(lambda k, o=o: o.attrs["members"][k] if k in o.attrs["members"] else (_ for _ in ()).throw(Raised("KeyError")))
        o.attrs["set_member"] = Native(lambda k, v, o=o: (o.attrs["members"].__setitem__(k, v), v.attrs.__setitem__("parent", o))[0])
        return o

    cases = {
        "plain leaf": (("a", "m"), "/p/ns/a/m.py"),
        "package leaf": (("a", "b"), "/p/ns/a/b/__init__.py"),
        "stub-only package leaf": (("a", "b"), "/p/ns/a/b/__init__.pyi"),
        "deep plain leaf": (("a", "b", "m"), "/p/ns/a/b/m.py"),
        "deep stub-only package leaf": (("a", "b", "c"), "/p/ns/a/b/c/__init__.pyi"),
    }
    for label, (subparts, subpath) in cases.items():
        top = module_obj("ns", [PP("/p/ns")])
        loader = Obj(lcls, {"_create_module": Native(lambda name, path: module_obj(name, path))}, label="loader")
        try:
            res = it.call(gp, loader, top, subparts, PP(subpath))
        except Raised as r:
            res = f"raises {r.exc}"
        got = {}
        cur = top
        for i, part in enumerate(subparts[:-1]):
            cur = cur.attrs["members"].get(part) if isinstance(cur, Obj) else None
            got[part] = [str(x) for x in cur.attrs["_filepath"]] if isinstance(cur, Obj) else None
        want = {part: ["/p/ns/" + "/".join(subparts[: i + 1])] for i, part in enumerate(subparts[:-1])}
        ok = got == want and isinstance(res, Obj) and res.attrs["name"] == subparts[-2]
        ctx.ob("R5", f"parents|{label}", ok, f"{label} ({'.'.join(subparts)} at {subpath}): intermediate file paths {got}, returned {res}; expected {want}", where(gp))
    reg = module_obj("pkg", PP("/p/pkg/__init__.py"))
    loader = Obj(lcls, {"_create_module": Native(lambda name, path: module_obj(name, path))}, label="loader")
    try:
        res = it.call(gp, loader, reg, ("missing", "m"), PP("/p/pkg/missing/m.py"))
    except Raised as r:
        res = f"raises {r.exc}"
    ctx.ob("R5", "parents|no __init__ under a regular package", res == "raises UnimportableModuleError", f"a directory without __init__ inside a regular package: {res}", where(gp))


def _uses_are_clean(prog: Program, f: FunctionInfo, call: ast.Call) -> tuple[str, bool]:
    """A listing stored in a cache / returned: every in-module use of the function's result must be membership, truthiness or sorted/min."""
    st = stmt_of(call)
    # directly iterated `for root, dirs, files in os.walk(...)`: the function yields in listing order -> consumers must sort
    mod = f.module
    users = []
    for g in prog.functions.values():
        if g.module is not mod:
            continue
        for c in calls_in(g.node):
            if isinstance(c.func, ast.Attribute) and c.func.attr == f.name and dotted(c.func.value) == "self":
                users.append((g, c))
    if not users:
        return "no in-module consumer found", False
    notes = []
    ok = True
    for g, c in users:
        par = parent(c)
        if isinstance(par, ast.Call) and dotted(par.func) in ("sorted", "min", "max", "set", "len"):
            notes.append(f"{g.name}: {dotted(par.func)}()")
            continue
        if isinstance(par, ast.Compare) and any(isinstance(op, (ast.In, ast.NotIn)) for op in par.ops):
            notes.append(f"{g.name}: membership")
            continue
        if isinstance(par, (ast.Assign,)) and isinstance(par.targets[0], ast.Name):
            var = par.targets[0].id
            bad = []
            for n in walk_no_nested(g.node):
                if isinstance(n, ast.Name) and n.id == var and isinstance(n.ctx, ast.Load):
                    p2 = parent(n)
                    if isinstance(p2, ast.Compare) and any(isinstance(op, (ast.In, ast.NotIn)) for op in p2.ops):
                        continue
                    if isinstance(p2, (ast.If, ast.BoolOp, ast.UnaryOp)):
                        continue
                    if isinstance(p2, ast.Call) and dotted(p2.func) in ("sorted", "min", "max", "set", "len", "bool"):
                        continue
                    bad.append(norm(p2, 40))
            if bad:
                ok = False
                notes.append(f"{g.name}: `{var}` used as {bad}")
            else:
                notes.append(f"{g.name}: membership/truthiness only")
            continue
        if isinstance(par, (ast.For, ast.comprehension)) and par.iter is c:
            # iterating the listing: acceptable only if the enclosing function's own result is sorted with a total key by its consumers
            if g.is_generator or True:
                tot = _consumers_sort_totally(prog, g)
                notes.append(f"{g.name}: iterates; {'consumers sort with a total key' if tot else 'result order reaches consumers unsorted'}")
                ok = ok and tot
            continue
        ok = False
        notes.append(f"{g.name}: `{norm(par, 40)}`")
    return "; ".join(notes), ok


def _consumers_sort_totally(prog: Program, g: FunctionInfo, depth: int = 0, visiting: frozenset = frozenset()) -> bool:
    """Every in-module path from generator g to an external consumer passes a sorted(..., key=<total key>) call.  A function that uses g's items
    without sorting them is taken to hand their order on (yield from, or collecting and yielding again): its own consumers are followed; a function
    already being followed adds no new consumer (helpers that call each other)."""
    if g.qualname in visiting:
        return True
    visiting = visiting | {g.qualname}
    if depth > 6:
        return False
    mod = g.module
    users = []
    for h in prog.functions.values():
        if h.module is not mod:
            continue
        for c in calls_in(h.node):
            if isinstance(c.func, ast.Attribute) and c.func.attr == g.name and dotted(c.func.value) == "self":
                users.append((h, c))
    if not users:
        return False
    for h, c in users:
        node = c
        sorted_call = None
        cur = parent(node)
        while cur is not None and not isinstance(cur, ast.stmt):
            if isinstance(cur, ast.Call) and dotted(cur.func) == "sorted":
                sorted_call = cur
            cur = parent(cur)
        if sorted_call is not None:
            k = next((kw.value for kw in sorted_call.keywords if kw.arg == "key"), None)
            if k is None:
                continue  # natural order of (parts, path) tuples is total
            kf = prog.resolve(mod, dotted(k) or "")
            if kf in prog.functions:
                rets = [r for r in walk_no_nested(prog.functions[kf].node) if isinstance(r, ast.Return)]
                # total when the key includes the path itself (or str(path)): distinct files never tie
                if rets and all(isinstance(r.value, ast.Tuple) and any("path" in unparse(e) for e in r.value.elts) for r in rets):
                    continue
            return False
        if h is g:
            continue  # recursion: judged at the outer call
        if h.name.startswith("_") or h.is_generator:
            if not _consumers_sort_totally(prog, h, depth + 1, visiting):
                return False
            continue
        return False
    return True

