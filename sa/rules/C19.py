"""C19 - Merging stubs loses nothing and prefers stub types (structural part).

R1 merge direction (def-use of every store), R2 member-merge decision table (abstract evaluation), R3 module selection / order symmetry,
R4 loader wiring (result of the merge is what gets stored; which stubs sub-modules are loaded), R5 alias discipline.
"""

from __future__ import annotations

import ast
import itertools
from pathlib import PurePosixPath

from sa.absint import Env, Interp, Native, Obj, Raised, Sym, lazy
from sa.aliasderef import AliasDeref, catches_both, enclosing_catch
from sa.callgraph import CallGraph
from sa.report import Ctx
from sa.srcmodel import AnalysisError, FunctionInfo, Program, ancestors, dotted, norm, unparse, walk_no_nested
from sa.util import canon_text, calls_in, cfg_of, key, node_index, stmt_of, where

MG = "_griffe.merger"


def run(prog: Program, ctx: Ctx) -> None:  # noqa: PLR0912,PLR0915
    cg = CallGraph(prog)
    # ------------------------------------------------------------------ R1 direction
    ctx.rule("R1", "every store of the merge functions writes into the runtime object (first parameter) from the stubs object (second); the "
                   "docstring is taken only when the runtime one is missing; parameter annotations are merged per name, a missing name "
                   "skipping only that parameter")
    n_stores = 0
    for name in ("_merge_function_stubs", "_merge_attribute_stubs", "_merge_stubs_docstring", "_merge_stubs_overloads"):
        f = prog.function(f"{MG}.{name}")
        tgt_p, src_p = f.params[0], f.params[1]
        for s in walk_no_nested(f.node):
            if isinstance(s, ast.Assign) and isinstance(s.targets[0], ast.Attribute):
                n_stores += 1
                t_root = _root(s.targets[0])
                v_names = {n.id for n in ast.walk(s.value) if isinstance(n, ast.Name)}
                # loop variables inherit the side of the collection they iterate
                side = _sides(f, tgt_p, src_p)
                ok = side.get(t_root) == "runtime" and all(side.get(v, "other") in ("stubs", "other") for v in v_names) and any(side.get(v) == "stubs" for v in v_names)
                ctx.ob("R1", key(f, f"direction:{norm(s)}"), ok, f"`{norm(s)}` stores stub data into the runtime object" if ok else
                       f"`{norm(s)}` does not go from the stubs ({src_p}) to the runtime object ({tgt_p})", where(f, s))
                # same field on both sides
                attr_t = s.targets[0].attr
                attr_v = s.value.attr if isinstance(s.value, ast.Attribute) else None
                if attr_v is not None:
                    ctx.ob("R1", key(f, f"same-field:{norm(s)}"), attr_t == attr_v, f"`{attr_t}` is taken from the stub's `{attr_v}`", where(f, s))
    ctx.expect_min("R1", n_stores, 5)
    fd = prog.function(f"{MG}._merge_stubs_docstring")
    cfg = cfg_of(fd)
    for x in cfg.live_nodes():
        if x.kind == "stmt" and isinstance(x.stmt, ast.Assign):
            a = cfg.dominated_by_fact(x, lambda at, t: not t and unparse(at) == f"{fd.params[0]}.docstring")
            b = cfg.dominated_by_fact(x, lambda at, t: t and unparse(at) == f"{fd.params[1]}.docstring")
            ctx.ob("R1", key(fd, "docstring-only-when-missing"), a and b, "the runtime docstring is kept unless it is missing (and the stub has one)", where(fd, x.stmt))
    ff = prog.function(f"{MG}._merge_function_stubs")
    loops = [n for n in walk_no_nested(ff.node) if isinstance(n, ast.For) and unparse(n.iter) == f"{ff.params[1]}.parameters"]
    ok = False
    if len(loops) == 1:
        for s in ast.walk(loops[0]):
            if isinstance(s, ast.Assign) and isinstance(s.targets[0], ast.Attribute) and s.targets[0].attr == "annotation":
                got = set()
                child = s
                for anc in ancestors(s):
                    if anc is loops[0]:
                        break
                    if isinstance(anc, ast.With) and any("suppress" in unparse(i.context_expr) and "KeyError" in unparse(i.context_expr) for i in anc.items):
                        got.add("KeyError")
                    if isinstance(anc, ast.Try) and any(h.type is not None and "KeyError" in unparse(h.type) for h in anc.handlers):
                        got.add("KeyError")
                ok = "KeyError" in got and f"{ff.params[0]}.parameters[" in unparse(s.targets[0]) and f"{unparse(loops[0].target)}.name" in unparse(s.targets[0])
    ctx.ob("R1", key(ff, "per-parameter"), ok, "each stub parameter annotates the runtime parameter of the same name; a name missing at runtime is skipped "
           "inside the loop (the remaining parameters are still merged)", where(ff))
    ctx.ob("R1", key(ff, "returns"), any(isinstance(s, ast.Assign) and unparse(s) == f"{ff.params[0]}.returns = {ff.params[1]}.returns" for s in walk_no_nested(ff.node)),
           "the return annotation is taken from the stub", where(ff))

    # ------------------------------------------------------------------ R2 member decision table
    ctx.rule("R2", "_merge_stubs_members decision table: stub-only member -> marked runtime=False then set_member; stub alias on an existing name -> "
                   "untouched; kind mismatch or unresolvable runtime alias -> nothing, no raise; same kind -> that kind's merge(runtime, stub)")
    it = Interp(prog)
    mm = prog.function(f"{MG}._merge_stubs_members")
    K = {k: it.enum("_griffe.enumerations.Kind", k) for k in ("MODULE", "CLASS", "FUNCTION", "ATTRIBUTE")}
    events: list[tuple] = []
    # the kind-specific merges are private helpers: every module-level function of the merger other than the two under test and the public entry is
    # replaced by a recording stand-in, and which one serves which kind is read off a calibration row (one runtime member, one stub member of the
    # same kind), not off their names
    from sa.callgraph import CallGraph as _CG19

    _cg19 = _CG19(prog)
    cand = {f_.qualname: f_ for f_ in prog.functions.values() if f_.module.name == MG and f_.cls is None and f_.outer is None
            and f_.name not in ("_merge_stubs_members", "_merge_stubs_overloads", "merge_stubs") and len(f_.params) >= 2}

    def callees19(f_):
        return [e_.callee for e_ in _cg19.edges_from(f_) if isinstance(e_.callee, type(mm)) and e_.callee.qualname in cand]

    HANDLERS: list[str] = []
    work19, seen19 = [mm], {mm.qualname}
    while work19:
        for g_ in callees19(work19.pop()):
            if g_.qualname in seen19:
                continue
            seen19.add(g_.qualname)
            if len({x.qualname for x in callees19(g_)}) >= 2:
                work19.append(g_)  # a dispatch helper between the member loop and the merges: evaluated, its callees considered
            else:
                HANDLERS.append(g_.name)
    # ... and the functions a module-level table hands to the member loop (a dispatch table of merges: the call goes through a variable)
    for tbl_ in prog.module(MG).assigns.values():
        for n_ in ast.walk(tbl_):
            if isinstance(n_, ast.Name) and f"{MG}.{n_.id}" in cand and n_.id not in HANDLERS:
                HANDLERS.append(n_.id)
    for name in HANDLERS:
        it.stubs[f"{MG}.{name}"] = (lambda n: (lambda _i, *a, **_k: events.append((n, a))))(name)

    def member(kind: str, *, alias: bool = False, broken: bool = False, label: str = "") -> Obj:
        attrs = {"name": "m", "is_alias": alias, "is_module": kind == "MODULE", "is_class": kind == "CLASS", "is_function": kind == "FUNCTION",
                 "is_attribute": kind == "ATTRIBUTE", "path": "p.m", "runtime": True, "docstring": None}
        if broken:
            def boom(_i, _o):
                raise Raised("AliasResolutionError")
            attrs["kind"] = lazy(boom)
            for k in ("is_module", "is_class", "is_function", "is_attribute"):
                attrs[k] = lazy(boom)
        else:
            attrs["kind"] = K[kind]
        o = Obj(None, attrs, label=label or kind)
        if broken:
            o.attrs["final_target"] = o.attrs["target"] = lazy(boom)
        else:
            o.attrs["final_target"] = o.attrs["target"] = o  # a resolved alias standing for its target (the chain rows below tell the two apart)
        return o

    handler: dict[str, str] = {}
    for k_ in K:
        events.clear()
        c_rt, c_st = member(k_, label="runtime"), member(k_, label="stub")
        c_rt.attrs["is_imported"] = c_st.attrs["is_imported"] = False
        c_members = {"m": c_rt}
        try:
            it.call(mm, Obj(None, {"members": c_members, "imports": {}, "get_member": Native(lambda n, c_members=c_members: c_members[n]),
                                   "set_member": Native(lambda n, v: events.append(("set_member", (n, v)))), "path": "p"}),
                    Obj(None, {"members": {"m": c_st}, "imports": {}}))
        except Raised:
            pass
        hs = [e for e in events if e[0] in HANDLERS]
        hs = [e for e in hs if e[1][:2] == (c_rt, c_st)]
        handler[k_] = hs[-1][0] if hs else f"<no merge helper called for {k_}>"  # (the last one called with the pair; the rows below demand it is the only one)
    rows = 0
    for present, stub_alias, ok_, sk, broken, also_imported in itertools.product((True, False), (False, True), K, K, (False, True), (False, True)):
        if not present and (broken or ok_ != "MODULE"):
            continue
        if also_imported and (stub_alias or broken):
            continue
        events.clear()
        o_m = member(ok_, alias=broken, broken=broken, label="runtime")
        s_m = member(sk, alias=stub_alias, label="stub")
        # a stub scope may import a name and define it too (version-conditional stubs, `from . import core as core` next to core.pyi): the member is
        # a real definition, only its name is also in the scope's import map
        s_m.attrs["is_imported"] = stub_alias or also_imported
        o_m.attrs.setdefault("is_imported", False)
        members = {"m": o_m} if present else {}

        def set_member(name, value, members=members):
            events.append(("set_member", (name, value, value.attrs.get("runtime"))))
            members[name] = value

        obj = Obj(None, {"members": members, "imports": {}, "get_member": Native(lambda n, members=members: members[n]), "set_member": Native(set_member), "path": "p"})
        stubs = Obj(None, {"members": {"m": s_m}, "imports": {"x": "y", **({"m": "other.m"} if also_imported else {})}})
        try:
            it.call(mm, obj, stubs)
            raised = None
        except Raised as r:
            raised = r.exc
        names = [e[0] for e in events]
        if not present:
            want = "stub-only member marked runtime=False, then set_member"
            good = raised is None and names == ["set_member"] and events[0][1][1] is s_m and events[0][1][2] is False
        elif stub_alias:
            want = "nothing (stub-side alias untouched)"
            good = raised is None and not events
        elif broken or ok_ != sk:
            want = "nothing and no exception"
            good = raised is None and not events
        else:
            want = f"{handler[ok_]}(runtime member, stub member)"
            good = raised is None and names == [handler[ok_]] and events[0][1][:2] == (o_m, s_m)
        rows += 1
        ctx.ob("R2", f"row|present={present}|stub_alias={stub_alias}|runtime={'unresolvable alias' if broken else ok_}|stub={sk}" + ("|name also imported by the stub scope" if also_imported else ""), good,
               f"expected {want}; got events={names} raised={raised}", where(mm))
        ctx.ob("R2", f"imports|present={present}|{ok_}|{sk}|{stub_alias}|{broken}|{also_imported}", obj.attrs["imports"].get("x") == "y", "stub imports are merged into the runtime imports", where(mm), nontrivial=False)
    # stub overloads go to the runtime *function* of that name (defined in place or re-exported); a class or module of that name keeps its own mapping
    mo = prog.function(f"{MG}._merge_stubs_overloads")
    for kind_, is_alias_ in (("FUNCTION", False), ("FUNCTION", True), ("CLASS", False), ("MODULE", False), ("ATTRIBUTE", False)):
        own = {"own": ["mapping"]} if kind_ in ("CLASS", "MODULE") else None
        rt = member(kind_, alias=is_alias_, label="runtime")
        rt.attrs["overloads"] = own
        ovs = [Obj(None, {"name": "f"}, label="overload 1"), Obj(None, {"name": "f"}, label="overload 2")]
        sobj = Obj(None, {"overloads": {"f": list(ovs)}})
        robj = Obj(None, {"get_member": Native(lambda n, rt=rt: rt), "members": {"f": rt}})
        try:
            it.call(mo, robj, sobj)
            got_o: object = rt.attrs["overloads"]
        except Raised as r:
            got_o = f"raises {r.exc}"
        want_o = ovs if kind_ == "FUNCTION" else own
        rows += 1
        ctx.ob("R2", f"overloads|runtime {'alias to ' if is_alias_ else ''}{kind_}", got_o == want_o,
               f"stub `@overload def f` x2 with a runtime {'re-exported ' if is_alias_ else ''}{kind_.lower()} named f: its overloads become "
               f"{[getattr(o_, 'label', o_) for o_ in got_o] if isinstance(got_o, list) else got_o}; expected {'the two stub signatures' if kind_ == 'FUNCTION' else 'left as they were'}", where(mo))
    # a runtime member that is a re-export two imports away from the object: the stubs are merged into the object at the end of the chain
    for kind_ in K:
        events.clear()
        real = member(kind_, label="the real object")
        hop = member(kind_, alias=True, label="intermediate alias")
        hop.attrs["final_target"], hop.attrs["target"] = real, real
        outer = member(kind_, alias=True, label="re-export")
        outer.attrs["final_target"], outer.attrs["target"] = real, hop
        for o_ in (real, hop, outer):
            o_.attrs["is_imported"] = o_ is not real
        s_m = member(kind_, label="stub")
        s_m.attrs["is_imported"] = False
        members = {"m": outer}
        obj = Obj(None, {"members": members, "imports": {}, "get_member": Native(lambda n, members=members: members[n]), "set_member": Native(lambda n, v: events.append(("set_member", (n, v)))), "path": "p"})
        try:
            it.call(mm, obj, Obj(None, {"members": {"m": s_m}, "imports": {}}))
            got_ev: object = [(e[0], e[1][0].label if isinstance(e[1][0], Obj) else e[1][0]) for e in events]
        except Raised as r:
            got_ev = f"raises {r.exc}"
        rows += 1
        ctx.ob("R2", f"row|runtime member re-exported through two imports|{kind_}", got_ev == [(handler[kind_], "the real object")],
               f"runtime {kind_} reached through `re-export -> intermediate alias -> object`: merge calls {got_ev}; expected {handler[kind_]} on the real object", where(mm))
    ctx.expect_min("R2", rows, 60)
    for k in list(it.stubs):
        del it.stubs[k]

    # ------------------------------------------------------------------ R3 module selection / order symmetry
    ctx.rule("R3", "merge_stubs picks the stubs by the .pyi suffix of either argument, merges into the other and returns the regular module; two "
                   "regular modules raise ValueError (which set_member suppresses)")
    ms = prog.function(f"{MG}.merge_stubs")
    MOD_MERGE = handler["MODULE"] if handler["MODULE"] in HANDLERS else "_merge_module_stubs"
    it.stubs[f"{MG}.{MOD_MERGE}"] = lambda _i, *a, **_k: events.append(("_merge_module_stubs", a))
    for s1, s2 in itertools.product((".py", ".pyi"), repeat=2):
        events.clear()
        m1 = Obj(None, {"filepath": PurePosixPath(f"/s/pkg/mod{s1}")}, label=f"mod1{s1}")
        m2 = Obj(None, {"filepath": PurePosixPath(f"/s/pkg/mod{s2}")}, label=f"mod2{s2}")
        try:
            res = it.call(ms, m1, m2)
            raised = None
        except Raised as r:
            res, raised = None, r.exc
        if s1 == ".py" and s2 == ".py":
            good = raised == "ValueError" and not events
            want = "ValueError"
        else:
            stubs_ = m1 if s1 == ".pyi" else m2
            reg = m2 if stubs_ is m1 else m1
            good = raised is None and res is reg and [e[0] for e in events] == ["_merge_module_stubs"] and events[0][1] == (reg, stubs_)
            want = "merge(regular, stubs) and return the regular module"
            if s1 == ".pyi" and s2 == ".pyi":
                want = "first .pyi taken as stubs"
                good = raised is None and [e[0] for e in events] == ["_merge_module_stubs"]
        ctx.ob("R3", f"merge_stubs|{s1}|{s2}", good, f"merge_stubs(mod{s1}, mod{s2}): expected {want}; got result={res} raised={raised} events={[e[0] for e in events]}", where(ms))
    del it.stubs[f"{MG}.{MOD_MERGE}"]
    # implicit merge in set_member: a module set under a name that already holds a module of another file (mod.py / mod.pyi, either order)
    sm = prog.function("_griffe.mixins.SetMembersMixin.set_member")
    itm = Interp(prog, max_depth=60, max_steps=2_000_000)

    def newm(cls: str, *a: object, **k: object) -> Obj:
        return itm._construct(prog.cls(f"_griffe.models.{cls}"), list(a), dict(k))

    for first, second in ((".py", ".pyi"), (".pyi", ".py"), (".py", ".py"), (".pyi", ".pyi")):
        pkg = newm("Module", "pkg", filepath=PurePosixPath("/s/pkg/__init__.py"))
        mods = []
        for i_, suf in enumerate((first, second)):
            mod_ = newm("Module", "mod", filepath=PurePosixPath(f"/s/pkg/mod{suf}" if first != second else f"/s{i_}/pkg/mod{suf}"))
            itm.call(sm, mod_, "f", newm("Function", "f", returns=("R" if suf == ".pyi" else None)))
            if suf == ".py":
                itm.call(sm, mod_, f"only_runtime{i_}", newm("Attribute", f"only_runtime{i_}"))
            mods.append(mod_)
        try:
            itm.steps = 0
            itm.call(sm, pkg, "mod", mods[0])
            itm.call(sm, pkg, "mod", mods[1])
            kept = pkg.attrs["members"]["mod"]
            got = ("first" if kept is mods[0] else "second" if kept is mods[1] else "other", str(kept.attrs["_filepath"]).rsplit(".", 1)[-1], kept.attrs["members"]["f"].attrs["returns"],
                   sorted(k_ for k_ in kept.attrs["members"] if k_.startswith("only_runtime")))
        except Raised as r:
            got = (f"raises {r.exc}",)
        if {first, second} == {".py", ".pyi"}:
            idx = 0 if first == ".py" else 1
            want = ("first" if idx == 0 else "second", "py", "R", [f"only_runtime{idx}"])
        else:
            want = ("second", first[1:], "R" if first == ".pyi" else None, ["only_runtime1"] if first == ".py" else [])
        ctx.ob("R3", f"implicit-merge|{first} then {second}", got == want,
               f"pkg.set_member('mod', mod{first}) then pkg.set_member('mod', mod{second}): kept {got}; expected {want} (the regular module with the stub's types, "
               "whichever file is met first; two modules of the same kind: the later one, no exception)", where(sm))

    # ------------------------------------------------------------------ R4 loader wiring
    ctx.rule("R4", "_load_package merges the stubs package loaded under the same name; stub sub-modules are loaded unless the stubs live inside the "
                   "package itself (same directory), for every directory layout")
    lp = prog.function("_griffe.loader.GriffeLoader._load_package")
    layouts = {
        "stubs inside the package": ("/s/pkg/__init__.py", "/s/pkg/__init__.pyi", False),
        "pkg-stubs next to the package": ("/s/pkg/__init__.py", "/s/pkg-stubs/__init__.pyi", True),
        "pkg-stubs in another search path": ("/s/pkg/__init__.py", "/t/pkg-stubs/__init__.pyi", True),
        "single-file module with sibling stub": ("/s/mod.py", "/s/mod.pyi", False),
        "no stubs": ("/s/pkg/__init__.py", None, None),
    }
    for (label, (p_, st_, want_sub)), submodules in itertools.product(layouts.items(), (True, False)):
        loads: list[tuple] = []

        def load_module(_i, _self, name, path, *, submodules=True, loads=loads):  # noqa: ANN001
            mod_ = newm("Module", name, filepath=path)
            itm.call(sm, mod_, "f", newm("Function", "f", returns=("R" if str(path).endswith(".pyi") else None)))
            loads.append((name, str(path), submodules, mod_))
            return mod_

        itm.stubs["_griffe.loader.GriffeLoader._load_module"] = load_module
        expansions: list[tuple] = []
        itm.stubs["_griffe.loader.GriffeLoader.expand_wildcards"] = lambda _i, _self, o_, loads=loads, expansions=expansions, **k_: expansions.append((o_, k_.get("external"), len(loads)))
        package = Obj(prog.cls("_griffe.finder.Package"), {"name": "pkg", "path": PurePosixPath(p_), "stubs": PurePosixPath(st_) if st_ else None}, label="package")
        loader = Obj(prog.cls("_griffe.loader.GriffeLoader"), {}, label="loader")
        try:
            itm.steps = 0
            res = itm.call(lp, loader, package, submodules=submodules)
            got = ([(n_, pth, sub) for n_, pth, sub, _m in loads], res is loads[0][3] if loads else None, res.attrs["members"]["f"].attrs["returns"])
        except Raised as r:
            got = (f"raises {r.exc}",)
        if st_ is None:
            want = ([("pkg", p_, submodules)], True, None)
        else:
            want = ([("pkg", p_, submodules), ("pkg", st_, bool(submodules and want_sub))], True, "R")
        ctx.ob("R4", f"load-package|{label}|submodules={submodules}", got == want,
               f"{label}, submodules={submodules}: loads {got[0] if len(got) > 1 else got}, returns the runtime module: {got[1] if len(got) > 1 else None}, f -> {got[2] if len(got) > 2 else None}; "
               f"expected {want}", where(lp))
        if st_ is not None and len(got) > 1:
            # names the runtime module takes from its private sibling (`from _pkg import *`) must be members before the stubs are merged, or every stub
            # declaration for them is kept as a stub-only object: the expansion runs first, on the runtime module, and may load `_pkg`
            exp_ok = any(o_ is loads[0][3] and ext is not False and at == 1 for o_, ext, at in expansions)
            ctx.ob("R4", f"expand-before-merge|{label}|submodules={submodules}", exp_ok,
                   f"{label}: wildcard imports of the runtime module are expanded (private sibling `_pkg` allowed) after it is loaded and before its stubs are: "
                   f"expansions {[(o_.attrs.get('name'), ext, at) for o_, ext, at in expansions]}", where(lp))
    itm.stubs.clear()

    # the stubs-only package is found by the *top-level* name, whatever object of the package was asked for
    from sa.rules.C14 import _vfs

    itf = Interp(prog, max_steps=400_000)
    itf.ext_handlers["pathlib.Path"] = lambda _i, *a: PurePosixPath(*[str(x) for x in a])
    itf.ext_handlers["os.path.splitext"] = lambda _i, p_: __import__("os").path.splitext(p_)
    itf.ext_handlers["os.path.exists"] = lambda i_, p_: PurePosixPath(p_) in i_.vfs["files"] or PurePosixPath(p_) in i_.vfs["dirs"]
    itf.stubs["_griffe.finder._is_pkg_style_namespace"] = lambda _i, _init: False
    fs_fn = prog.function("_griffe.finder.ModuleFinder.find_spec")
    fcls_ = prog.cls("_griffe.finder.ModuleFinder")
    layouts_f = {"pkg-stubs next to the package": {"/s/pkg/__init__.py": "", "/s/pkg/core.py": "", "/s/pkg-stubs/__init__.pyi": "", "/s/pkg-stubs/core.pyi": ""},
                 "stubs-only package": {"/s/pkg-stubs/__init__.pyi": "", "/s/pkg-stubs/core.pyi": ""}}
    for (lname, files_f), spec in itertools.product(layouts_f.items(), ("pkg", "pkg.core", "pkg.core.Engine.start")):
        itf.vfs = _vfs(files_f)
        itf.steps = 0
        try:
            fo = itf._construct(fcls_, [["/s"]], {})
            name_, pk_ = itf.call(fs_fn, fo, spec, try_relative_path=False, find_stubs_package=True)
            got_f: object = (name_, str(pk_.attrs.get("path")), str(pk_.attrs.get("stubs")))
        except Raised as r:
            got_f = f"raises {r.exc}"
        want_f = (spec, "/s/pkg/__init__.py", "/s/pkg-stubs/__init__.pyi") if "next to" in lname else (spec, "/s/pkg-stubs/__init__.pyi", "None")
        ctx.ob("R4", f"find-stubs-package|{lname}|{spec}", got_f == want_f, f"{lname}: find_spec({spec!r}, find_stubs_package=True) = {got_f}; expected {want_f}", where(fs_fn))

    # ------------------------------------------------------------------ R5 alias discipline
    ctx.rule("R5", "no alias error can escape a merge: every dereference of a possibly-alias member in merger.py is guarded, handled or tabled")
    ad = AliasDeref(prog, cg)
    scope = [f for f in prog.functions.values() if f.module.name == MG]
    # keys use canonical names (sa.util.canon_names: parameters p0.., other bound names v0.. by first binding), so renaming variables changes nothing
    TABLED = {
        (f"{MG}._merge_function_stubs", "v0.annotation"): "loop variable over Parameters: a Parameter, never an alias",
        (f"{MG}._merge_function_stubs", "p1.parameters"): "called from the dispatch under its handler for both alias errors; the stub member is not an alias (checked by R2)",
        (f"{MG}._merge_function_stubs", "p0.parameters"): "same",
        (f"{MG}._merge_function_stubs", "p1.returns"): "same",
        (f"{MG}._merge_attribute_stubs", "p1.annotation"): "same",
        (f"{MG}._merge_stubs_docstring", "p0.docstring"): "same (module level: modules are not aliases)",
        (f"{MG}._merge_stubs_docstring", "p1.docstring"): "same",
        (f"{MG}._merge_stubs_overloads", "p1.overloads"): "stubs is a module/class object, not an alias",
        (f"{MG}._merge_stubs_members", "p1.members"): "same",
        (f"{MG}._merge_stubs_members", "p1.imports"): "same",
        (f"{MG}._merge_stubs_members", "p0.members"): "obj is the runtime module/class reached through the guarded dispatch",
        (f"{MG}._merge_stubs_members", "p0.imports"): "same",
        (f"{MG}.merge_stubs", "p0.filepath"): "modules, not aliases; BuiltinModuleError is suppressed by the caller",
        (f"{MG}.merge_stubs", "p1.filepath"): "same",
    }
    sites = ad.scan(scope, TABLED)
    for stt in sites:
        ctx.ob("R5", key(stt.fn, f"deref:{canon_text(stt.fn, stt.node)}"), stt.status != "OPEN", f"{stt.status}: {stt.reason}" if stt.status != "OPEN" else stt.reason, where(stt.fn, stt.node))
    ctx.expect_min("R5", len(sites), 5)
    fo = prog.function(f"{MG}._merge_stubs_overloads")
    for s in walk_no_nested(fo.node):
        if isinstance(s, ast.Assign) and isinstance(s.targets[0], ast.Attribute) and s.targets[0].attr == "overloads" and "get_member" in unparse(s.targets[0]):
            got = enclosing_catch(s)
            ctx.ob("R5", key(fo, "overload-target-guarded"), "KeyError" in got and catches_both(got),
                   "assigning overloads to a runtime name that is missing, or an unresolvable import, skips that name instead of aborting the merge", where(fo, s))

    _merge_table(prog, ctx)


def _merge_table(prog: Program, ctx: Ctx) -> None:
    """R6: merge_stubs evaluated end to end on a runtime module and its stubs built with the models' own constructors, in both argument orders."""
    ctx.rule("R6", "merging a stubs module into its runtime module (either argument order) returns the runtime module with: annotations and return types "
                   "from the stubs, runtime docstrings kept and missing ones - the module's own included - taken from the stubs, runtime-only members "
                   "kept, stub-only members added and marked as not available at run time")
    M = "_griffe.models"
    it = Interp(prog, max_depth=60, max_steps=3_000_000)
    ms = prog.function(f"{MG}.merge_stubs")

    def new(cls: str, *a: object, **k: object) -> Obj:
        return it._construct(prog.cls(f"{M}.{cls}"), list(a), dict(k))

    def setm(o: Obj, n: str, v: Obj) -> None:
        it.call(prog.lookup_method(o.cls, "set_member")[0], o, n, v)

    def doc(text: str | None) -> Obj | None:
        return new("Docstring", text) if text else None

    def build(suffix: str, typed: bool, docs: dict[str, str]) -> Obj:
        t = (lambda x: x) if typed else (lambda _x: None)
        m = new("Module", "m", filepath=PurePosixPath(f"/s/m{suffix}"), docstring=doc(docs.get("m")))
        ps = new("Parameters", new("Parameter", "a", annotation=t("A")), new("Parameter", "b", annotation=t("B")))
        setm(m, "f", new("Function", "f", parameters=ps, returns=t("R"), docstring=doc(docs.get("f"))))
        setm(m, "x", new("Attribute", "x", annotation=t("X"), docstring=doc(docs.get("x"))))
        k = new("Class", "K", docstring=doc(docs.get("K")))
        setm(m, "K", k)
        setm(k, "g", new("Function", "g", parameters=new("Parameters", new("Parameter", "self")), returns=t("G"), docstring=doc(docs.get("g"))))
        return m

    def text(o: Obj) -> str | None:
        d = o.attrs.get("docstring")
        return it.getattr(d, "value") if d is not None else None

    for order in ("runtime first", "stubs first"):
        rt = build(".py", False, {"f": "runtime f", "g": "runtime g"})
        setm(rt, "only_runtime", new("Attribute", "only_runtime"))
        st = build(".pyi", True, {"m": "stub module", "x": "stub x", "K": "stub K", "f": "stub f"})
        setm(st, "only_stub", new("Attribute", "only_stub", annotation="S"))
        try:
            it.steps = 0
            out = it.call(ms, rt, st) if order == "runtime first" else it.call(ms, st, rt)
            mem = out.attrs["members"]
            f, kk = mem["f"], mem["K"]
            got = {
                "returns the runtime module": out is rt, "members": sorted(mem), "module docstring": text(out), "f docstring": text(f), "f returns": f.attrs["returns"],
                "f parameters": [(q.attrs["name"], q.attrs["annotation"]) for q in it._iterate(f.attrs["parameters"])],
                "x": (mem["x"].attrs["annotation"], text(mem["x"])), "K docstring": text(kk), "K.g": (kk.attrs["members"]["g"].attrs["returns"], text(kk.attrs["members"]["g"])),
                "only_stub available at run time": mem["only_stub"].attrs["runtime"],
            }
            # the loader merges the stubs of a top-level module twice (once when the stubs module is registered, once at the end of _load_package):
            # a second merge of the same stubs changes nothing
            it.call(ms, rt, st) if order == "runtime first" else it.call(ms, st, rt)
            got["after a second merge of the same stubs"] = (sorted(out.attrs["members"]), out.attrs["members"]["only_stub"].attrs["runtime"], f.attrs["returns"], text(out))
        except Raised as r:
            got = {"raises": r.exc}
        want = {
            "returns the runtime module": True, "members": ["K", "f", "only_runtime", "only_stub", "x"], "module docstring": "stub module", "f docstring": "runtime f",
            "f returns": "R", "f parameters": [("a", "A"), ("b", "B")], "x": ("X", "stub x"), "K docstring": "stub K", "K.g": ("G", "runtime g"),
            "only_stub available at run time": False,
            "after a second merge of the same stubs": (["K", "f", "only_runtime", "only_stub", "x"], False, "R", "stub module"),
        }
        for k_, w_ in want.items():
            ctx.ob("R6", f"merge|{order}|{k_}", got.get(k_) == w_, f"merge_stubs ({order}): {k_} = {got.get(k_, got)}; expected {w_}", where(ms))


def _root(node: ast.AST) -> str | None:
    while isinstance(node, (ast.Attribute, ast.Subscript, ast.Call)):
        node = node.value if not isinstance(node, ast.Call) else node.func
    return node.id if isinstance(node, ast.Name) else None


def _sides(f: FunctionInfo, tgt_p: str, src_p: str) -> dict[str, str]:
    side = {tgt_p: "runtime", src_p: "stubs"}
    for n in walk_no_nested(f.node):
        if isinstance(n, ast.For):
            r = _root(n.iter.func.value if isinstance(n.iter, ast.Call) and isinstance(n.iter.func, ast.Attribute) else n.iter)
            if isinstance(n.iter, ast.Call) and dotted(n.iter.func) == "list" and n.iter.args:
                inner = n.iter.args[0]
                r = _root(inner.func.value if isinstance(inner, ast.Call) and isinstance(inner.func, ast.Attribute) else inner)
            s = side.get(r or "")
            if s:
                for t in ast.walk(n.target):
                    if isinstance(t, ast.Name):
                        side[t.id] = s
    # a local bound to something reached from one side (`member = obj.get_member(name)`) belongs to that side
    changed = True
    while changed:
        changed = False
        for n in walk_no_nested(f.node):
            if isinstance(n, ast.Assign) and len(n.targets) == 1 and isinstance(n.targets[0], ast.Name) and n.targets[0].id not in side:
                v = n.value
                r = _root(v.func.value if isinstance(v, ast.Call) and isinstance(v.func, ast.Attribute) else v)
                if side.get(r or ""):
                    side[n.targets[0].id] = side[r]
                    changed = True
    return side
