"""C19 - Merging stubs loses nothing and prefers stub types (structural part).

R1 merge direction (def-use of every store), R2 member-merge decision table (abstract evaluation), R3 module selection / order symmetry,
R4 loader wiring (result of the merge is what gets stored; which stubs sub-modules are loaded), R5 alias discipline.
"""

from __future__ import annotations

import ast
import itertools
from pathlib import PurePosixPath

from sa.absint import Env, Interp, Native, Obj, Raised, Sym, lazy
from sa.aliasderef import AliasDeref, catches_both, enclosing_catch
from sa.callgraph import CallGraph
from sa.report import Ctx
from sa.srcmodel import AnalysisError, FunctionInfo, Program, ancestors, dotted, norm, unparse, walk_no_nested
from sa.util import calls_in, cfg_of, key, node_index, stmt_of, where

MG = "_griffe.merger"


def run(prog: Program, ctx: Ctx) -> None:  # noqa: PLR0912,PLR0915
    cg = CallGraph(prog)
    # ------------------------------------------------------------------ R1 direction
    ctx.rule("R1", "every store of the merge functions writes into the runtime object (first parameter) from the stubs object (second); the "
                   "docstring is taken only when the runtime one is missing; parameter annotations are merged per name, a missing name "
                   "skipping only that parameter")
    n_stores = 0
    for name in ("_merge_function_stubs", "_merge_attribute_stubs", "_merge_stubs_docstring", "_merge_stubs_overloads"):
        f = prog.function(f"{MG}.{name}")
        tgt_p, src_p = f.params[0], f.params[1]
        for s in walk_no_nested(f.node):
            if isinstance(s, ast.Assign) and isinstance(s.targets[0], ast.Attribute):
                n_stores += 1
                t_root = _root(s.targets[0])
                v_names = {n.id for n in ast.walk(s.value) if isinstance(n, ast.Name)}
                # loop variables inherit the side of the collection they iterate
                side = _sides(f, tgt_p, src_p)
                ok = side.get(t_root) == "runtime" and all(side.get(v, "other") in ("stubs", "other") for v in v_names) and any(side.get(v) == "stubs" for v in v_names)
                ctx.ob("R1", key(f, f"direction:{norm(s)}"), ok, f"`{norm(s)}` stores stub data into the runtime object" if ok else
                       f"`{norm(s)}` does not go from the stubs ({src_p}) to the runtime object ({tgt_p})", where(f, s))
                # same field on both sides
                attr_t = s.targets[0].attr
                attr_v = s.value.attr if isinstance(s.value, ast.Attribute) else None
                if attr_v is not None:
                    ctx.ob("R1", key(f, f"same-field:{norm(s)}"), attr_t == attr_v, f"`{attr_t}` is taken from the stub's `{attr_v}`", where(f, s))
    ctx.expect_min("R1", n_stores, 5)
    fd = prog.function(f"{MG}._merge_stubs_docstring")
    cfg = cfg_of(fd)
    for x in cfg.live_nodes():
        if x.kind == "stmt" and isinstance(x.stmt, ast.Assign):
            a = cfg.dominated_by_fact(x, lambda at, t: not t and unparse(at) == f"{fd.params[0]}.docstring")
            b = cfg.dominated_by_fact(x, lambda at, t: t and unparse(at) == f"{fd.params[1]}.docstring")
            ctx.ob("R1", key(fd, "docstring-only-when-missing"), a and b, "the runtime docstring is kept unless it is missing (and the stub has one)", where(fd, x.stmt))
    ff = prog.function(f"{MG}._merge_function_stubs")
    loops = [n for n in walk_no_nested(ff.node) if isinstance(n, ast.For) and unparse(n.iter) == f"{ff.params[1]}.parameters"]
    ok = False
    if len(loops) == 1:
        for s in ast.walk(loops[0]):
            if isinstance(s, ast.Assign) and isinstance(s.targets[0], ast.Attribute) and s.targets[0].attr == "annotation":
                got = set()
                child = s
                for anc in ancestors(s):
                    if anc is loops[0]:
                        break
                    if isinstance(anc, ast.With) and any("suppress" in unparse(i.context_expr) and "KeyError" in unparse(i.context_expr) for i in anc.items):
                        got.add("KeyError")
                    if isinstance(anc, ast.Try) and any(h.type is not None and "KeyError" in unparse(h.type) for h in anc.handlers):
                        got.add("KeyError")
                ok = "KeyError" in got and f"{ff.params[0]}.parameters[" in unparse(s.targets[0]) and f"{unparse(loops[0].target)}.name" in unparse(s.targets[0])
    ctx.ob("R1", key(ff, "per-parameter"), ok, "each stub parameter annotates the runtime parameter of the same name; a name missing at runtime is skipped "
           "inside the loop (the remaining parameters are still merged)", where(ff))
    ctx.ob("R1", key(ff, "returns"), any(isinstance(s, ast.Assign) and unparse(s) == f"{ff.params[0]}.returns = {ff.params[1]}.returns" for s in walk_no_nested(ff.node)),
           "the return annotation is taken from the stub", where(ff))

    # ------------------------------------------------------------------ R2 member decision table
    ctx.rule("R2", "_merge_stubs_members decision table: stub-only member -> marked runtime=False then set_member; stub alias on an existing name -> "
                   "untouched; kind mismatch or unresolvable runtime alias -> nothing, no raise; same kind -> that kind's merge(runtime, stub)")
    it = Interp(prog)
    mm = prog.function(f"{MG}._merge_stubs_members")
    K = {k: it.enum("_griffe.enumerations.Kind", k) for k in ("MODULE", "CLASS", "FUNCTION", "ATTRIBUTE")}
    events: list[tuple] = []
    for name in ("_merge_module_stubs", "_merge_class_stubs", "_merge_function_stubs", "_merge_attribute_stubs"):
        it.stubs[f"{MG}.{name}"] = (lambda n: (lambda _i, *a, **_k: events.append((n, a))))(name)

    def member(kind: str, *, alias: bool = False, broken: bool = False, label: str = "") -> Obj:
        attrs = {"name": "m", "is_alias": alias, "is_module": kind == "MODULE", "is_class": kind == "CLASS", "is_function": kind == "FUNCTION",
                 "is_attribute": kind == "ATTRIBUTE", "path": "p.m", "runtime": True, "docstring": None}
        if broken:
            def boom(_i, _o):
                raise Raised("AliasResolutionError")
            attrs["kind"] = lazy(boom)
            for k in ("is_module", "is_class", "is_function", "is_attribute"):
                attrs[k] = lazy(boom)
        else:
            attrs["kind"] = K[kind]
        return Obj(None, attrs, label=label or kind)

    handler = {"MODULE": "_merge_module_stubs", "CLASS": "_merge_class_stubs", "FUNCTION": "_merge_function_stubs", "ATTRIBUTE": "_merge_attribute_stubs"}
    rows = 0
    for present, stub_alias, ok_, sk, broken in itertools.product((True, False), (False, True), K, K, (False, True)):
        if not present and (broken or ok_ != "MODULE"):
            continue
        events.clear()
        o_m = member(ok_, alias=broken, broken=broken, label="runtime")
        s_m = member(sk, alias=stub_alias, label="stub")
        members = {"m": o_m} if present else {}

        def set_member(name, value, members=members):
            events.append(("set_member", (name, value, value.attrs.get("runtime"))))
            members[name] = value

        obj = Obj(None, {"members": members, "imports": {}, "get_member": Native(lambda n, members=members: members[n]), "set_member": Native(set_member), "path": "p"})
        stubs = Obj(None, {"members": {"m": s_m}, "imports": {"x": "y"}})
        try:
            it.call(mm, obj, stubs)
            raised = None
        except Raised as r:
            raised = r.exc
        names = [e[0] for e in events]
        if not present:
            want = "stub-only member marked runtime=False, then set_member"
            good = raised is None and names == ["set_member"] and events[0][1][1] is s_m and events[0][1][2] is False
        elif stub_alias:
            want = "nothing (stub-side alias untouched)"
            good = raised is None and not events
        elif broken or ok_ != sk:
            want = "nothing and no exception"
            good = raised is None and not events
        else:
            want = f"{handler[ok_]}(runtime member, stub member)"
            good = raised is None and names == [handler[ok_]] and events[0][1][:2] == (o_m, s_m)
        rows += 1
        ctx.ob("R2", f"row|present={present}|stub_alias={stub_alias}|runtime={'unresolvable alias' if broken else ok_}|stub={sk}", good,
               f"expected {want}; got events={names} raised={raised}", where(mm))
        ctx.ob("R2", f"imports|present={present}|{ok_}|{sk}|{stub_alias}|{broken}", obj.attrs["imports"].get("x") == "y", "stub imports are merged into the runtime imports", where(mm), nontrivial=False)
    ctx.expect_min("R2", rows, 60)
    for k in list(it.stubs):
        del it.stubs[k]

    # ------------------------------------------------------------------ R3 module selection / order symmetry
    ctx.rule("R3", "merge_stubs picks the stubs by the .pyi suffix of either argument, merges into the other and returns the regular module; two "
                   "regular modules raise ValueError (which set_member suppresses)")
    ms = prog.function(f"{MG}.merge_stubs")
    it.stubs[f"{MG}._merge_module_stubs"] = lambda _i, *a, **_k: events.append(("_merge_module_stubs", a))
    for s1, s2 in itertools.product((".py", ".pyi"), repeat=2):
        events.clear()
        m1 = Obj(None, {"filepath": PurePosixPath(f"/s/pkg/mod{s1}")}, label=f"mod1{s1}")
        m2 = Obj(None, {"filepath": PurePosixPath(f"/s/pkg/mod{s2}")}, label=f"mod2{s2}")
        try:
            res = it.call(ms, m1, m2)
            raised = None
        except Raised as r:
            res, raised = None, r.exc
        if s1 == ".py" and s2 == ".py":
            good = raised == "ValueError" and not events
            want = "ValueError"
        else:
            stubs_ = m1 if s1 == ".pyi" else m2
            reg = m2 if stubs_ is m1 else m1
            good = raised is None and res is reg and [e[0] for e in events] == ["_merge_module_stubs"] and events[0][1] == (reg, stubs_)
            want = "merge(regular, stubs) and return the regular module"
            if s1 == ".pyi" and s2 == ".pyi":
                want = "first .pyi taken as stubs"
                good = raised is None and [e[0] for e in events] == ["_merge_module_stubs"]
        ctx.ob("R3", f"merge_stubs|{s1}|{s2}", good, f"merge_stubs(mod{s1}, mod{s2}): expected {want}; got result={res} raised={raised} events={[e[0] for e in events]}", where(ms))
    del it.stubs[f"{MG}._merge_module_stubs"]
    sm = prog.function("_griffe.mixins.SetMembersMixin.set_member")
    mcalls = [c for c in calls_in(sm.node) if (dotted(c.func) or "").endswith("merge_stubs")]
    ctx.expect_min("R3", len(mcalls), 1)
    for c in mcalls:
        st = stmt_of(c)
        stores = [s for s in walk_no_nested(sm.node) if isinstance(s, ast.Assign) and isinstance(s.targets[0], ast.Subscript) and unparse(s.targets[0].value) == "self.members"]
        ok = isinstance(st, ast.Assign) and stores and all(unparse(st.targets[0]) == unparse(s.value) for s in stores)
        ctx.ob("R3", key(sm, "merge-result-stored"), bool(ok), "the module stored after an implicit stub merge is the *result* of merge_stubs (the regular module), whichever "
               "of the two files was met first" if ok else "set_member does not store merge_stubs' result: when the .pyi is met first the stubs module stays in the tree", where(sm, c))
        got = enclosing_catch(c)
        ctx.ob("R3", key(sm, "ValueError-suppressed"), "ValueError" in got, "two regular modules with the same name do not raise", where(sm, c))
        ctx.ob("R3", key(sm, "alias-errors-suppressed"), catches_both(got), "alias errors during an implicit merge do not escape set_member", where(sm, c))
        a0, a1 = (unparse(a) for a in c.args[:2])
        ctx.ob("R3", key(sm, "merge-arguments"), {a0, a1} == {"member", unparse(st.targets[0]) if isinstance(st, ast.Assign) else "value"},
               "the existing member and the new value are the two modules merged", where(sm, c))

    # ------------------------------------------------------------------ R4 loader wiring
    ctx.rule("R4", "_load_package merges the stubs package loaded under the same name; stub sub-modules are loaded unless the stubs live inside the "
                   "package itself (same directory), for every directory layout")
    lp = prog.function("_griffe.loader.GriffeLoader._load_package")
    asg = [s for s in walk_no_nested(lp.node) if isinstance(s, ast.Assign) and unparse(s.targets[0]) == "submodules"]
    if len(asg) != 1:
        raise AnalysisError("C19-R4: `submodules = ...` not found in _load_package")
    layouts = {
        "stubs inside the package": ("/s/pkg/__init__.py", "/s/pkg/__init__.pyi", False),
        "pkg-stubs next to the package": ("/s/pkg/__init__.py", "/s/pkg-stubs/__init__.pyi", True),
        "pkg-stubs in another search path": ("/s/pkg/__init__.py", "/t/pkg-stubs/__init__.pyi", True),
        "single-file module with sibling stub": ("/s/mod.py", "/s/mod.pyi", False),
    }
    for label, (p, st_, want) in layouts.items():
        env = Env(lp.module)
        env.set("submodules", True)
        env.set("package", Obj(None, {"path": PurePosixPath(p), "stubs": PurePosixPath(st_), "name": "pkg"}))
        try:
            # run the pure local assignments that precede the decision in the same block (helpers such as `stubs_in_package = ...`)
            from sa.srcmodel import parent as _parent

            block = getattr(_parent(asg[0]), "body", [])
            for stmt in block:
                if stmt is asg[0]:
                    break
                if isinstance(stmt, (ast.Assign, ast.AnnAssign)) and not any(isinstance(n, ast.Name) and n.id == "self" for n in ast.walk(stmt)):
                    it._stmt(stmt, env)
            got = it.truth(it.eval(asg[0].value, env))
        except Raised as r:
            got = f"raises {r.exc}"
        ctx.ob("R4", f"stub-submodules|{label}", got == want, f"{label}: load stub sub-modules = {got}, expected {want}", where(lp, asg[0]))
    mc = [c for c in calls_in(lp.node) if dotted(c.func) == "merge_stubs"]
    ok = len(mc) == 1 and unparse(mc[0].args[0]) == "top_module" and unparse(mc[0].args[1]) == "stubs"
    ctx.ob("R4", key(lp, "merge-call"), ok, "the loaded stubs package is merged into the loaded package", where(lp))
    lm = [s for s in walk_no_nested(lp.node) if isinstance(s, ast.Assign) and unparse(s.targets[0]) == "stubs" and isinstance(s.value, ast.Call)]
    ok = len(lm) == 1 and unparse(lm[0].value.args[0]) == "package.name" and unparse(lm[0].value.args[1]) == "package.stubs"
    ctx.ob("R4", key(lp, "stubs-loaded-under-package-name"), ok, "the stubs package is loaded under the runtime package's own name", where(lp))

    # ------------------------------------------------------------------ R5 alias discipline
    ctx.rule("R5", "no alias error can escape a merge: every dereference of a possibly-alias member in merger.py is guarded, handled or tabled")
    ad = AliasDeref(prog, cg)
    scope = [f for f in prog.functions.values() if f.module.name == MG]
    TABLED = {
        (f"{MG}._merge_function_stubs", "parameter.annotation"): "loop variable over Parameters: a Parameter, never an alias",
        (f"{MG}._merge_function_stubs", "stubs.parameters"): "called from the dispatch under its handler for both alias errors; the stub member is not an alias (checked by R2)",
        (f"{MG}._merge_function_stubs", "function.parameters"): "same",
        (f"{MG}._merge_function_stubs", "stubs.returns"): "same",
        (f"{MG}._merge_attribute_stubs", "stubs.annotation"): "same",
        (f"{MG}._merge_stubs_docstring", "obj.docstring"): "same (module level: modules are not aliases)",
        (f"{MG}._merge_stubs_docstring", "stubs.docstring"): "same",
        (f"{MG}._merge_stubs_overloads", "stubs.overloads"): "stubs is a module/class object, not an alias",
        (f"{MG}._merge_stubs_members", "stubs.members"): "same",
        (f"{MG}._merge_stubs_members", "stubs.imports"): "same",
        (f"{MG}._merge_stubs_members", "obj.members"): "obj is the runtime module/class reached through the guarded dispatch",
        (f"{MG}._merge_stubs_members", "obj.imports"): "same",
        (f"{MG}.merge_stubs", "mod1.filepath"): "modules, not aliases; BuiltinModuleError is suppressed by the caller",
        (f"{MG}.merge_stubs", "mod2.filepath"): "same",
    }
    sites = ad.scan(scope, TABLED)
    for stt in sites:
        ctx.ob("R5", key(stt.fn, f"deref:{norm(stt.node, 60)}"), stt.status != "OPEN", f"{stt.status}: {stt.reason}" if stt.status != "OPEN" else stt.reason, where(stt.fn, stt.node))
    ctx.expect_min("R5", len(sites), 5)
    fo = prog.function(f"{MG}._merge_stubs_overloads")
    for s in walk_no_nested(fo.node):
        if isinstance(s, ast.Assign) and isinstance(s.targets[0], ast.Attribute) and s.targets[0].attr == "overloads" and "get_member" in unparse(s.targets[0]):
            got = enclosing_catch(s)
            ctx.ob("R5", key(fo, "overload-target-guarded"), "KeyError" in got and catches_both(got),
                   "assigning overloads to a runtime name that is missing, or an unresolvable import, skips that name instead of aborting the merge", where(fo, s))

    _merge_table(prog, ctx)


def _merge_table(prog: Program, ctx: Ctx) -> None:
    """R6: merge_stubs evaluated end to end on a runtime module and its stubs built with the models' own constructors, in both argument orders."""
    ctx.rule("R6", "merging a stubs module into its runtime module (either argument order) returns the runtime module with: annotations and return types "
                   "from the stubs, runtime docstrings kept and missing ones - the module's own included - taken from the stubs, runtime-only members "
                   "kept, stub-only members added and marked as not available at run time")
    M = "_griffe.models"
    it = Interp(prog, max_depth=60, max_steps=3_000_000)
    ms = prog.function(f"{MG}.merge_stubs")

    def new(cls: str, *a: object, **k: object) -> Obj:
        return it._construct(prog.cls(f"{M}.{cls}"), list(a), dict(k))

    def setm(o: Obj, n: str, v: Obj) -> None:
        it.call(prog.lookup_method(o.cls, "set_member")[0], o, n, v)

    def doc(text: str | None) -> Obj | None:
        return new("Docstring", text) if text else None

    def build(suffix: str, typed: bool, docs: dict[str, str]) -> Obj:
        t = (lambda x: x) if typed else (lambda _x: None)
        m = new("Module", "m", filepath=PurePosixPath(f"/s/m{suffix}"), docstring=doc(docs.get("m")))
        ps = new("Parameters", new("Parameter", "a", annotation=t("A")), new("Parameter", "b", annotation=t("B")))
        setm(m, "f", new("Function", "f", parameters=ps, returns=t("R"), docstring=doc(docs.get("f"))))
        setm(m, "x", new("Attribute", "x", annotation=t("X"), docstring=doc(docs.get("x"))))
        k = new("Class", "K", docstring=doc(docs.get("K")))
        setm(m, "K", k)
        setm(k, "g", new("Function", "g", parameters=new("Parameters", new("Parameter", "self")), returns=t("G"), docstring=doc(docs.get("g"))))
        return m

    def text(o: Obj) -> str | None:
        d = o.attrs.get("docstring")
        return it.getattr(d, "value") if d is not None else None

    for order in ("runtime first", "stubs first"):
        rt = build(".py", False, {"f": "runtime f", "g": "runtime g"})
        setm(rt, "only_runtime", new("Attribute", "only_runtime"))
        st = build(".pyi", True, {"m": "stub module", "x": "stub x", "K": "stub K", "f": "stub f"})
        setm(st, "only_stub", new("Attribute", "only_stub", annotation="S"))
        try:
            it.steps = 0
            out = it.call(ms, rt, st) if order == "runtime first" else it.call(ms, st, rt)
            mem = out.attrs["members"]
            f, kk = mem["f"], mem["K"]
            got = {
                "returns the runtime module": out is rt, "members": sorted(mem), "module docstring": text(out), "f docstring": text(f), "f returns": f.attrs["returns"],
                "f parameters": [(q.attrs["name"], q.attrs["annotation"]) for q in it._iterate(f.attrs["parameters"])],
                "x": (mem["x"].attrs["annotation"], text(mem["x"])), "K docstring": text(kk), "K.g": (kk.attrs["members"]["g"].attrs["returns"], text(kk.attrs["members"]["g"])),
                "only_stub available at run time": mem["only_stub"].attrs["runtime"],
            }
        except Raised as r:
            got = {"raises": r.exc}
        want = {
            "returns the runtime module": True, "members": ["K", "f", "only_runtime", "only_stub", "x"], "module docstring": "stub module", "f docstring": "runtime f",
            "f returns": "R", "f parameters": [("a", "A"), ("b", "B")], "x": ("X", "stub x"), "K docstring": "stub K", "K.g": ("G", "runtime g"),
            "only_stub available at run time": False,
        }
        for k_, w_ in want.items():
            ctx.ob("R6", f"merge|{order}|{k_}", got.get(k_) == w_, f"merge_stubs ({order}): {k_} = {got.get(k_, got)}; expected {w_}", where(ms))


def _root(node: ast.AST) -> str | None:
    while isinstance(node, (ast.Attribute, ast.Subscript, ast.Call)):
        node = node.value if not isinstance(node, ast.Call) else node.func
    return node.id if isinstance(node, ast.Name) else None


def _sides(f: FunctionInfo, tgt_p: str, src_p: str) -> dict[str, str]:
    side = {tgt_p: "runtime", src_p: "stubs"}
    for n in walk_no_nested(f.node):
        if isinstance(n, ast.For):
            r = _root(n.iter.func.value if isinstance(n.iter, ast.Call) and isinstance(n.iter.func, ast.Attribute) else n.iter)
            if isinstance(n.iter, ast.Call) and dotted(n.iter.func) == "list" and n.iter.args:
                inner = n.iter.args[0]
                r = _root(inner.func.value if isinstance(inner, ast.Call) and isinstance(inner.func, ast.Attribute) else inner)
            s = side.get(r or "")
            if s:
                for t in ast.walk(n.target):
                    if isinstance(t, ast.Name):
                        side[t.id] = s
    return side
