"""C06 - Alias resolution is total, all-or-nothing and cycle-safe (structural part).

R1 guarded recursion on call-graph cycles that walk the (possibly cyclic) import/alias graph,
R2 re-entrancy flag pairing, R3 all-or-nothing store ordering, R4 error discipline (explicit raises,
KeyError conversion, dereference sites of possibly-alias members), R5 fixpoint loop frame, R7 alias-graph table, R8 package table.
"""

from __future__ import annotations

import ast

from sa.callgraph import CallGraph, Edge
from sa.cfg import handler_types, implied, suppress_types
from sa.aliasderef import AliasDeref, catches_both, enclosing_catch
from sa.reach import eval3
from sa.report import Ctx
from sa.srcmodel import AnalysisError, FunctionInfo, Program, ancestors, dotted, norm, parent, unparse, walk_no_nested
from sa.util import canon_text, calls_in, cfg_of, key, node_index, path_text, stmt_of, stores_of, where

AE = {"AliasResolutionError", "CyclicAliasError"}
CATCH_ALL = {"GriffeError", "ResolutionError", "Exception", "BaseException"}

# call-graph cycles that traverse the import / alias / inheritance graph (may be cyclic at run time) and therefore need a guard
GRAPH_RECURSIONS = {
    "_griffe.loader.GriffeLoader.expand_exports",
    "_griffe.loader.GriffeLoader.expand_wildcards",
    "_griffe.loader.GriffeLoader.resolve_module_aliases",
    "_griffe.extensions.dataclasses._apply_recursively",
    "_griffe.diff._type_based_yield",
    "_griffe.models.Class._mro",
    "_griffe.models.Alias.resolve_target",
}
# cycles that recurse on a finite, acyclic structure (reason per entry); not subject to R1
STRUCTURAL_RECURSIONS = {
    "_griffe.mixins.GetMembersMixin.get_member": "recurses on parts[1:] (strictly shorter key)",
    "_griffe.mixins.DelMembersMixin.del_member": "recurses on parts[1:]",
    "_griffe.mixins.SetMembersMixin.set_member": "recurses on parts[1:]; merge_stubs walks two finite member trees",
    "_griffe.models.Object.resolve": "walks the parent chain (a tree)",
    "_griffe.loader.GriffeLoader._load_module": "sub-modules are loaded with submodules=False (depth 1)",
}
SCOPE_MODULES = {"_griffe.loader", "_griffe.diff", "_griffe.extensions.dataclasses", "_griffe.models", "_griffe.mixins", "_griffe.merger"}


def _sccs(nodes: list[str], adj: dict[str, set[str]]) -> list[list[str]]:
    index: dict[str, int] = {}
    low: dict[str, int] = {}
    stack: list[str] = []
    on: set[str] = set()
    out: list[list[str]] = []
    counter = [0]

    def visit(v: str) -> None:
        work = [(v, iter(sorted(adj.get(v, ()))))]
        index[v] = low[v] = counter[0]
        counter[0] += 1
        stack.append(v)
        on.add(v)
        while work:
            node, it = work[-1]
            advanced = False
            for w in it:
                if w not in index:
                    index[w] = low[w] = counter[0]
                    counter[0] += 1
                    stack.append(w)
                    on.add(w)
                    work.append((w, iter(sorted(adj.get(w, ())))))
                    advanced = True
                    break
                if w in on:
                    low[node] = min(low[node], index[w])
            if advanced:
                continue
            work.pop()
            if work:
                low[work[-1][0]] = min(low[work[-1][0]], low[node])
            if low[node] == index[node]:
                comp = []
                while True:
                    w = stack.pop()
                    on.discard(w)
                    comp.append(w)
                    if w == node:
                        break
                out.append(comp)

    for n in nodes:
        if n not in index:
            visit(n)
    return out


def _bind(call: ast.Call, callee: FunctionInfo) -> dict[str, ast.expr]:
    """callee parameter name -> argument expression (self skipped for methods)."""
    a = callee.node.args
    pos = [x.arg for x in (*a.posonlyargs, *a.args)]
    if callee.cls is not None and pos and pos[0] in ("self", "cls"):
        pos = pos[1:]
    out: dict[str, ast.expr] = {}
    for p, v in zip(pos, call.args):
        out[p] = v
    for kw in call.keywords:
        if kw.arg:
            out[kw.arg] = kw.value
    return out


def _expanded_facts(fn: FunctionInfo, cnode) -> list[tuple[ast.expr, bool]]:
    """Branch facts dominating cnode, with Name atoms expanded through their single defining assignment."""
    cfg = cfg_of(fn)
    atoms: dict[tuple[str, bool], ast.expr] = {}
    for n in cfg.live_nodes():
        if n.kind == "test" and n.expr is not None:
            for br in (True, False):
                for atom, truth in implied(n.expr, br):
                    atoms[(unparse(atom), truth)] = atom
    out: list[tuple[ast.expr, bool]] = []
    for (text, truth), atom in atoms.items():
        if cfg.dominated_by_fact(cnode, lambda a, t, text=text, truth=truth: unparse(a) == text and t == truth):
            out.append((atom, truth))
            if isinstance(atom, ast.Name):
                defs = [s for s in stores_of(fn.node, atom.id) if isinstance(s, ast.Assign)]
                if len(defs) == 1:
                    out.extend(implied(defs[0].value, truth))
    return out


def _neg_memberships(facts: list[tuple[ast.expr, bool]]) -> list[tuple[ast.expr, ast.expr]]:
    """(element, collection) pairs known NOT to be members."""
    out = []
    for atom, truth in facts:
        if isinstance(atom, ast.Compare) and len(atom.ops) == 1:
            if (isinstance(atom.ops[0], ast.In) and truth is False) or (isinstance(atom.ops[0], ast.NotIn) and truth is True):
                out.append((atom.left, atom.comparators[0]))
    return out


def _adds(fn: FunctionInfo, coll: str) -> list[tuple[object, ast.expr]]:
    """CFG nodes of fn that add an element to collection `coll` -> the element expression."""
    cfg = cfg_of(fn)
    out = []
    for n in cfg.live_nodes():
        s = n.stmt
        if n.kind != "stmt" or s is None:
            continue
        if isinstance(s, ast.Expr) and isinstance(s.value, ast.Call) and isinstance(s.value.func, ast.Attribute) \
                and s.value.func.attr in ("add", "append") and unparse(s.value.func.value) == coll and s.value.args:
            out.append((n, s.value.args[0]))
        elif isinstance(s, ast.Assign) and len(s.targets) == 1:
            t = s.targets[0]
            if isinstance(t, ast.Subscript) and unparse(t.value) == coll:
                out.append((n, t.slice))
            elif unparse(t) == coll and isinstance(s.value, (ast.Tuple, ast.List, ast.Set)):
                elts = s.value.elts
                if any(isinstance(e, ast.Starred) and unparse(e.value) == coll for e in elts):
                    for e in elts:
                        if not isinstance(e, ast.Starred):
                            out.append((n, e))
            elif unparse(t) == coll and isinstance(s.value, ast.BinOp) and isinstance(s.value.op, ast.BitOr) and unparse(s.value.left) == coll \
                    and isinstance(s.value.right, ast.Set):
                for e in s.value.right.elts:
                    out.append((n, e))
    return out


def _last_attr(e: ast.expr) -> str:
    return e.attr if isinstance(e, ast.Attribute) else unparse(e)


def run(prog: Program, ctx: Ctx) -> None:  # noqa: PLR0912,PLR0915
    _PROG[0] = prog
    cg = CallGraph(prog)

    # ------------------------------------------------------------------ R1
    ctx.rule("R1", "every call-graph cycle that walks the import/alias/inheritance graph is cut by a visited-set guard "
                   "(negative membership test + insertion, same key, same collection passed on) or a re-entrancy flag")
    fns = [f for f in prog.functions.values() if f.module.name in SCOPE_MODULES]
    adj: dict[str, set[str]] = {}
    edges: dict[tuple[str, str], list[Edge]] = {}
    for f in fns:
        for e in cg.edges_from(f):
            if not isinstance(e.callee, FunctionInfo) or e.callee.module.name not in SCOPE_MODULES:
                continue
            precise = e.kind in ("call", "table") or (
                e.kind == "cha" and len({m.cls.qualname for m in prog.methods_named(e.callee.name) if m.cls}) == 1)
            if precise:
                adj.setdefault(f.qualname, set()).add(e.callee.qualname)
                edges.setdefault((f.qualname, e.callee.qualname), []).append(e)
    comps = [c for c in _sccs([f.qualname for f in fns], adj) if len(c) > 1 or c[0] in adj.get(c[0], ())]
    ctx.analysed["R1_cycles"] = len(comps)
    seen_graph: set[str] = set()
    for comp in comps:
        cset = set(comp)
        graph_subjects = cset & GRAPH_RECURSIONS
        if not graph_subjects:
            if cset & set(STRUCTURAL_RECURSIONS):
                continue
            # an untabled recursion that follows alias links (reads .final_target / .target) walks the alias graph too: judged like the tabled ones
            if not any(isinstance(n, ast.Attribute) and n.attr in ("final_target", "target", "resolved_bases") and isinstance(n.ctx, ast.Load)
                       for q in cset for n in ast.walk(prog.functions[q].node)):
                ctx.note(f"R1: untabled call-graph cycle (not judged): {sorted(cset)}")
                continue
        seen_graph |= graph_subjects
        # classify each intra-cycle edge as guarded or not; the cycle must be acyclic once guarded edges are removed
        remaining: dict[str, set[str]] = {}
        details = []
        for (a, b), es in edges.items():
            if a not in cset or b not in cset:
                continue
            for e in es:
                ok, why = _edge_guarded(prog, cg, e, cset, edges)
                details.append(f"{a.split('.')[-1]} -> {b.split('.')[-1]} @L{e.site.lineno}: {why}")
                ctx.ob("R1", f"{a}->{b}|{norm(e.site, 80)}", True, why, where(e.caller, e.site), nontrivial=ok) if ok else None
                if not ok:
                    remaining.setdefault(a, set()).add(b)
        left = [c for c in _sccs(sorted(cset), remaining) if len(c) > 1 or c[0] in remaining.get(c[0], ())]
        for c in left:
            sites = [e for (a, b), es in edges.items() if a in c and b in c for e in es if not _edge_guarded(prog, cg, e, cset, edges)[0]]
            for e in sites:
                ctx.ob("R1", f"{e.caller.qualname}->{e.callee_name}|{norm(e.site, 80)}", False,
                       f"recursive call is not cut by a visited-set guard or re-entrancy flag: {_edge_guarded(prog, cg, e, cset, edges)[1]}",
                       where(e.caller, e.site), {"cycle": sorted(c), "edges": details})
    missing = GRAPH_RECURSIONS - seen_graph
    # a private function of the table that was renamed is found again through what it reads (alias links, resolved bases: judged above like the
    # tabled ones); only a public entry of the table that no longer recurses is a lost anchor
    for q in sorted(m for m in missing if m.rsplit(".", 1)[-1].startswith("_")):
        ctx.note(f"R1: tabled recursion {q} is not in the tree under that name (private: renamed or restructured); cycles are judged by what they read")
    missing = {m for m in missing if not m.rsplit(".", 1)[-1].startswith("_")}
    if missing:
        raise AnalysisError(f"C06-R1: tabled graph recursion(s) no longer form a cycle or vanished: {sorted(missing)}")
    # recursion through property reads: `obj.p` where p is a property cannot carry a visited set.  A cycle of properties that passes through an Alias
    # proxy (Alias.p -> self.final_target.p -> Object.p -> member.p -> Alias.p ...) never ends on a cyclic alias graph.
    PROPERTY_CYCLES_TABLED = {
        "_griffe.models.Alias.parameters": "Class.parameters reads its own `__init__` member: for that to be an alias leading back to the class, a class body would "
                                           "have to import the class being defined (impossible at run time)",
    }
    padj: dict[str, set[str]] = {}
    for f in fns:
        for e in cg.edges_from(f):
            if isinstance(e.callee, FunctionInfo) and e.callee.module.name in SCOPE_MODULES and (e.kind in ("prop", "call") or (
                    e.kind == "cha" and len({m.cls.qualname for m in prog.methods_named(e.callee.name) if m.cls}) == 1)):
                padj.setdefault(f.qualname, set()).add(e.callee.qualname)
    alias_cls = prog.cls("_griffe.models.Alias")
    n_pc = 0
    for comp in _sccs([f.qualname for f in fns], padj):
        cset = set(comp)
        if len(comp) < 2 or cset & GRAPH_RECURSIONS or cset & set(STRUCTURAL_RECURSIONS):
            continue
        proxies = [q for q in comp if prog.functions[q].cls is alias_cls and prog.functions[q].is_property and any(
            isinstance(n, ast.Attribute) and n.attr in ("final_target", "target") and dotted(n.value) == "self" for n in ast.walk(prog.functions[q].node))]
        others = [q for q in comp if prog.functions[q].cls is not alias_cls]
        if not proxies or not others:
            continue
        n_pc += 1
        tabled = next((PROPERTY_CYCLES_TABLED[q] for q in proxies if q in PROPERTY_CYCLES_TABLED), None)
        pf = prog.functions[proxies[0]]
        ctx.ob("R1", f"property-cycle|{'|'.join(sorted(comp))}", tabled is not None,
               f"tabled: {tabled}" if tabled else
               f"the properties {sorted(q.split('.', 2)[-1] for q in comp)} call each other through the alias proxy {proxies[0].split('.', 2)[-1]} (which follows the "
               "alias to its final target) and through member reads, with no way to remember what was visited: on an alias leading back to an object "
               "being examined (a module re-exporting its own package) the recursion never ends", where(pf))
    ctx.analysed["R1_property_cycles_through_alias_proxies"] = n_pc
    # final_target loop (paths_seen)
    ft = prog.function("_griffe.models.Alias.final_target")
    cfgf = cfg_of(ft)
    loops = [n for n in cfgf.live_nodes() if n.kind == "test" and isinstance(n.stmt, ast.While)]
    ok = False
    for lp in loops:
        body_nodes = cfgf.reach([b for b, lab in cfgf.succ[lp] if lab == "T"], avoid=lambda x, lp=lp: x is lp)
        for coll in {unparse(c) for _a, c in _neg_memberships([(a, t) for n in body_nodes if n.kind == "test" and n.expr is not None for br in (True, False) for a, t in implied(n.expr, br)])}:
            adds = [(n, e) for n, e in _adds(ft, coll) if n in body_nodes]
            tests = [n for n in body_nodes if n.kind == "test" and n.expr is not None and any(
                isinstance(a, ast.Compare) and unparse(a.comparators[0]) == coll for a, _t in implied(n.expr, True))]
            raising = any(isinstance(b.stmt, ast.Raise) for t in tests for b, lab in cfgf.succ[t] if lab == "T")
            if adds and tests and raising and all(unparse(e) == unparse(implied(t.expr, True)[0][0].left) for _n, e in adds for t in tests):
                ok = True
    ctx.ob("R1", key(ft, "chain-walk-loop"), ok, "the alias-chain walk records each visited path and raises CyclicAliasError on a repeat", where(ft))

    # ------------------------------------------------------------------ R2 flag pairing
    ctx.rule("R2", "the re-entrancy flag is tested before it is set, and reset in a finally on every exit")
    rt = prog.function("_griffe.models.Alias.resolve_target")
    cfgr = cfg_of(rt)
    sets = [n for n in cfgr.live_nodes() if n.kind == "stmt" and isinstance(n.stmt, ast.Assign) and isinstance(n.stmt.targets[0], ast.Attribute)
            and isinstance(n.stmt.value, ast.Constant) and n.stmt.value.value is True and dotted(n.stmt.targets[0].value) == "self"]
    if not sets:
        ctx.note("R2: Alias.resolve_target sets no re-entrancy flag itself: the pairing rule has nothing to look at; cycles are decided by R1 (guards) and R7 / R8 (behaviour)")
    for s in sets:
        flag = unparse(s.stmt.targets[0])

        def is_reset(x, flag=flag):
            return x.kind == "stmt" and isinstance(x.stmt, ast.Assign) and unparse(x.stmt.targets[0]) == flag \
                and isinstance(x.stmt.value, ast.Constant) and x.stmt.value.value is False

        starts = [b for b, lab in cfgr.succ[s] if lab != "exc"]
        leak = cfgr.reach(starts, avoid=is_reset) & {cfgr.exit, cfgr.raise_exit}
        wit = cfgr.witness_path(s, leak, avoid=is_reset) if leak else None
        ctx.ob("R2", key(rt, f"reset-on-every-exit:{flag}"), not leak,
               f"`{flag}` is reset to False on every exit (normal and exceptional) after being set" if not leak else
               f"an exit leaves `{flag}` set: every later resolution of this alias would report a false cycle", where(rt, s.stmt), {"path": path_text(wit)})
        tested = cfgr.dominated_by_fact(s, lambda a, t, flag=flag: unparse(a) == flag and t is False)
        ctx.ob("R2", key(rt, f"tested-before-set:{flag}"), tested, f"`{flag}` is tested (raise when already set) before it is set", where(rt, s.stmt))

    # ------------------------------------------------------------------ R3 all-or-nothing
    # (retired: "_resolve_target stores the target only after the nested resolution of the looked-up alias returned" was read off the statements of
    # _resolve_target - the store, the nested call, the paths between them.  Moving the nested step into a helper, behaviour unchanged, left the rule
    # without its subject.  What it stood for - a call that returns leaves the whole chain resolved, a call that raises leaves the alias
    # unresolved - is decided on behaviour for every alias graph and every resolution order by R7 ("sound", "all-or-nothing").)

    # ------------------------------------------------------------------ R4 error discipline
    ctx.rule("R4", "alias dereference raises only AliasResolutionError / CyclicAliasError (KeyError converted); Alias.kind / has_docstring(s) "
                   "swallow both; in loader, merger and set_member every dereference of a possibly-alias member is non-raising, dominated "
                   "by `not x.is_alias`, tabled with a reason, or inside a handler for both error types; dotted collection lookups too")
    alias = prog.cls("_griffe.models.Alias")
    core = []
    for name in ("target", "final_target", "resolve_target"):
        core += [f for f in alias.methods.get(name, []) if not f.is_setter]
    # ... and the private methods of Alias that resolve_target reaches (today `_resolve_target`; inlined or renamed, the rule follows)
    work = [f for f in alias.methods.get("resolve_target", [])]
    while work:
        cur_f = work.pop()
        for e_ in cg.edges_from(cur_f):
            tgt_f = e_.callee
            if isinstance(tgt_f, FunctionInfo) and tgt_f.cls is alias and tgt_f.name.startswith("_") and not tgt_f.name.startswith("__") \
                    and not tgt_f.is_property and tgt_f not in core and isinstance(e_.site, ast.Call) and dotted(e_.site.func) == f"self.{tgt_f.name}":
                core.append(tgt_f)
                work.append(tgt_f)
    for f in core:
        for r in walk_no_nested(f.node):
            if isinstance(r, ast.Raise) and r.exc is not None:
                nm = (dotted(r.exc.func) if isinstance(r.exc, ast.Call) else dotted(r.exc)) or unparse(r.exc)
                ctx.ob("R4", key(f, f"raise:{nm}"), nm.split(".")[-1] in AE, f"{f.name} raises {nm}", where(f, r))
    # KeyError conversion of the collection lookup (wherever among these functions it sits)
    n_conv = 0
    for rs in [f for f in core if f.name not in ("target", "final_target")]:
        for c in calls_in(rs.node):
            if isinstance(c.func, ast.Attribute) and c.func.attr in ("get_member", "__getitem__") and "modules_collection" in unparse(c.func.value):
                n_conv += 1
                got = enclosing_catch(c)
                conv = bool(got & {"KeyError", "LookupError", "Exception"})
                ctx.ob("R4", "Alias.resolve_target|KeyError-converted", conv, "a missing target (KeyError from the collection) becomes AliasResolutionError", where(rs, c))
        for s in ast.walk(rs.node):
            if isinstance(s, ast.Subscript) and isinstance(s.ctx, ast.Load) and "modules_collection" in unparse(s.value):
                n_conv += 1
                ctx.ob("R4", "Alias.resolve_target|KeyError-converted", bool(enclosing_catch(s) & {"KeyError", "LookupError", "Exception"}),
                       "a missing target (KeyError from the collection) becomes AliasResolutionError", where(rs, s))
    ctx.expect_min("R4", n_conv, 1)
    # swallowing proxies
    for name in ("kind", "has_docstring", "has_docstrings"):
        for f in alias.methods.get(name, []):
            sites = [n for n in walk_no_nested(f.node) if isinstance(n, ast.Attribute) and n.attr in ("final_target", "target") and dotted(n.value) == "self"]
            ctx.expect_min("R4", len(sites), 1)
            for n in sites:
                got = enclosing_catch(n)
                ctx.ob("R4", key(f, "swallows-both"), AE <= got or bool(got & CATCH_ALL), f"Alias.{name} never raises on an unresolvable or cyclic alias", where(f, n))
    # dereference sites
    ad = AliasDeref(prog, cg)
    ef = ad.ef
    ctx.analysed["R4_raising_alias_attributes"] = len(ad.raising)
    ctx.analysed["R4_safe_alias_attributes"] = sorted(ad.safe)
    # keys use canonical names (sa.util.canon_names: parameters p0.., other bound names v0.. by first binding), so renaming variables changes nothing
    TABLED = {
        ("_griffe.loader.GriffeLoader.resolve_module_aliases", "v2.final_target"):
            "in the `else:` of the try whose body is member.resolve_target(): the whole chain was just resolved",
        # (the members read by the private wildcard collector is discharged through its call site: inside the handler for both alias errors)
        ("_griffe.merger._merge_function_stubs", "v0.annotation"): "loop variable over Parameters: a Parameter, never an alias",
        ("_griffe.mixins.SetMembersMixin.set_member", "self.members[v0[0]].set_member"):
            "dotted key through an alias raises to the API caller by design; loader call sites pass single names or are guarded",
        ("_griffe.loader.GriffeLoader.expand_exports", "v1.canonical_path"): "ExprName.canonical_path (isinstance-narrowed), not an alias proxy",
        ("_griffe.extensions.dataclasses._expr_args", "v1.value"): "element of ExprCall.arguments (an expression or a string), never a member of the tree",
    }
    # (the dataclasses extension is always loaded and runs inside load(): an alias error escaping it aborts loading)
    scope = [f for f in prog.functions.values() if f.module.name in ("_griffe.loader", "_griffe.merger", "_griffe.extensions.dataclasses")
             or f.qualname.startswith("_griffe.mixins.SetMembersMixin.set_member")]
    # `obj` of the public resolve_module_aliases is the traversal root: its callers pass collection modules or members dominated by
    # `not member.is_alias` (checked below: "root-not-alias")
    ROOTS = {("_griffe.loader.GriffeLoader.resolve_module_aliases", "obj"): "traversal root: every call site in the loader passes a non-alias (checked by root-not-alias)"}
    sites = ad.scan(scope, TABLED, assume=ROOTS)
    n_sites = len(sites)
    for st in sites:
        ctx.ob("R4", key(st.fn, f"deref:{canon_text(st.fn, st.node)}"), st.status != "OPEN",
               (f"{st.status}: {st.reason}" if st.status != "OPEN" else st.reason + ": the error would abort loading"), where(st.fn, st.node))
    ctx.expect_min("R4", n_sites, 15)
    ctx.analysed["R4_dereference_sites"] = n_sites
    # support for the tabled reasons: callers of resolve_module_aliases / _expand_wildcard
    loader = prog.cls("_griffe.loader.GriffeLoader")
    for f in scope:
        for c in calls_in(f.node):
            tq = {x.qualname for x, _k in cg.callees_of_call(f, c) if isinstance(x, FunctionInfo)}
            if "_griffe.loader.GriffeLoader.resolve_module_aliases" in tq and c.args:
                a0 = unparse(c.args[0])
                facts = ef._alias_facts(f, c)
                from_coll = isinstance(c.args[0], ast.Name) and any(
                    isinstance(s, ast.Assign) and "collection" in unparse(s.value) for s in stores_of(f.node, c.args[0].id))
                ctx.ob("R4", key(f, f"root-not-alias:{a0}"), (a0, False) in facts or from_coll,
                       "resolve_module_aliases is entered with a non-alias root", where(f, c))
    # dotted collection lookups inside the loader
    n_lookups = 0
    for f in scope:
        for c in calls_in(f.node):
            if isinstance(c.func, ast.Attribute) and c.func.attr == "get_member" and "modules_collection" in unparse(c.func.value) and c.args:
                n_lookups += 1
                arg = unparse(c.args[0])
                got = enclosing_catch(c)
                def guarded_lookup(got_: set) -> bool:
                    return bool(("KeyError" in got_ or got_ & {"LookupError", "Exception"}) and (AE <= got_ or got_ & CATCH_ALL))

                full = guarded_lookup(got)
                if not full:
                    # a lookup in a private helper every call site of which sits inside such a handler (the helper is not a generator: its work
                    # happens inside the handler)
                    from sa.util import private_call_sites

                    def site_ok(g_: FunctionInfo, c2: ast.Call) -> bool:
                        got2 = enclosing_catch(c2)
                        if guarded_lookup(got2):
                            return True
                        if not (AE <= got2 or got2 & CATCH_ALL):
                            return False
                        # alias errors are handled at the call; a missing key cannot happen when the caller has just looked the module up itself
                        # under a KeyError handler (an earlier collection lookup in the same function, guarded for KeyError)
                        def guarded_kl(fn_: FunctionInfo, c3: ast.Call) -> bool:
                            return bool(isinstance(c3.func, ast.Attribute) and c3.func.attr == "get_member" and "modules_collection" in unparse(c3.func.value)
                                        and enclosing_catch(c3) & {"KeyError", "LookupError", "Exception"})

                        for c3 in calls_in(g_.node):
                            if c3.lineno >= c2.lineno:
                                continue
                            if guarded_kl(g_, c3):
                                return True
                            # ... or did so in a private method it called before (the lookup moved into a helper of its own)
                            if isinstance(c3.func, ast.Attribute) and unparse(c3.func.value) == "self" and c3.func.attr.startswith("_") and g_.cls is not None:
                                for h_ in prog.lookup_method(g_.cls, c3.func.attr):
                                    if any(guarded_kl(h_, c4) for c4 in calls_in(h_.node)):
                                        return True
                        return False

                    callers = private_call_sites(prog, f)
                    full = bool(callers) and not f.is_generator and all(site_ok(g_, c2) for g_, c2 in callers)
                tabled = {
                    ("_griffe.loader.GriffeLoader._post_load", "obj_path"): "the user's own objspec: errors are reported to the caller of load()",
                }.get((f.qualname, arg))
                ctx.ob("R4", key(f, f"lookup:{arg}"), bool(full) or tabled is not None,
                       (f"tabled: {tabled}" if tabled and not full else "dotted lookup guarded for KeyError and both alias errors") if (full or tabled) else
                       f"`{norm(c)}` can pass through an unresolvable alias; only {sorted(got) or 'nothing'} is caught, so load() itself raises", where(f, c))
    ctx.expect_min("R4", n_lookups, 4)

    # setter stores: assigning to a property whose setter raises an alias error is a raising site as well
    n_setter_sites = 0
    for sname, setters in alias.methods.items():
        for sf in [f for f in setters if f.is_setter]:
            raised = set()
            for r in walk_no_nested(sf.node):
                if isinstance(r, ast.Raise) and r.exc is not None:
                    nm = (dotted(r.exc.func) if isinstance(r.exc, ast.Call) else dotted(r.exc)) or unparse(r.exc)
                    raised.add(nm.split(".")[-1])
            raised &= AE
            if not raised:
                continue
            for f in prog.functions.values():
                if f.cls is alias or not f.module.name.startswith("_griffe."):
                    continue
                for st in walk_no_nested(f.node):
                    targets = st.targets if isinstance(st, ast.Assign) else [st.target] if isinstance(st, (ast.AugAssign, ast.AnnAssign)) else []
                    for t in targets:
                        if isinstance(t, ast.Attribute) and t.attr == sname and dotted(t.value) != "self":
                            n_setter_sites += 1
                            got = enclosing_catch(st)
                            ok = raised <= got or bool(got & CATCH_ALL)
                            ctx.ob("R4", key(f, f"setter-store:{norm(t, 40)}"), ok,
                                   f"`{norm(st, 60)}` runs Alias.{sname}'s setter, which raises {sorted(raised)}: " +
                                   ("handled at the store" if ok else f"only {sorted(got) or 'nothing'} is handled here, the error escapes {f.name}"), where(f, st))
    ctx.expect_min("R4", n_setter_sites, 1)

    # ------------------------------------------------------------------ R5 fixpoint loop frame
    ctx.rule("R5", "the fixpoint loop of resolve_aliases, on behaviour: with imports from a package outside the collection and load() replaced by a "
                   "recording stand-in, the loop stops as soon as a pass leaves the unresolved set unchanged, honours max_iterations, starts every pass from "
                   "scratch (a name resolved in a later pass is no longer reported), asks for a package that failed to load only once, and loads "
                   "other packages only as `external` says")
    from sa.tables.aliasgraphs import external_rows

    ra = prog.function("_griffe.loader.GriffeLoader.resolve_aliases")
    rma = prog.function("_griffe.loader.GriffeLoader.resolve_module_aliases")
    n_ext = 0
    for row, good, text in external_rows(prog):
        n_ext += 1
        ctx.ob("R5", row, good, text, where(ra))
    ctx.expect_min("R5", n_ext, 8)

    # ------------------------------------------------------------------ R7 every small alias graph, every resolution order
    ctx.rule("R7", "on every alias graph over three names (four in the thorough tier) - real objects, imports of each other, of themselves or of "
                   "something missing, aliases created already linked as wildcard expansion does - and every order of resolve_target() calls: "
                   "only the two alias errors are raised, a call that returns leaves the whole chain resolved, a call that raises leaves the alias "
                   "unresolved, a chain that reaches an object resolves, and resolving again changes nothing")
    _graph_table(prog, ctx)

    # ------------------------------------------------------------------ R8 every small package through the loader's post-load pipeline
    ctx.rule("R8", "for every package of two modules (three in the thorough tier) in which each module defines, imports (from a sibling or from "
                   "something not loaded) or lacks a name and may star-import a sibling or itself: expand_exports, expand_wildcards and "
                   "resolve_aliases (implicit or exported-only) return without raising and within budget, a second resolve_aliases changes "
                   "nothing, no wildcard placeholder survives, every alias afterwards gives a real object or one of the two alias errors, and "
                   "no imported alias is left resolved with an unresolvable chain")
    _package_table(prog, ctx)


def _pkg_chunk(arg: tuple) -> tuple[int, list[tuple[str, str]]]:
    from sa.tables.aliasgraphs import PackageTable, fmt_pkg

    overlay, work = arg
    t = PackageTable(Program(overlay=overlay or None))
    found: list[tuple[str, str]] = []
    for mods, g, implicit in work:
        r = t.run(mods, g, implicit)
        if r:
            found.append((r, f"{fmt_pkg(mods, g)}; resolve_aliases(implicit={implicit})"))
    return len(work), found


def _package_table(prog: Program, ctx: Ctx) -> None:
    import os
    import re
    from concurrent.futures import ProcessPoolExecutor

    from sa.tables.aliasgraphs import packages

    thorough = ctx.tier == "thorough"
    work = [("ab", g, imp) for g in packages("ab") for imp in (True, False)]
    if thorough:
        work += [("abc", g, imp) for g in packages("abc") for imp in (True, False)]
    else:
        # a slice of the three-module packages: a defines x and then star-imports, b is anything, c has no star import
        work += [("abc", g, True) for g in packages("abc") if g[0][0] == "attr" and g[0][1] is not None and g[2][1] is None]
    jobs = min(16 if thorough else 8, os.cpu_count() or 4)
    with ProcessPoolExecutor(max_workers=jobs) as ex:
        results = list(ex.map(_pkg_chunk, [(dict(prog.overlay), work[i::jobs]) for i in range(jobs)]))
    n = sum(r[0] for r in results)
    ra = prog.function("_griffe.loader.GriffeLoader.resolve_aliases")
    reported: set[str] = set()
    for _n, found in results:
        for problem, pkg in sorted(found, key=lambda x: (len(x[1]), x[1])):
            cls_key = re.sub(r"pkg\.[abc]\.\S+", "<alias>", problem)[:120]
            if cls_key in reported:
                continue
            reported.add(cls_key)
            ctx.ob("R8", f"package|{cls_key}", False, f"{problem} [{pkg}]", where(ra))
    ctx.ob("R8", f"packages|{n} packages", True, f"{n} packages went through expand_exports, expand_wildcards and two rounds of resolve_aliases: all obligations hold", "", nontrivial=True)
    if not reported:
        ctx.expect_min("R8", n, 280)
    ctx.analysed["alias_packages"] = n


def _graph_chunk(arg: tuple) -> tuple[int, list[tuple[str, str]]]:
    from sa.tables.aliasgraphs import Table, fmt

    overlay, work = arg
    t = Table(Program(overlay=overlay or None))
    found: list[tuple[str, str]] = []
    for g, order in work:
        r = t.run(g, order)
        if r:
            found.append((r, f"{fmt(g)}; resolved in the order {', '.join(f'x{i}' for i in order)}"))
    return len(work), found


def _graph_table(prog: Program, ctx: Ctx) -> None:
    import itertools
    import os
    import re
    from concurrent.futures import ProcessPoolExecutor

    from sa.tables.aliasgraphs import graphs

    thorough = ctx.tier == "thorough"
    work = [(g, o) for g in graphs(3) for o in (itertools.permutations(range(3)) if thorough else
                                                ((0, 1, 2),) if any(d[0] == "through" for d in g) else ((0, 1, 2), (2, 1, 0)))]
    if thorough:
        work += [(g, o) for g in graphs(4) for o in ((0, 1, 2, 3), (3, 2, 1, 0))]
    jobs = min(16 if thorough else 8, os.cpu_count() or 4)
    with ProcessPoolExecutor(max_workers=jobs) as ex:
        results = list(ex.map(_graph_chunk, [(dict(prog.overlay), work[i::jobs]) for i in range(jobs)]))
    n = sum(r[0] for r in results)
    rt = prog.function("_griffe.models.Alias.resolve_target")
    reported: set[str] = set()
    for _n, found in results:
        for problem, graph in sorted(found, key=lambda x: (len(x[1]), x[1])):
            cls_key = re.sub(r"x\d", "x", problem)[:120]
            if cls_key in reported:
                continue
            reported.add(cls_key)
            ctx.ob("R7", f"graph|{cls_key}", False, f"{problem} [{graph}]", where(rt))
    ctx.ob("R7", f"graphs|{n} histories", True, f"{n} (graph, order) histories evaluated on Alias / ModulesCollection / set_member: all obligations hold", "", nontrivial=True)
    if not reported:
        ctx.expect_min("R7", n, 600)
    ctx.analysed["alias_graph_histories"] = n


def _edge_guarded(prog: Program, cg: CallGraph, e: Edge, cset: set[str], edges) -> tuple[bool, str]:  # noqa: PLR0911,PLR0912
    """Is the recursive call edge cut by a guard?  (site guard, callee entry guard, flag, or the tabled _mro idiom)"""
    f, g = e.caller, e.callee
    assert isinstance(g, FunctionInfo)
    idx = node_index(f)
    cnodes = idx.get(id(e.site), [])
    if not cnodes:
        return False, "call site not found in CFG"
    if not isinstance(e.site, ast.Call):
        return False, "not a call"
    binding = _bind(e.site, g)

    # (b) re-entrancy flag in the caller
    for cn in cnodes:
        facts = _expanded_facts(f, cn)
        for atom, truth in facts:
            if truth is False and isinstance(atom, ast.Attribute) and dotted(atom.value) == "self":
                flag = unparse(atom)
                cfg = cfg_of(f)
                sets = [n for n in cfg.live_nodes() if n.kind == "stmt" and isinstance(n.stmt, ast.Assign) and unparse(n.stmt.targets[0]) == flag
                        and isinstance(n.stmt.value, ast.Constant) and n.stmt.value.value is True]
                if sets and all(cfg.dominated_by_node(cn, lambda x, sets=sets: x in sets) for _ in [0]):
                    return True, f"re-entrancy flag `{flag}` tested false and set before the call"
    # (a1) site guard in the caller
    from sa.rules.C12 import _short_circuit_facts  # facts from earlier operands of the same `and` / `or` / conditional expression

    for cn in cnodes:
        facts = _expanded_facts(f, cn) + _short_circuit_facts(e.site)
        for elem, coll in _neg_memberships(facts):
            ctext = unparse(coll)
            if ctext == "self.modules_collection":
                # marking: the load that follows inserts the package into the collection
                ins = any(isinstance(c.func, ast.Attribute) and c.func.attr == "set_member" and "modules_collection" in unparse(c.func.value)
                          for m in prog.cls("_griffe.loader.GriffeLoader").methods.values() for fn2 in m for c in calls_in(fn2.node))
                if ins:
                    return True, f"guarded by `{unparse(elem)} not in {ctext}`; loading inserts the package into the collection"
            # which callee parameter receives this collection?
            recv_param = next((p for p, a in binding.items() if unparse(a) == ctext), None)
            if recv_param is None:
                continue
            if isinstance(binding[recv_param], ast.Call):
                continue
            g_adds = _adds(g, recv_param)
            gcfg = cfg_of(g)
            g_sites = [n for (a, b), es in edges.items() if a == g.qualname and b in cset for ed in es for n in node_index(g).get(id(ed.site), [])]
            dominating = [(n, el) for n, el in g_adds if all(gcfg.dominated_by_node(s, lambda x, n=n: x is n) for s in g_sites)]
            # also accept an insertion in the caller dominating the site (caller marks itself before descending)
            f_adds = [(n, el) for n, el in _adds(f, ctext) if cfg_of(f).dominated_by_node(cn, lambda x, n=n: x is n)]
            for _n, el in dominating:
                # the element added by the callee, expressed over its parameter, must be what the caller tested for the argument
                if _last_attr(el) != _last_attr(elem):
                    continue
                p_root = dotted(el.value) if isinstance(el, ast.Attribute) else None
                if p_root in binding and isinstance(elem, ast.Attribute) and unparse(binding[p_root]) == unparse(elem.value):
                    return True, f"guarded by `{unparse(elem)} not in {ctext}`; callee inserts `{unparse(el)}` into `{recv_param}` on entry"
                if p_root == "self" and isinstance(elem, ast.Attribute) and isinstance(e.site.func, ast.Attribute) and unparse(e.site.func.value) == unparse(elem.value):
                    return True, f"guarded by `{unparse(elem)} not in {ctext}`; callee inserts `{unparse(el)}` on entry"
            for _n, el in f_adds:
                if unparse(el) == unparse(elem):
                    return True, f"guarded by `{unparse(elem)} not in {ctext}` and inserted before the call"
    # (a2) callee entry guard: every intra-cycle call of g is dominated by (param-key not in V) and V.add(param-key); the caller passes its own V on
    gcfg = cfg_of(g)
    g_sites = [n for (a, b), es in edges.items() if a == g.qualname and b in cset for ed in es for n in node_index(g).get(id(ed.site), [])]
    if g_sites:
        common: set[tuple[str, str]] | None = None
        for s in g_sites:
            pairs = {(unparse(el), unparse(co)) for el, co in _neg_memberships(_expanded_facts(g, s))}
            common = pairs if common is None else common & pairs
        for el_text, co_text in sorted(common or ()):
            adds = [(n, el) for n, el in _adds(g, co_text) if unparse(el) == el_text and all(gcfg.dominated_by_node(s, lambda x, n=n: x is n) for s in g_sites)]
            if not adds:
                continue
            arg = binding.get(co_text)
            if arg is not None and isinstance(arg, (ast.Call, ast.Set, ast.List, ast.Tuple, ast.Dict)) and f.qualname in cset and f is not g:
                continue  # a fresh collection on every call defeats the guard
            if f is g and (arg is None or isinstance(arg, ast.Call)):
                continue
            return True, f"callee tests `{el_text} in {co_text}` and inserts it before any recursive call; the same collection is passed on"
    # (c) Class._mro idiom: seen = (*seen, self.path); loop raising on `base.path in seen` over the collection the recursion iterates
    mro_fns = prog.lookup_method(prog.cls("_griffe.models.Class"), "mro")
    from_mro = bool(mro_fns) and any(isinstance(ed.callee, FunctionInfo) and ed.callee is f for ed in cg.edges_from(mro_fns[0]))
    if f is g and f.cls is not None and f.cls.qualname == "_griffe.models.Class" and (f.qualname.endswith("Class._mro") or from_mro):
        ok, why = _mro_idiom(f, e)
        if ok:
            return True, why
        return False, why
    return False, "no visited-set test / insertion pair and no re-entrancy flag dominates this call"


def _mro_idiom(f: FunctionInfo, e: Edge) -> tuple[bool, str]:
    """The recursion of Class._mro over the bases, decided on behaviour: mro() evaluated on every inheritance cycle over up to three classes (a class
    that is its own base, two and three classes in a ring, a ring below a chain, a ring among several bases) raises ValueError within the step budget."""
    from sa.absint import DepthLimit, Interp, Obj, Raised, StepLimit

    prog = _PROG[0]
    it = Interp(prog, max_depth=80, max_steps=200_000)
    ccls = prog.cls("_griffe.models.Class")
    mro_fn = prog.lookup_method(ccls, "mro")[0]
    shapes = {
        "a class that is its own base": {"A": ["A"]},
        "two classes in a ring": {"A": ["B"], "B": ["A"]},
        "three classes in a ring": {"A": ["B"], "B": ["C"], "C": ["A"]},
        "a ring below the class": {"A": ["B"], "B": ["C"], "C": ["B"]},
        "a ring among several bases": {"A": ["D", "B"], "B": ["A"], "D": []},
    }
    for label, g in shapes.items():
        objs = {n: Obj(ccls, {"name": n, "path": f"m.{n}", "is_class": True, "is_alias": False, "members": {}, "parent": None}, label=n) for n in g}
        for n, bases in g.items():
            objs[n].attrs["resolved_bases"] = [objs[b] for b in bases]
        it.steps = 0
        try:
            got = it.call(mro_fn, objs["A"])
            return False, f"{label}: mro() returns {[c.attrs['name'] for c in got]} instead of raising ValueError"
        except Raised as r:
            if r.exc != "ValueError":
                return False, f"{label}: mro() raises {r.exc}"
        except (StepLimit, DepthLimit, RecursionError):
            return False, f"{label}: mro() recurses without end (no base already being linearised is refused)"
    return True, f"mro() raises ValueError on every inheritance cycle tried ({len(shapes)} shapes over up to three classes): the recursion over the bases is cut"


_PROG: list = [None]


