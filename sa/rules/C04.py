"""C04 - Names in expressions resolve to the object Python scoping binds them to (structural part).

R1 resolution never raises (explicit raises + handler), R2 name-to-path table of ExprName, R3 scope-walk table of Object/Function.resolve against
Python's scoping rule, R4 relative-import arithmetic against importlib, R5 attribute chains are linked segment by segment.
"""

from __future__ import annotations

import ast
import importlib.util
import itertools

from sa.absint import DepthLimit, Interp, Native, Obj, Raised
from sa.aliasderef import enclosing_catch
from sa.report import Ctx
from sa.srcmodel import AnalysisError, Program, dotted, norm, unparse, walk_no_nested
from sa.util import calls_in, key, where

M = "_griffe.models"


def run(prog: Program, ctx: Ctx) -> None:  # noqa: PLR0912,PLR0915
    it = Interp(prog)
    ocls, fcls = prog.cls(f"{M}.Object"), prog.cls(f"{M}.Function")

    # ------------------------------------------------------------------ R1
    ctx.rule("R1", "name resolution raises nothing but NameResolutionError, and the expression side turns that into 'leave the name unchanged'")
    for q in (f"{M}.Object.resolve", f"{M}.Function.resolve", f"{M}.Alias.resolve"):
        f = prog.function(q)
        for r in walk_no_nested(f.node):
            if isinstance(r, ast.Raise) and r.exc is not None:
                nm = (dotted(r.exc.func) if isinstance(r.exc, ast.Call) else dotted(r.exc)) or unparse(r.exc)
                ctx.ob("R1", key(f, f"raise:{nm}"), nm.split(".")[-1] == "NameResolutionError", f"{f.qualname.split('.', 2)[-1]} raises {nm}", where(f, r))
        for n in walk_no_nested(f.node):
            if isinstance(n, ast.Subscript) and isinstance(n.ctx, ast.Load) and unparse(n.value) == "self.members":
                from sa.util import cfg_of, node_index

                cfg = cfg_of(f)
                ok = all(cfg.dominated_by_fact(x, lambda a, t, n=n: t and unparse(a) == f"{unparse(n.slice)} in self.members") for x in node_index(f).get(id(n), []))
                ctx.ob("R1", key(f, f"members-lookup:{norm(n)}"), ok, "member lookup dominated by the membership test (no KeyError)", where(f, n))
    en = prog.cls("_griffe.expressions.ExprName")
    cp = prog.lookup_method(en, "canonical_path")[0]
    sites = [c for c in calls_in(cp.node) if isinstance(c.func, ast.Attribute) and c.func.attr == "resolve"]
    ctx.expect_min("R1", len(sites), 1)
    for c in sites:
        ctx.ob("R1", key(cp, "resolve-handled"), "NameResolutionError" in enclosing_catch(c) or bool(enclosing_catch(c) & {"Exception", "GriffeError", "ResolutionError"}),
               "ExprName.canonical_path catches NameResolutionError (unknown names and builtins are returned unchanged)", where(cp, c))

    # ------------------------------------------------------------------ R2 ExprName tables
    ctx.rule("R2", "ExprName.path / canonical_path table: no parent -> the bare name; parent name -> <parent path>.<name>; parent string -> <str>.<name>; "
                   "parent object -> parent.resolve(name), the bare name when that fails")
    resolve_calls: list[str] = []

    def scope(result):
        def res(name):
            resolve_calls.append(name)
            if result is None:
                raise Raised("NameResolutionError")
            return result
        return Obj(ocls, {"resolve": Native(res), "path": "mod", "name": "mod"}, label="scope")

    base = Obj(en, {"name": "a", "parent": scope("pkg.a")}, label="a")
    cases = [
        ("no parent", Obj(en, {"name": "x", "parent": None}), "x", "x"),
        ("parent is a name", Obj(en, {"name": "b", "parent": base}), "a.b", "pkg.a.b"),
        ("parent is a string", Obj(en, {"name": "upper", "parent": "str"}), "upper", "str.upper"),
        ("parent is a scope that binds the name", Obj(en, {"name": "x", "parent": scope("pkg.mod.x")}), "x", "pkg.mod.x"),
        ("parent is a scope that does not bind the name", Obj(en, {"name": "len", "parent": scope(None)}), "len", "len"),
    ]
    for label, obj, want_path, want_canon in cases:
        for attr, want in (("path", want_path), ("canonical_path", want_canon)):
            try:
                got = it.getattr(obj, attr)
            except Raised as r:
                got = f"raises {r.exc}"
            ctx.ob("R2", f"ExprName.{attr}|{label}", got == want, f"ExprName.{attr} with {label}: {got!r}, expected {want!r}", where(prog.lookup_method(en, attr)[0]))

    # ------------------------------------------------------------------ R3 scope walk
    ctx.rule("R3", "Object/Function.resolve scope table against Python's rule: own scope, then enclosing scopes *skipping class bodies that merely "
                   "enclose a class*, then module globals (imports -> their target path); the enclosing object's own name resolves to it; "
                   "__init__ parameters resolve to Parent(name); unknown names raise NameResolutionError")

    def new(cls_name, *a, **k):
        return it._construct(prog.cls(f"{M}.{cls_name}"), list(a), dict(k))

    def setm(o, n, v):
        it.call(prog.lookup_method(o.cls, "set_member")[0], o, n, v)

    def mk(cls_name, name, parent, **extra):
        o = new(cls_name, name, **extra)  # built by the models' own constructors: whatever state they set up is there
        if parent is not None:
            setm(parent, name, o)
        return o

    def leaf(name, parent, *, alias_target=None):
        o = new("Alias", name, alias_target) if alias_target is not None else new("Attribute", name)
        setm(parent, name, o)
        return o

    mod = mk("Module", "mod", None)
    leaf("G", mod)
    leaf("imp", mod, alias_target="ext.thing")
    outer = mk("Class", "Outer", mod)
    leaf("OA", outer)
    # a member Outer merely inherits from a base class: not visible as a bare name in its body
    inh = new("Alias", "INH", "mod.Base.INH")
    inh.attrs["_parent"] = outer
    outer.attrs["inherited_members"] = {"INH": inh}
    inner = mk("Class", "Inner", outer)
    leaf("IA", inner)

    def params():
        return new("Parameters", new("Parameter", "p"))

    meth = mk("Function", "m", outer, parameters=params())
    init = mk("Function", "__init__", outer, parameters=params())
    imeth = mk("Function", "im", inner, parameters=params())
    func = mk("Function", "f", mod, parameters=params())
    mk("Class", "Local", func)  # class defined in a function body sees the function's (module's) names
    scopes = {"module": mod, "class Outer": outer, "class Outer.Inner": inner, "method Outer.m": meth, "method Outer.__init__": init,
              "method Outer.Inner.im": imeth, "function f": func}
    names = ["G", "imp", "OA", "IA", "Outer", "Inner", "p", "zz", "mod", "INH"]

    def A(o, attr):
        return it.getattr(o, attr)

    def python_rule(scope_label: str, name: str) -> str:
        """Reference: what the name is bound to at that point under Python's scoping (+ the two documented Griffe conventions)."""
        s = scopes[scope_label]
        chain = []
        cur = s
        while cur is not None:
            chain.append(cur)
            cur = A(cur, "parent")
        # Griffe convention: inside __init__, a parameter name denotes the instance attribute it initialises
        if A(s, "name") == "__init__" and A(s, "is_function") and name == "p":
            return f"{A(A(s, 'parent'), 'path')}(p)"
        visible = []
        for i, sc in enumerate(chain):
            if i == 0:
                visible.append(sc)
            elif A(sc, "is_module") or A(sc, "is_function"):
                visible.append(sc)
            elif A(sc, "is_class"):
                # a class body is visible from the functions defined directly in it (annotations/defaults are evaluated there), never from a nested class
                below = chain[i - 1]
                if A(below, "is_function") and below is chain[0]:
                    visible.append(sc)
        for sc in visible:
            if name in sc.attrs["members"]:
                m_ = sc.attrs["members"][name]
                return A(m_, "target_path") if A(m_, "is_alias") else A(m_, "path")
        # the enclosing object's own name (bound in *its* enclosing scope): Griffe resolves it directly
        for sc in chain[1:]:
            if not A(sc, "is_module") and A(sc, "name") == name:
                return A(sc, "path")
        return "<NameResolutionError>"

    rows = 0
    for sl, name in itertools.product(scopes, names):
        s = scopes[sl]
        rfn = prog.lookup_method(s.cls, "resolve")[0]
        try:
            got = it.call(rfn, s, name)
        except Raised as r:
            got = f"<{r.exc}>"
        except DepthLimit:
            it.depth = 0
            got = "<unbounded recursion>"
        want = python_rule(sl, name)
        rows += 1
        leak = got != want and want == "<NameResolutionError>" or (got != want and ".Outer." in str(got) and "Inner" in sl)
        ctx.ob("R3", f"resolve|from {sl}|{name}" if not leak else f"class-scope-leak|from {sl}|{name}", got == want,
               f"resolving `{name}` from {sl}: {got}" + ("" if got == want else f", but Python binds {want}"), where(rfn))
    ctx.expect_min("R3", rows, 50)
    # the answer follows the current bindings: a name resolved once and then bound closer (or re-bound) resolves to the new binding
    fm = new("Module", "mod")
    setm(fm, "Thing", new("Alias", "Thing", "ext.Thing"))
    fk = new("Class", "K")
    setm(fm, "K", fk)
    fmeth = new("Function", "meth")
    setm(fk, "meth", fmeth)
    steps = []
    rfn = prog.lookup_method(fk.cls, "resolve")[0]
    try:
        steps.append(("imported at module level", it.call(rfn, fk, "Thing"), it.call(prog.lookup_method(fmeth.cls, "resolve")[0], fmeth, "Thing")))
        setm(fk, "Thing", new("Class", "Thing"))
        steps.append(("then defined in the class body", it.call(rfn, fk, "Thing"), it.call(prog.lookup_method(fmeth.cls, "resolve")[0], fmeth, "Thing")))
        setm(fm, "Thing", new("Class", "Thing"))
        it.call(prog.lookup_method(fk.cls, "del_member")[0], fk, "Thing")
        steps.append(("then removed from the class and defined in the module", it.call(rfn, fk, "Thing"), it.call(prog.lookup_method(fmeth.cls, "resolve")[0], fmeth, "Thing")))
    except Raised as r:
        steps.append((f"raises {r.exc}", None, None))
    want_steps = [("imported at module level", "ext.Thing", "ext.Thing"), ("then defined in the class body", "mod.K.Thing", "mod.K.Thing"),
                  ("then removed from the class and defined in the module", "mod.Thing", "mod.Thing")]
    ctx.ob("R3", "freshness|class body and method after re-binding", steps == want_steps,
           f"`Thing` resolved from class K and from K.meth, {steps}; Python binds {want_steps}", where(rfn))

    # ------------------------------------------------------------------ R4 relative imports
    ctx.rule("R4", "relative_to_absolute equals importlib's resolution for every (module depth, init?, level, with/without module) CPython accepts")
    r2a = prog.function("_griffe.agents.nodes.imports.relative_to_absolute")
    n_rows = 0
    for depth, is_init, level, with_mod in itertools.product((1, 2, 3, 4), (False, True), (0, 1, 2, 3), (False, True)):
        parts = ["pkg", "a", "b", "c"][:depth]
        chain = []
        parent_obj = None
        for i, pname in enumerate(parts):
            last = i == len(parts) - 1
            initm = True if not last else is_init
            from pathlib import PurePosixPath

            fp = PurePosixPath("/s/" + "/".join(parts[: i + 1]) + ("/__init__.py" if initm else ".py"))
            o = Obj(prog.cls(f"{M}.Module"), {"name": pname, "parent": parent_obj, "path": ".".join(parts[: i + 1]), "_filepath": fp}, label=pname)
            chain.append(o)
            parent_obj = o
        current = chain[-1]
        node = Obj(None, {"level": level, "module": "sub" if with_mod else None})
        name = Obj(None, {"name": "thing"})
        package = ".".join(parts) if is_init else ".".join(parts[:-1])
        if level == 0:
            want = ("sub." if with_mod else "") + "thing"
            if not with_mod:
                continue  # `from import x` is not valid syntax
        else:
            try:
                base = importlib.util.resolve_name("." * level + ("sub" if with_mod else ""), package) if package else None
            except ImportError:
                continue  # beyond top-level package: CPython rejects the import
            if base is None:
                continue
            want = f"{base}.thing"
        try:
            got = it.call(r2a, node, name, current)
        except Raised as r:
            got = f"raises {r.exc}"
        n_rows += 1
        ctx.ob("R4", f"relative|depth={depth}|init={is_init}|level={level}|module={with_mod}", got == want,
               f"`from {'.' * level}{'sub' if with_mod else ''} import thing` in {'.'.join(parts)}{' (__init__)' if is_init else ''}: {got}, CPython: {want}", where(r2a))
    ctx.expect_min("R4", n_rows, 30)

    # ------------------------------------------------------------------ R5 attribute chains
    ctx.rule("R5", "names are built with their scope as parent, and each segment of a dotted chain has the previous segment as parent")
    from sa.absint import Native as _Native

    build = prog.function("_griffe.expressions._build")
    it5 = Interp(prog, max_depth=40)

    def _resolve(name_: str) -> str:
        table = {"a": "pkg.mod.a", "f": "pkg.f"}
        if name_ not in table:
            raise Raised("NameResolutionError")
        return table[name_]

    scope = Obj(prog.cls(f"{M}.Module"), {"name": "m", "path": "m", "members": {}, "resolve": _Native(_resolve)}, label="scope m")

    def names_of(e: object, out: list) -> list:
        if isinstance(e, Obj) and e.cls is not None:
            if e.cls.name == "ExprName":
                out.append(e)
            else:
                for k_, v_ in e.attrs.items():
                    if k_ == "parent":
                        continue
                    for x in (v_ if isinstance(v_, (list, tuple)) else [v_]):
                        names_of(x, out)
        return out

    for src, want_parents, want_canon in (
        ("a", ["<scope>"], "pkg.mod.a"),
        ("a.b", ["<scope>", "a"], "pkg.mod.a.b"),
        ("a.b.c", ["<scope>", "a", "b"], "pkg.mod.a.b.c"),
        ("a.b.c.d", ["<scope>", "a", "b", "c"], "pkg.mod.a.b.c.d"),
        ("unknown.x", ["<scope>", "unknown"], "unknown.x"),
        # what follows a call or a subscript is an attribute of its *result*: those segments chain among themselves and never get the callee's path
        ("f(a).b.c", ["<scope>", "<scope>", "None", "b"], "b.c"),
        ("a[0].b", ["<scope>", "None"], "b"),
        ("f(a).b", ["<scope>", "<scope>", "None"], "b"),
    ):
        node = ast.parse(src, mode="eval").body
        try:
            e = it5.call(build, node, scope, parse_strings=False)
            ns = names_of(e, [])
            got_parents = ["<scope>" if n_.attrs.get("parent") is scope else (n_.attrs["parent"].attrs.get("name") if isinstance(n_.attrs.get("parent"), Obj) else repr(n_.attrs.get("parent"))) for n_ in ns]
            got_canon = it5.getattr(e, "canonical_path")
        except Raised as r:
            got_parents, got_canon = [f"raises {r.exc}"], None
        ctx.ob("R5", f"chain|{src}", got_parents == want_parents and got_canon == want_canon,
               f"`{src}` built in scope m: parents of its segments {got_parents} (expected {want_parents}); canonical path {got_canon} (expected {want_canon})", where(build))
    from sa.importrules import import_rules, importfrom_table

    import_rules(prog, ctx, "R6")
    importfrom_table(prog, ctx, "R7")

    # ------------------------------------------------------------------ R8 scope of names inside quoted annotations
    from sa.rules.C03 import string_annotation_scope_rows

    ctx.rule("R8", "the names inside a quoted annotation are resolved in the scope the annotation is written in (the class body for an annotation in a "
                   "class, the very module object being built - not another load of the same path)")
    string_annotation_scope_rows(prog, ctx, "R8")

    # ------------------------------------------------------------------ R9 names brought in by wildcard imports
    from sa.importrules import wildcard_table

    wildcard_table(prog, ctx, "R9")

    # ------------------------------------------------------------------ R10 scope of the expressions of a class statement
    ctx.rule("R10", "the bases and decorators of a class statement are evaluated in the scope that contains the statement (never in the body of the "
                    "class being defined); the decorators of a method in the class body")
    from sa.tables.extraction import Extraction

    ex = Extraction(prog)
    src = ('"""Doc."""\nclass Meta: ...\ndef register(c): return c\nimport fields\n@register\nclass Model(Meta, fields.Field):\n    class Meta: ...\n'
           '    register = 1\n    fields = ()\n    def wrap(f): return f\n    @wrap\n    def method(self): ...\n'
           '    class Nested(Meta):\n        class Meta: ...\n')
    def canon(e):
        try:
            return ex.it.getattr(e, "canonical_path")
        except Raised as r:
            return f"raises {r.exc}"

    res = ex.visit(src)
    gmf = prog.function("_griffe.agents.visitor.Visitor.visit_classdef")
    if isinstance(res, str):
        ctx.ob("R10", "class-statement-scope", False, f"visiting the sample module {res}", where(gmf))
    else:
        got, _ev = res
        model, nested, method = got["m.Model"]["obj"], got["m.Model.Nested"]["obj"], got["m.Model.method"]["obj"]

        seen_ = {
            "bases of Model": [canon(b) for b in model.attrs["bases"]],
            "decorators of Model": [canon(d.attrs["value"]) for d in model.attrs["decorators"]],
            "bases of Model.Nested": [canon(b) for b in nested.attrs["bases"]],
            "decorators of Model.method": [canon(d.attrs["value"]) for d in method.attrs["decorators"]],
        }
        want_ = {"bases of Model": ["m.Meta", "fields.Field"], "decorators of Model": ["m.register"], "bases of Model.Nested": ["m.Model.Meta"],
                 "decorators of Model.method": ["m.Model.wrap"]}
        for k_, v_ in want_.items():
            ctx.ob("R10", f"class-statement-scope|{k_}", seen_[k_] == v_, f"{k_}: {seen_[k_]}; Python evaluates them to {v_}", where(gmf))
    # a name imported and then bound again: uses of the name resolve to the later binding, whatever can be said about the import's target
    res2 = ex.visit('"""Doc."""\nfrom ext import Thing\nfrom ext import Other\nThing = dict\nclass K:\n    from ext import Inner\n    Inner = int\n    y: Inner = 2\nx: Thing = 1\nz: Other = 3\n')
    if isinstance(res2, str):
        ctx.ob("R10", "rebound-import", False, f"visiting the sample module {res2}", where(gmf))
    else:
        got2 = {p_: canon(res2[0][p_]["obj"].attrs.get("annotation")) for p_ in ("m.x", "m.K.y", "m.z")}
        want2 = {"m.x": "m.Thing", "m.K.y": "m.K.Inner", "m.z": "ext.Other"}
        ctx.ob("R10", "rebound-import", got2 == want2, f"`from ext import Thing` then `Thing = dict` (module and class level), annotations naming them: {got2}; Python binds {want2}", where(gmf))

