"""C08 - JSON serialisation round-trips without loss (structural part).

R1 writer/reader key agreement per kind, R2 expression re-parenting coverage, R3 enum revival, R4 expression (de)serialisation symmetry,
R5 encoder / CLI wiring (determinism, `full` forwarding, alias target, decoder branch order).
"""

from __future__ import annotations

import ast
from pathlib import PurePosixPath

from sa.callgraph import CallGraph
from sa.report import Ctx
from sa.srcmodel import AnalysisError, FunctionInfo, Program, dotted, norm, unparse, walk_no_nested
from sa.tables.serial import ctor_params, reader_keys, writer_keys
from sa.util import calls_in, cfg_of, key, kwarg, kwarg_deep, node_index, where

M = "_griffe.models"
E = "_griffe.encoders"
KINDS = {"Module": "_load_module", "Class": "_load_class", "Function": "_load_function", "Attribute": "_load_attribute", "Alias": "_load_alias"}
# writer keys a reader may ignore, with the reason
IGNORABLE = {
    "kind": "consumed by json_decoder to pick the loader",
    ("Function", "members"): "functions carry no members of their own (instance attributes are attached to the class)",
    ("Attribute", "members"): "attributes have no members",
    ("Module", "lineno"): "modules carry no line span (the agents never set one), so the key is never written for them",
    ("Module", "endlineno"): "same",
}


def run(prog: Program, ctx: Ctx) -> None:  # noqa: PLR0912,PLR0915
    cg = CallGraph(prog)
    # ------------------------------------------------------------------ R1
    ctx.rule("R1", "per kind: every key the reader requires is always written; every key the writer may omit is read optionally; every key "
                   "written in minimal form is consumed by the reader and every key read is one the writer can produce; nested "
                   "Decorator/Docstring dicts match their constructors' keywords; filepath value shapes are accepted")
    n_pairs = 0
    for cname, lname in KINDS.items():
        wk = writer_keys(prog, prog.cls(f"{M}.{cname}"))
        lf = prog.function(f"{E}.{lname}")
        rk = reader_keys(prog, lf)
        n_pairs += 1
        minimal = {k: w for k, w in wk.items() if not w.full_only}
        for k, r in sorted(rk.items()):
            w = minimal.get(k)
            ctx.ob("R1", f"{cname}|read-key-is-written|{k}", w is not None, f"{lname} reads `{k}`" + ("" if w else f", which {cname}.as_dict never writes in minimal form"), where(*r.sites[0]))
            if w is not None and r.required:
                ctx.ob("R1", f"{cname}|required-is-always-written|{k}", w.always,
                       f"{lname} requires `{k}` and {cname}.as_dict always writes it" if w.always else
                       f"{lname} reads obj_dict[\"{k}\"] but {cname}.as_dict writes it only when {w.conds}: reloading such an object raises KeyError", where(*r.sites[0]))
        for k, w in sorted(minimal.items()):
            if k in rk:
                continue
            reason = IGNORABLE.get(k) or IGNORABLE.get((cname, k))
            ctx.ob("R1", f"{cname}|written-key-is-read|{k}", reason is not None,
                   f"tabled: {reason}" if reason else f"{cname}.as_dict writes `{k}` but {lname} never reads it: the field is lost on reload", w.owner)
    ctx.expect_min("R1", n_pairs, 5)
    # Parameter
    wk = writer_keys(prog, prog.cls(f"{M}.Parameter"))
    rk = reader_keys(prog, prog.function(f"{E}._load_parameter"))
    for k, r in rk.items():
        w = wk.get(k)
        ctx.ob("R1", f"Parameter|read-key-is-written|{k}", w is not None, f"_load_parameter reads `{k}`", where(*r.sites[0]))
        if w is not None and r.required:
            ctx.ob("R1", f"Parameter|required-is-always-written|{k}", w.always, f"`{k}` required and always written", where(*r.sites[0]))
    for k in wk:
        ctx.ob("R1", f"Parameter|written-key-is-read|{k}", k in rk, f"Parameter.as_dict writes `{k}` and _load_parameter reads it", wk[k].owner)
    # nested ** constructions
    for cname, helper in (("Decorator", "_load_decorators"), ("Docstring", "_load_docstring")):
        wk = writer_keys(prog, prog.cls(f"{M}.{cname}"))
        req, opt = ctor_params(prog, prog.cls(f"{M}.{cname}"))
        hf = prog.function(f"{E}.{helper}")
        star = [c for c in calls_in(hf.node) if dotted(c.func) == cname and any(kw.arg is None for kw in c.keywords)]
        ctx.ob("R1", f"{cname}|rebuilt-from-dict", len(star) == 1, f"{helper} rebuilds {cname}(**dict)", where(hf))
        minimal = {k for k, w in wk.items() if not w.full_only}
        always = {k for k, w in wk.items() if w.always and not w.full_only}
        ctx.ob("R1", f"{cname}|keys-accepted", minimal <= (req | opt), f"{cname}.as_dict keys {sorted(minimal)} are constructor keywords {sorted(req | opt)}", where(hf))
        ctx.ob("R1", f"{cname}|required-written", req <= always, f"constructor-required {sorted(req)} are always written", where(hf))
        extra_full = {k for k, w in wk.items() if w.full_only} - (req | opt)
        ctx.ob("R1", f"{cname}|full-keys-accepted", not extra_full,
               f"full-form keys of {cname} are constructor keywords" if not extra_full else
               f"{cname}.as_dict(full=True) adds {sorted(extra_full)}, which {cname}(**dict) rejects: a full dump cannot be loaded back", where(hf))
    # filepath shapes
    lm = prog.function(f"{E}._load_module")
    wfp = writer_keys(prog, prog.cls(f"{M}.Module"))["filepath"]
    shapes = set()
    for v in wfp.values:
        if isinstance(v, ast.Constant) and v.value is None:
            shapes.add("null")
        elif isinstance(v, ast.ListComp) or isinstance(v, ast.List):
            shapes.add("list")
        elif isinstance(v, ast.Call) and dotted(v.func) == "str":
            shapes.add("string")
        elif isinstance(v, ast.Attribute):
            shapes.add("full-form path object")
        else:
            shapes.add(f"other:{norm(v)}")
    FILEPATH_SHAPES = sorted(shapes - {"full-form path object"})  # decided on behaviour below, once the decoder can be evaluated
    # ------------------------------------------------------------------ R2
    ctx.rule("R2", "every expression-typed field of the reloaded objects (decorator values, class bases, parameter annotations and defaults, "
                   "returns, attribute value and annotation) gets its scope re-attached by the decoder")
    ap = prog.function(f"{E}._attach_parent_to_exprs")
    # (first version: the branches of _attach_parent_to_exprs were matched against the expression-typed fields of the constructors; a
    # behaviour-preserving flattening of that function made it report, so it was retired: the scope table below decides every field on behaviour)
    # R2 table: the decoder (evaluated through json's own object hook, innermost dictionaries first) re-attaches each name to the scope the
    # visitor builds it in: bases / decorators / signatures of an object belong to the *enclosing* scope, attribute annotations and values to
    # the scope the attribute is defined in.
    import json

    from sa.absint import Interp, Obj, Raised

    it = Interp(prog, max_depth=40, max_steps=2_000_000)
    jd = prog.function(f"{E}.json_decoder")

    want_fp = {"null": (None, None), "string": ("pkg/m.py", PurePosixPath("pkg/m.py")), "list": (["a/ns", "b/ns"], [PurePosixPath("a/ns"), PurePosixPath("b/ns")])}
    for sh in FILEPATH_SHAPES:
        if sh not in want_fp:
            ctx.ob("R1", f"Module|filepath-shape|{sh}", False, f"Module.as_dict can write a filepath of a shape ({sh}) no decoder row covers", where(lm))
            continue
        given, want_v = want_fp[sh]
        try:
            mod_ = it.call(jd, {"kind": "module", "name": "m", "filepath": given, "labels": [], "members": {}})
            got_v = mod_.attrs.get("_filepath") if isinstance(mod_, Obj) else mod_
            okf = got_v == want_v
            msg = f"reloaded as {got_v!r}"
        except Raised as r:
            okf, msg = False, f"the decoder raises {r.exc}"
        ctx.ob("R1", f"Module|filepath-shape|{sh}", okf, f"Module.as_dict writes a {sh} filepath ({given!r}); {msg}, expected {want_v!r}", where(lm))

    def name(n_: str) -> dict:
        """An expression mentioning n_ three ways: bare inside a nested subscript, as the root of a dotted chain, and as a call argument."""
        bare = {"cls": "ExprName", "name": n_}
        nested = {"cls": "ExprSubscript", "left": {"cls": "ExprName", "name": "Dict"}, "slice": {"cls": "ExprTuple", "implicit": True, "elements": [
            {"cls": "ExprName", "name": "K"}, {"cls": "ExprSubscript", "left": {"cls": "ExprName", "name": "List"}, "slice": bare}]}}
        chain = {"cls": "ExprAttribute", "values": [{"cls": "ExprName", "name": n_}, {"cls": "ExprName", "name": "part"}, {"cls": "ExprName", "name": "leaf"}]}
        call = {"cls": "ExprCall", "function": chain, "arguments": [dict(bare), {"cls": "ExprKeyword", "name": "k", "value": dict(bare)}]}
        return {"cls": "ExprBinOp", "left": nested, "operator": "|", "right": {"cls": "ExprBinOp", "left": dict(chain) | {"values": [dict(v) for v in chain["values"]]}, "operator": "|", "right": call}}

    def klass(n_: str, bases: list, decorators: list, members: list) -> dict:
        return {"kind": "class", "name": n_, "lineno": 1, "endlineno": 2, "bases": bases, "labels": [], "members": {m_["name"]: m_ for m_ in members},
                "decorators": [{"value": d, "lineno": 1, "endlineno": 1} for d in decorators]}

    def func(n_: str, ann: dict | None, default: dict | None, returns: dict | None, decorators: list) -> dict:
        return {"kind": "function", "name": n_, "lineno": 1, "endlineno": 2, "labels": [], "returns": returns,
                "parameters": [{"name": "p", "kind": "positional or keyword", "annotation": ann, "default": default}],
                "decorators": [{"value": d, "lineno": 1, "endlineno": 1} for d in decorators]}

    def attr(n_: str, ann: dict | None, value: dict | None) -> dict:
        return {"kind": "attribute", "name": n_, "lineno": 1, "endlineno": 1, "labels": [], "annotation": ann, "value": value}

    # members are written as a mapping keyed by member name (Object.as_dict); `kind` and `cls` are ordinary member names
    top_members = [
        klass("Meta", [], [], []),
        func("register", name("T"), name("D"), name("R"), [name("deco")]),
        attr("top", name("A"), name("V")),
        attr("kind", None, None),
        attr("cls", None, None),
        klass("Model", [name("Meta")], [name("register")], [
            klass("Meta", [name("Base")], [name("inner_deco")], []),
            func("register", name("T"), name("D"), name("R"), [name("deco")]),
            attr("x", name("Meta"), name("V")),
            attr("kind", None, None),
        ]),
    ]
    doc = {"kind": "module", "name": "shop", "filepath": "shop.py", "labels": [], "members": {m_["name"]: m_ for m_ in top_members}}
    # docstrings as the writer emits them: present with text, present but empty (a placeholder `""""""`), absent
    doc["docstring"] = {"value": "Module doc.", "lineno": 1, "endlineno": 1}
    doc["members"]["Meta"]["docstring"] = {"value": "", "lineno": 2, "endlineno": 2}
    doc["members"]["register"]["docstring"] = {"value": "", "lineno": 2, "endlineno": 3}
    doc["members"]["top"]["docstring"] = {"value": " foo\nbar", "lineno": 2, "endlineno": 5}  # what cleaning leaves of `"""\n       foo\n      bar\n    """`
    doc["members"]["Model"]["members"]["x"]["docstring"] = {"value": "", "lineno": 2, "endlineno": 2}
    written_docs = {"shop": "Module doc.", "shop.Meta": "", "shop.register": "", "shop.top": " foo\nbar", "shop.Model": None, "shop.Model.x": "", "shop.Model.Meta": None}
    root = None
    try:
        root = json.loads(json.dumps(doc), object_hook=lambda d: it.call(jd, d))
        names = sorted(root.attrs["members"]) if isinstance(root, Obj) else None
        ctx.ob("R2", "decode|minimal document", names == sorted(m_["name"] for m_ in top_members),
               f"the decoder loads a minimal document with every kind of object and members named `kind` / `cls`: members {names}", where(jd))
    except Raised as r:
        ctx.ob("R2", "decode|minimal document", False, f"the decoder raises {r.exc} on a minimal document (module, classes, functions, attributes as the writer emits them)", where(jd))

    if isinstance(root, Obj):
        def at(path: str) -> Obj:
            o = root
            for part in path.split(".")[1:]:
                o = o.attrs["members"][part]
            return o

        for pth, wv in written_docs.items():
            dsv = at(pth).attrs.get("docstring")
            gv = it.getattr(dsv, "value") if isinstance(dsv, Obj) else dsv
            ctx.ob("R2", f"docstring|{pth}", gv == wv, f"{pth}: written docstring {wv!r}, reloaded {gv!r} (an empty docstring is still a docstring: has_docstring, line span)", where(jd))

    # the writer side: every member of an object is written, whatever it is (an unexpanded wildcard import is a member with a name, a target and a span)
    M8 = "_griffe.models"

    def new8(cls_name: str, *a: object, **k: object) -> Obj:
        return it._construct(prog.cls(f"{M8}.{cls_name}"), list(a), dict(k))

    try:
        wm = new8("Module", "shop", filepath=PurePosixPath("/s/shop.py"))
        smf = prog.lookup_method(wm.cls, "set_member")[0]
        for mem in (new8("Attribute", "top", lineno=1, endlineno=1), new8("Alias", "imported", "os.path.join", lineno=2, endlineno=2),
                    new8("Alias", "os/path/*", "os.path", lineno=3, endlineno=3), new8("Function", "f", lineno=4, endlineno=5), new8("Class", "K", lineno=6, endlineno=7),
                    new8("Function", "synth", lineno=0, endlineno=0)):  # the span the dataclasses extension gives the constructor it synthesises
            it.call(smf, wm, mem.attrs["name"], mem)
        for full_ in (False, True):
            written = it.call(prog.lookup_method(wm.cls, "as_dict")[0], wm, full=full_)
            keys_ = sorted(written["members"]) if isinstance(written.get("members"), dict) else sorted(m_["name"] for m_ in written.get("members", []))
            ctx.ob("R2", f"writer|every member written|full={full_}", keys_ == sorted(wm.attrs["members"]),
                   f"Module.as_dict(full={full_}) writes members {keys_}; the module has {sorted(wm.attrs['members'])}", where(prog.lookup_method(wm.cls, "as_dict")[0]))
            wmem = written["members"] if isinstance(written.get("members"), dict) else {m_["name"]: m_ for m_ in written.get("members", [])}
            for nm_, mo_ in wm.attrs["members"].items():
                wd_ = wmem.get(nm_)
                if not isinstance(wd_, dict) or mo_.cls.name == "Alias":
                    continue
                for key_ in ("lineno", "endlineno"):
                    have_ = mo_.attrs.get(key_)
                    ctx.ob("R2", f"writer|span written as stored|{nm_}.{key_}|full={full_}", wd_.get(key_) == have_,
                           f"{nm_}.{key_} is {have_!r}, the writer emits {wd_.get(key_, '<no key>')!r} (a span of 0 is a span: the reader turns a missing key into None)",
                           where(prog.lookup_method(mo_.cls, "as_dict")[0]))
    except Raised as r:
        ctx.ob("R2", "writer|every member written", False, f"writing a small module raises {r.exc}", where(jd))

    def scope_of(e: object) -> str:
        """Scopes of all free names of an expression (one string when they agree); attribute chains must stay linked part to part."""
        scopes: set[str] = set()

        def walk(x: object) -> None:
            if isinstance(x, (list, tuple)):
                for y in x:
                    walk(y)
                return
            if not isinstance(x, Obj) or x.cls is None:
                return
            if x.cls.name == "ExprName":
                par = x.attrs.get("parent")
                scopes.add(it.getattr(par, "path") if isinstance(par, Obj) and par.cls is not None and par.cls.name != "ExprName" else f"<{par!r}>")
                return
            if x.cls.name == "ExprAttribute":
                vals = x.attrs["values"]
                walk(vals[0])
                for prev, cur in zip(vals, vals[1:]):
                    if isinstance(cur, Obj) and cur.attrs.get("parent") is not prev:
                        scopes.add(f"<chain broken at .{cur.attrs.get('name')}>")
                return
            for k_, v_ in x.attrs.items():
                if k_ not in ("parent", "function") or x.cls.name != "ExprKeyword":
                    walk(v_)

        walk(e)
        return ",".join(sorted(scopes))

    def collect(o: Obj, out: dict) -> None:
        pth = it.getattr(o, "path")
        kind = o.cls.name
        if kind in ("Class", "Function"):
            for i, d in enumerate(o.attrs.get("decorators") or []):
                out[f"{pth}|decorator {i}"] = scope_of(d.attrs["value"])
        if kind == "Class":
            for i, b in enumerate(o.attrs.get("bases") or []):
                out[f"{pth}|base {i}"] = scope_of(b)
        if kind == "Function":
            for q in it._iterate(o.attrs["parameters"]):
                out[f"{pth}|parameter annotation"] = scope_of(q.attrs["annotation"])
                out[f"{pth}|parameter default"] = scope_of(q.attrs["default"])
            out[f"{pth}|returns"] = scope_of(o.attrs["returns"])
        if kind == "Attribute":
            out[f"{pth}|annotation"] = scope_of(o.attrs["annotation"])
            out[f"{pth}|value"] = scope_of(o.attrs["value"])
        for m in (o.attrs.get("members") or {}).values():
            collect(m, out)

    got: dict = {}
    if root is not None:
        collect(root, got)
    want = {}
    for pth, enclosing in (("shop.Meta", "shop"), ("shop.register", "shop"), ("shop.Model", "shop"), ("shop.Model.Meta", "shop.Model"), ("shop.Model.register", "shop.Model")):
        pass
    want = {
        "shop.register|decorator 0": "shop", "shop.register|parameter annotation": "shop", "shop.register|parameter default": "shop", "shop.register|returns": "shop",
        "shop.top|annotation": "shop", "shop.top|value": "shop",
        "shop.Model|decorator 0": "shop", "shop.Model|base 0": "shop",
        "shop.Model.Meta|decorator 0": "shop.Model", "shop.Model.Meta|base 0": "shop.Model",
        "shop.Model.register|decorator 0": "shop.Model", "shop.Model.register|parameter annotation": "shop.Model", "shop.Model.register|parameter default": "shop.Model",
        "shop.Model.register|returns": "shop.Model",
        "shop.Model.x|annotation": "shop.Model", "shop.Model.x|value": "shop.Model",
    }
    for k_, w_ in want.items():
        ctx.ob("R2", f"scope|{k_}", got.get(k_) == w_, f"after a reload the names in {k_.replace('|', ' / ')} resolve in scope `{got.get(k_)}`; the visitor builds them in `{w_}`", where(ap))
    if root is not None:
        ctx.expect_min("R2", len(got), 14)

    # ------------------------------------------------------------------ R3
    ctx.rule("R3", "enum-typed fields written as their value are rebuilt as enums by the reader")
    lp = prog.function(f"{E}._load_parameter")
    k = None
    for c in calls_in(lp.node):
        if dotted(c.func) == "Parameter":
            k = kwarg(c, "kind")
    ctx.ob("R3", "Parameter.kind", k is not None and isinstance(k, ast.Call) and dotted(k.func) == "ParameterKind", f"Parameter(kind=...) is revived as ParameterKind ({unparse(k) if k else None})", where(lp))
    le = prog.function(f"{E}._load_expression")
    enum_fields = []
    exmod = prog.module("_griffe.expressions")
    for c in exmod.classes.values():
        for fname, ann in c.class_annots.items():
            if "ParameterKind" in unparse(ann) or "Kind" == unparse(ann):
                enum_fields.append((c.name, fname, unparse(ann)))
    for cn, fname, ann in enum_fields:
        revived = any(isinstance(n, ast.Call) and dotted(n.func) == ann.split("|")[0].strip() and fname in unparse(n) for n in ast.walk(le.node)) and cn in ast.unparse(le.node)
        ctx.ob("R3", f"{cn}.{fname}", revived, f"{cn}.{fname} ({ann}) is revived as an enum by _load_expression" if revived else
               f"{cn}.{fname} is written as a string and never turned back into {ann}: identity comparisons on it fail after a reload", where(le))
    # (that the kind string selects the loader of that kind - every Kind, none cross-wired - is decided by the `dispatch|...` rows of R5: the decoder
    # evaluated on a dictionary of each kind; the table the loaders sit in is private and may be named and shaped anyhow)

    # ------------------------------------------------------------------ R4
    ctx.rule("R4", "expressions: the writer emits every dataclass field except `parent` plus `cls`; the reader pops `cls`, instantiates that class "
                   "with the remaining keys, and re-links attribute chains left to right")
    from sa.rules.C03 import corpus as _expr_corpus

    ead = prog.function("_griffe.expressions._expr_as_dict")
    build = prog.function("_griffe.expressions._build")
    it4 = Interp(prog, max_depth=80, max_steps=3_000_000)
    scope4 = Obj(prog.cls(f"{M}.Module"), {"name": "m", "path": "m", "members": {}, "parent": None, "relative_filepath": "m.py", "filepath": "m.py"}, label="m")

    def shape(e: object) -> object:
        """Class and field values of an expression tree, `parent` links reduced to what they point at."""
        if isinstance(e, Obj) and e.cls is not None:
            out = {"<class>": e.cls.name}
            for k_, v_ in sorted(e.attrs.items()):
                if k_.startswith("__"):
                    continue
                if k_ == "parent":
                    out[k_] = ("name " + v_.attrs.get("name", "?")) if isinstance(v_, Obj) and v_.cls is not None and v_.cls.name == "ExprName" else ("scope" if v_ is not None else None)
                else:
                    out[k_] = shape(v_)
            return out
        if isinstance(e, (list, tuple)):
            return [shape(x) for x in e]
        if hasattr(e, "name") and type(e).__name__ == "Sym":
            return e.name
        return e

    n4 = 0
    samples = [src_ for label_, src_ in _expr_corpus() if label_.startswith("node|")]
    for src_ in samples:
        node = ast.parse(src_, mode="eval").body
        try:
            it4.steps = 0
            e1 = it4.call(build, node, scope4, parse_strings=False)
            if isinstance(e1, str):
                continue  # constants are stored as plain strings
            data = it4.call(prog.lookup_method(e1.cls, "as_dict")[0], e1)
            e2 = json.loads(json.dumps(data, default=lambda o: getattr(o, "value", str(o))), object_hook=lambda d: it4.call(jd, d))
            before, after = shape(e1), shape(e2)
            # scopes are re-attached by the object loaders, not by the expression loader: compare everything else
            def drop_scope(x: object) -> object:
                if isinstance(x, dict):
                    return {k_: (None if k_ == "parent" and v_ == "scope" else drop_scope(v_)) for k_, v_ in x.items()}
                return [drop_scope(y) for y in x] if isinstance(x, list) else x
            ok = drop_scope(before) == drop_scope(after) and it4._str(e1) == (it4._str(e2) if isinstance(e2, Obj) else e2)
            detail = "" if ok else f": written {drop_scope(before)}, read back {drop_scope(after)}"
        except Raised as r:
            ok, detail = False, f": raises {r.exc}"
        n4 += 1
        ctx.ob("R4", f"expression|{src_}", ok, f"`{src_}` survives as_dict -> JSON -> decoder with every field and every link between the parts of dotted names{detail}", where(ead))
    ctx.expect_min("R4", n4, 100)

    # ------------------------------------------------------------------ R5
    ctx.rule("R5", "sets are encoded sorted; JSONEncoder.default uses as_dict(full=self.full); as_json and both arms of the CLI dump serialise "
                   "through JSONEncoder with the requested `full`; an alias serialises its own target_path; the decoder tests `cls` before `kind`")
    # (the fallback table of the encoder, whatever it is called: a module-level mapping from `set` to `sorted`)
    emap = next((v_ for v_ in prog.module(E).assigns.values() if isinstance(v_, ast.Dict) and any(unparse(k_) == "set" for k_ in v_.keys if k_ is not None)), None)
    ok = isinstance(emap, ast.Dict) and any(k_ is not None and unparse(k_) == "set" and unparse(v_) == "sorted" for k_, v_ in zip(emap.keys, emap.values))
    ctx.ob("R5", "sets-sorted", ok, "sets (labels) are serialised in sorted order", f"{prog.module(E).relpath}:{getattr(emap, 'lineno', 0)}")
    dflt = prog.function(f"{E}.JSONEncoder.default")
    ok = any(isinstance(c.func, ast.Attribute) and c.func.attr == "as_dict" and unparse(kwarg(c, "full")) == "self.full" for c in calls_in(dflt.node))
    ctx.ob("R5", key(dflt, "full-forwarded"), ok, "nested objects are serialised with the encoder's own `full`", where(dflt))
    for q in ("_griffe.mixins.SerializationMixin.as_json",):
        f = prog.function(q)
        dumps = [c for c in calls_in(f.node) if dotted(c.func) == "json.dumps"]
        ok = len(dumps) == 1 and unparse(kwarg(dumps[0], "cls")) == "JSONEncoder" and unparse(kwarg(dumps[0], "full")) == "full"
        ctx.ob("R5", key(f, "as_json"), ok, "as_json = json.dumps(self, cls=JSONEncoder, full=full, ...)", where(f))
    # the CLI dump, on behaviour: evaluated with the loading helper, the extension loader, json.dumps, as_json, the clock and the output helper
    # replaced by recording stand-ins.  Rows: output to stdout / one file / one file per package x full or minimal x packages named or given by path.
    import itertools as _it8

    dump = prog.function("_griffe.cli.dump")
    mcls8 = prog.cls(f"{M}.Module")
    n_dump = 0
    for output, full_, by_path in _it8.product((None, "out.json", "docs/{package}.json"), (False, True), (False, True)):
        it5 = Interp(prog, max_depth=30, max_steps=400_000)
        log5: list[tuple[str, tuple, dict]] = []

        def rec5(name, ret, log5=log5):
            def f(_i, *a_, **k_):
                log5.append((name, a_, k_))
                return ret(a_, k_) if callable(ret) else ret
            return f

        pk_a, pk_b = (Obj(mcls8, {"name": n_, "__closed__": True}, label=n_) for n_ in ("pkg_a", "pkg_b"))
        members5 = {"pkg_a": pk_a, "pkg_b": pk_b}
        loader5 = Obj(None, {"modules_collection": Obj(None, {"members": members5, "__closed__": True}), "__closed__": True}, label="loader")
        it5.stubs["_griffe.cli._load_packages"] = rec5("_load_packages", loader5)
        it5.stubs["_griffe.extensions.base.load_extensions"] = rec5("load_extensions", Obj(None, {"__closed__": True}, label="extensions"))
        it5.stubs["_griffe.cli._print_data"] = rec5("_print_data", None)
        it5.stubs["_griffe.mixins.SerializationMixin.as_json"] = rec5("as_json", lambda a_, _k: f"json of {a_[0].label}")
        it5.ext_handlers["json.dumps"] = rec5("json.dumps", "json of everything")
        it5.ext_handlers["datetime.datetime.now"] = rec5("now", 0)
        it5.ext_handlers["datetime.now"] = rec5("now", 0)
        args5 = ["src/pkg_a", "src/pkg_b"] if by_path else ["pkg_a", "pkg_b"]
        try:
            rc5: object = it5.call(dump, list(args5), output=output, full=full_)
        except Raised as r:
            rc5 = f"raises {r.exc}"
        n_dump += 1
        row5 = f"dump|output={output}|full={full_}|packages {'by path' if by_path else 'by name'}"
        prints = [(c_[1][0], c_[1][1] if len(c_[1]) > 1 else c_[2].get("output_file")) for c_ in log5 if c_[0] == "_print_data"]
        sers5 = [c_ for c_ in log5 if c_[0] in ("as_json", "json.dumps")]
        loads5 = [c_ for c_ in log5 if c_[0] == "_load_packages"]
        if output is not None and "{package}" in output:
            want_prints = [(f"json of {n_}", f"docs/{n_}.json") for n_ in members5]
            want_sers = [("as_json", members5[n_]) for n_ in members5]
        else:
            want_prints = [("json of everything", output)]
            want_sers = [("json.dumps", members5)]
        got_sers = [(c_[0], c_[1][0]) for c_ in sers5]
        opts_ok = all(c_[2].get("full") is full_ and c_[2].get("sort_keys") is True for c_ in sers5) and all(
            isinstance(c_[2].get("cls"), object) and "JSONEncoder" in repr(c_[2].get("cls")) for c_ in sers5 if c_[0] == "json.dumps")
        ctx.ob("R5", row5 + "|serialised", got_sers == want_sers and opts_ok,
               f"expected {[w_[0] for w_ in want_sers]} with full={full_}, sort_keys=True (and JSONEncoder for json.dumps); got "
               f"{[(c_[0], {k_: (v_ if isinstance(v_, (bool, int, type(None))) else repr(v_)[:30]) for k_, v_ in c_[2].items()}) for c_ in sers5]}", where(dump))
        ctx.ob("R5", row5 + "|written", prints == want_prints, f"expected the output calls {want_prints}; got {prints}", where(dump))
        ctx.ob("R5", row5 + "|exit-code", rc5 == 0 and len(loads5) == 1 and list(loads5[0][1][0]) == args5,
               f"two packages requested ({args5}), two loaded: exit code {rc5} (0 expected), the loading helper received {[list(c_[1][0]) for c_ in loads5]}", where(dump))
    ctx.expect_min("R5", n_dump, 12)
    awk = writer_keys(prog, prog.cls(f"{M}.Alias"))
    tp = awk.get("target_path")
    ok = tp is not None and len(tp.values) == 1 and unparse(tp.values[0]) == "self.target_path"
    ctx.ob("R5", "alias-target_path", ok, "Alias.as_dict writes the alias's own target_path (re-export chains keep every hop)" if ok else
           f"Alias.as_dict writes target_path = {unparse(tp.values[0]) if tp and tp.values else None}: intermediate hops of alias chains are lost", tp.owner if tp else "")
    nm = awk.get("name")
    ctx.ob("R5", "alias-name", nm is not None and unparse(nm.values[0]) == "self.name", "Alias.as_dict writes the alias's own name", nm.owner if nm else "")
    # dispatch of the decoder, decided on the dictionaries themselves (evaluated): an expression dictionary that also carries `kind`
    # (ExprParameter) is an expression; a parameter is not mistaken for an object; a plain mapping stays a mapping
    for label, d, want_cls in (
        ("lambda parameter (cls + kind)", {"cls": "ExprParameter", "name": "p", "kind": "positional-only", "annotation": None, "default": None}, "ExprParameter"),
        ("parameter", {"name": "p", "kind": "positional or keyword", "annotation": None, "default": None}, "Parameter"),
        ("attribute", {"kind": "attribute", "name": "a", "lineno": 1, "endlineno": 1, "labels": [], "annotation": None, "value": None}, "Attribute"),
        ("module", {"kind": "module", "name": "m", "filepath": "m.py", "labels": [], "members": {}}, "Module"),
        ("class", {"kind": "class", "name": "K", "lineno": 1, "endlineno": 2, "labels": [], "members": {}, "bases": [], "decorators": []}, "Class"),
        ("function", {"kind": "function", "name": "f", "lineno": 1, "endlineno": 2, "labels": [], "parameters": [], "returns": None, "decorators": []}, "Function"),
        ("alias", {"kind": "alias", "name": "a", "target_path": "os.path", "lineno": 1, "endlineno": 1}, "Alias"),
        ("plain mapping", {"anything": 1}, None),
    ):
        try:
            it.steps = 0
            res = it.call(jd, dict(d))
            got_cls = res.cls.name if isinstance(res, Obj) and res.cls is not None else None
        except Raised as r:
            got_cls = f"raises {r.exc}"
        ctx.ob("R5", f"dispatch|{label}", got_cls == want_cls, f"json_decoder({label}) builds {got_cls}, expected {want_cls}", where(jd))

def _anc(node: ast.AST):
    from sa.srcmodel import ancestors

    return list(ancestors(node))
