"""C03 - Stored expressions render back to equivalent Python code.

R1 node and operator coverage (table agreement with the running interpreter's `ast` and its unparser tables),
R2 render round-trip table: the builders and renderers (their ASTs, abstractly evaluated) applied to an enumerated corpus of expression shapes
   - every node kind, every operator, and every depth-2 nesting of an operand inside every operand slot - must give text that parses back to
   the same tree,
R3 flat iteration: the pieces concatenate to the string and every referenced name is present as a name element,
R4 string-annotation decision table (postponed evaluation, Literal) and the call sites that must not parse strings,
R5 builder field coverage (every field of the syntax node is read).
"""

from __future__ import annotations

import ast
from pathlib import PurePosixPath
import itertools

from sa.absint import Interp, Obj, Raised
from sa.report import Ctx
from sa.srcmodel import AnalysisError, Program, dotted, norm, unparse, walk_no_nested
from sa.util import calls_in, key, kwarg, where

E = "_griffe.expressions"
EXCLUDED_NODES = {
    "Await": "only valid inside async function bodies; module/class-level expressions Griffe stores cannot contain it",
    "TemplateStr": "Python 3.14 t-strings (not in the supported grammar of this version)",
    "Interpolation": "Python 3.14 t-strings",
    "expr": "abstract base", "Slice": "handled through Subscript (has a builder)",
}

ATOMS = ["a", "1", "'s'"]
OPERANDS = {  # representative operand of each syntactic class (source text)
    "Name": "a", "Constant": "1", "Attribute": "a.b", "Call": "f(a)", "Subscript": "a[0]", "BinOp+": "a + b", "BinOp**": "a ** b", "BinOp*": "a * b",
    "UnaryOp-": "-a", "UnaryOp not": "not a", "BoolOp and": "a and b", "BoolOp or": "a or b", "Compare": "a < b", "IfExp": "a if b else c", "Lambda": "lambda: a",
    "NamedExpr": "(x := a)", "Tuple": "(a, b)", "List": "[a, b]", "Dict": "{a: b}", "GeneratorExp": "(x for x in a)", "ListComp": "[x for x in a]",
    "Yield": "(yield a)", "YieldFrom": "(yield from a)", "Starred": "*a", "JoinedStr": "f'{a}'", "Set": "{a, b}",
}


def corpus() -> list[tuple[str, str]]:
    """(label, source) pairs; nested cases are built as syntax trees and unparsed by CPython so parentheses are exactly the required ones."""
    out: list[tuple[str, str]] = []
    singles = {
        "Constant": ["None", "True", "...", "1", "1.5e3", "1j", "'s'", "b'x'", "'it\\'s'", "'a\"b'"],
        "Name": ["a"], "Attribute": ["a.b", "a.b.c", "a().b", "'s'.join", "a().b.c", "a[0].b.c", "a().b.c.d", "(a + b).c.d"],
        "BinOp": [f"a {op} b" for op in ("+", "-", "*", "/", "//", "%", "**", "@", "<<", ">>", "|", "^", "&")],
        "UnaryOp": ["-a", "+a", "~a", "not a"], "BoolOp": ["a and b", "a or b", "a and b and c", "a or b or c"],
        "Compare": [f"a {op} b" for op in ("==", "!=", "<", "<=", ">", ">=", "is", "is not", "in", "not in")] + ["a < b <= c", "a is b is not c"],
        "IfExp": ["a if b else c"], "NamedExpr": ["(x := a)"],
        "Lambda": ["lambda: a", "lambda x: x", "lambda x, y=1: x", "lambda x, /: x", "lambda x, /, y: x", "lambda *a: a", "lambda *a, b: a", "lambda *, b: b", "lambda *, b=1: b", "lambda *, a=1, b: a", "lambda *, a, b=1: a", "lambda a, b=1, /, c=2, *, d, e=3: a",
                   "lambda s, encoding='utf-8', errors='strict': s", "lambda *, key='a.b': key",
                   "lambda **k: k", "lambda x, /, y, *a, z=1, **k: x", "lambda x, /, *, z: x", "lambda x=1, /, y=2: x"],
        "Call": ["f()", "f(a)", "f(a, b)", "f(a=1)", "f(*a)", "f(**k)", "f(a, *b, c=1, **d)", "f(x for x in a)", "f(a)(b)",
                 "f((x for x in a), k=1)", "f((x for x in a), **k)", "f((x for x in a), b)", "f(b, (x for x in a))", "f((x for x in a), *b)", "f(k=(x for x in a))",
                 "f(a=g(b=1))", "f(**g(b=1))", "f(a, k=g(h(j=1), m=2))", "f(a=lambda: g(b=1))"],
        "Subscript": ["a[0]", "a[b]", "a[b, c]", "a[1:2]", "a[1:2:3]", "a[:]", "a[::2]", "a[1:]", "a[:2]", "a[1:2, ::3]", "a[(b, c)]", "a[b][c]", "a[*b]", "a[()]", "a[b,]", "a[(b,), c]", "a[1:2,]"],
        "Tuple": ["()", "(a,)", "(a, b)", "a, b"], "List": ["[]", "[a]", "[a, b]", "[*a, b]"], "Set": ["{a}", "{a, b}", "{*a, b}"],
        "Dict": ["{}", "{a: b}", "{a: b, c: d}", "{**a}", "{**a, b: c}", "{a: b, **c}"],
        "ListComp": ["[x for x in a]", "[x for x in a if x]", "[x for x in a if x if y]", "[x for y in a for x in y]", "[(x, y) for x, y in a]"],
        "SetComp": ["{x for x in a}", "{x for x in a if x}"], "DictComp": ["{k: v for k, v in a}", "{k: v for k in a if k}", "{k: v for k in a for v in k}"],
        "GeneratorExp": ["(x for x in a)", "(x for x in a if x)"],
        "Yield": ["(yield)", "(yield a)"], "YieldFrom": ["(yield from a)"], "Starred": ["[*a]", "f(*a)"],
        "JoinedStr": ["f'{a}'", "f'x{a}y'", "f'{a!r}'", "f'{a!s}'", "f'{a:>10}'", "f'{a!r:>10}'", "f'{a:{b}}'", "f'{a}{b}'", "f'{{a}}'", "f\"it's {a}\"", "f'{a.b}'", "f'{f(a)}'", "f'{a[\"k\"]}'", "f'{\"s\"}'", "f'{a:{b}.{c}f}'", "f'x\\ny{a}'", "f\"{f'{a}b'}\"", "f\"x{f'y{a}z{b!r}'}w\"", "f\"{a:{f'{b}'}}\"",
                      "f'{ {1: 2}[1] }'", "f'{ {1, 2}.pop() }'", "f'{ {k: 1 for k in d}.keys() }'", "f'{ {1} | a }'", "f'{ {1: 2} }'", "f'{ {1}.union(a)!r:>{w}}'"],
    }
    for cls, srcs in singles.items():
        for s in srcs:
            out.append((f"node|{cls}|{s}", s))
    # depth-2: every operand class in every operand slot of every composite construct
    slots = {
        "BinOp+.left": "{x} + b", "BinOp+.right": "b + {x}", "BinOp*.left": "{x} * b", "BinOp*.right": "b * {x}", "BinOp**.left": "{x} ** b", "BinOp**.right": "b ** {x}",
        "BinOp-.right": "b - {x}", "UnaryOp-.operand": "-{x}", "UnaryOp not.operand": "not {x}", "BoolOp and.value": "{x} and b", "BoolOp or.value": "{x} or b",
        "Compare.left": "{x} < b", "Compare.comparator": "b < {x}", "IfExp.test": "b if {x} else c", "IfExp.body": "{x} if b else c", "IfExp.orelse": "b if c else {x}",
        "Lambda.body": "lambda: {x}", "Lambda.default": "lambda p={x}: p", "Attribute.value": "{x}.attr", "Subscript.value": "{x}[0]", "Subscript.slice": "b[{x}]",
        "Subscript.slice-lower": "b[{x}:c]", "Call.func": "{x}(b)", "Call.arg": "f({x})", "Call.kwarg": "f(k={x})", "Call.starred": "f(*{x})", "Call.doublestarred": "f(**{x})",
        "Tuple.elt": "({x}, b)", "List.elt": "[{x}, b]", "Dict.key": "{{{x}: b}}", "Dict.value": "{{b: {x}}}", "Dict.unpack": "{{**{x}}}", "ListComp.elt": "[{x} for y in b]",
        "ListComp.iter": "[y for y in {x}]", "ListComp.if": "[y for y in b if {x}]", "GeneratorExp.elt": "({x} for y in b)", "DictComp.value": "{{k: {x} for k in b}}",
        "Yield.value": "(yield {x})", "YieldFrom.value": "(yield from {x})", "NamedExpr.value": "(n := {x})", "Starred.value": "[*{x}]", "JoinedStr.value": "f'{{{x}}}'",  # format specs / conversions: see the node samples
    }
    for (sname, tmpl), (oname, osrc) in itertools.product(slots.items(), OPERANDS.items()):
        if oname == "Starred":
            continue
        # parenthesise the operand, parse, and let CPython's unparser decide which parentheses are required
        raw = tmpl.format(x=f"({osrc})" if not osrc.startswith("(") else osrc)
        try:
            tree = ast.parse(raw, mode="eval")
            canon = ast.unparse(tree)
            ast.parse(canon, mode="eval")
        except SyntaxError:
            continue
        out.append((f"nest|{sname}|{oname}", canon))
    # operator pairs: every operator as an operand of every operator, on either side (relative precedence and associativity)
    binops = ("+", "-", "*", "/", "//", "%", "**", "@", "<<", ">>", "|", "^", "&")
    inner = {**{f"bin{op}": f"p {op} q" for op in binops}, "and": "p and q", "or": "p or q", "not": "not p", "neg": "-p", "inv": "~p", "lt": "p < q", "in": "p in q",
             "is": "p is q", "ifexp": "p if q else r", "lambda": "lambda: p"}
    outer = {**{f"bin{op}.{side}": (f"{{x}} {op} z" if side == "l" else f"z {op} {{x}}") for op in binops for side in "lr"}, "and.l": "{x} and z", "and.r": "z and {x}",
             "or.l": "{x} or z", "or.r": "z or {x}", "not": "not {x}", "neg": "-{x}", "inv": "~{x}", "lt.l": "{x} < z", "lt.r": "z < {x}", "in.r": "z in {x}", "is.l": "{x} is z"}
    for (on, tmpl), (iname, isrc) in itertools.product(outer.items(), inner.items()):
        canon = ast.unparse(ast.parse(tmpl.format(x=f"({isrc})"), mode="eval"))
        out.append((f"nest|op {on}|{iname}", canon))
    return out


def _render_nested(it: Interp, prog: Program, e) -> str:
    """Render by recursing through iterate(flat=False), the way a template walks an expression."""
    if isinstance(e, str):
        return e
    out = []
    for piece in it.call(prog.lookup_method(e.cls, "iterate")[0], e, flat=False):
        if isinstance(piece, str):
            out.append(piece)
        elif piece is e or (isinstance(piece, Obj) and piece.cls.name == "ExprName"):
            out.append(it.getattr(piece, "name"))
        else:
            out.append(_render_nested(it, prog, piece))
    return "".join(out)


def same_tree(src: str, rendered: str) -> bool:
    """Same expression tree.  The rendered text is read where Griffe's expressions come from: first as an expression on its own, else as the
    right-hand side of an assignment (`x = yield a` needs no parentheses there)."""
    want = ast.dump(ast.parse(src, mode="eval").body)
    try:
        return ast.dump(ast.parse(rendered, mode="eval").body) == want
    except (SyntaxError, ValueError):
        pass
    try:
        tree = ast.parse(f"_ = {rendered}")
    except (SyntaxError, ValueError):
        return False
    return len(tree.body) == 1 and isinstance(tree.body[0], ast.Assign) and ast.dump(tree.body[0].value) == want


def run(prog: Program, ctx: Ctx) -> None:  # noqa: PLR0912,PLR0915
    em = prog.module(E)
    # ------------------------------------------------------------------ R1 coverage
    ctx.rule("R1", "a builder exists for every expression node class of the running interpreter (tabled exclusions aside); the operator tables cover every "
                   "operator class with the token the stdlib unparser uses")
    nm = em.assigns.get("_node_map")
    keys = {unparse(k).split(".")[-1] for k in nm.keys} if isinstance(nm, ast.Dict) else set()
    exprs = sorted(n for n in dir(ast) if isinstance(getattr(ast, n), type) and issubclass(getattr(ast, n), ast.expr) and getattr(ast, n) is not ast.expr
                   and not getattr(ast, n).__subclasses__() and n[0].isupper() and getattr(ast, n).__module__ in ("ast", "_ast") and n not in ("Num", "Str", "Bytes", "NameConstant", "Ellipsis"))
    for n in exprs:
        if n in EXCLUDED_NODES:
            ctx.ob("R1", f"builder|{n}", True, f"tabled exclusion: {EXCLUDED_NODES[n]}", em.relpath, nontrivial=False)
            continue
        ctx.ob("R1", f"builder|{n}", n in keys, f"ast.{n} has a builder in _node_map", f"{em.relpath}:{getattr(nm, 'lineno', 0)}")
    for extra in ("comprehension", "keyword", "Slice"):
        ctx.ob("R1", f"builder|{extra}", extra in keys, f"ast.{extra} has a builder", f"{em.relpath}:{getattr(nm, 'lineno', 0)}")
    unp = ast._Unparser  # type: ignore[attr-defined]  # the stdlib's own tables, read as data
    for table, base, ref in (("_binary_op_map", ast.operator, unp.binop), ("_unary_op_map", ast.unaryop, unp.unop), ("_bool_op_map", ast.boolop, None), ("_compare_op_map", ast.cmpop, unp.cmpops)):
        t = em.assigns.get(table)
        if not isinstance(t, ast.Dict):
            raise AnalysisError(f"C03-R1: {table} vanished")
        got = {unparse(k).split(".")[-1]: (v.value if isinstance(v, ast.Constant) else None) for k, v in zip(t.keys, t.values)}
        for sub in base.__subclasses__():
            want = ref.get(sub.__name__) if ref else {"And": "and", "Or": "or"}[sub.__name__]
            ctx.ob("R1", f"op|{table}|{sub.__name__}", (got.get(sub.__name__) or "").strip() == want, f"{table}[{sub.__name__}] = {got.get(sub.__name__)!r}, the operator's token is {want!r}", f"{em.relpath}:{t.lineno}")

    # ------------------------------------------------------------------ R2 / R3 round-trip table
    ctx.rule("R2", "rendering the expression built from each corpus shape gives text that parses to the same tree as the source (up to redundant "
                   "parentheses and literal spelling)")
    ctx.rule("R3", "flat iteration yields exactly the pieces of the rendered string, element-by-element (non-flat) iteration renders the same text, "
                   "and every name the source references appears as a name element")
    it = Interp(prog, max_depth=80, max_steps=3_000_000)
    it.ext_handlers["builtins.compile"] = lambda _i, src, **k: compile(src, k.get("filename", "<s>"), k.get("mode", "eval"), flags=ast.PyCF_ONLY_AST, dont_inherit=True)
    build = prog.function(f"{E}._build")
    mod = Obj(prog.cls("_griffe.models.Module"), {"name": "m", "path": "m", "members": {}, "parent": None, "relative_filepath": "m.py", "filepath": "m.py",
                                                   "imports_future_annotations": False}, label="m")
    mod.attrs["module"] = mod
    ecls = prog.cls(f"{E}.Expr")
    ncls = prog.cls(f"{E}.ExprName")
    items = corpus()
    n_rows = 0
    seen_classes: set[str] = set()
    for label, src in items:
        node = ast.parse(src, mode="eval").body
        it.steps = 0
        try:
            e = it.call(build, node, mod, parse_strings=False)
            rendered = e if isinstance(e, str) else it._str(e)
            flat = [e] if isinstance(e, str) else it.call(prog.lookup_method(e.cls, "iterate")[0], e, flat=True)
        except Raised as r:
            rendered, flat = f"<raises {r.exc}>", []
        n_rows += 1
        ok = same_tree(src, rendered)
        kind, a, b = label.split("|", 2)
        cls_key = f"roundtrip|{a}" if kind == "nest" else f"roundtrip|{label}"
        if not ok:
            if cls_key in seen_classes:
                continue
            seen_classes.add(cls_key)
        ctx.ob("R2", label if ok else cls_key, ok, f"`{src}` renders as `{rendered}`" + ("" if ok else ": not the same expression"), where(build), {"source": src, "rendered": rendered})
        if ok:
            pieces = "".join(x if isinstance(x, str) else it.getattr(x, "name") for x in flat)
            names = [it.getattr(x, "name") for x in flat if isinstance(x, Obj) and x.cls is ncls]
            other = [x for x in flat if not isinstance(x, str) and not (isinstance(x, Obj) and x.cls is ncls)]
            want_names = [n.id for n in ast.walk(node) if isinstance(n, ast.Name)]
            nested = _render_nested(it, prog, e)
            ok3 = pieces == rendered and nested == rendered and not other and sorted(names) == sorted(want_names + [n.attr for n in ast.walk(node) if isinstance(n, ast.Attribute)])
            if not ok3:
                k3 = f"flat|{a}"
                if k3 in seen_classes:
                    continue
                seen_classes.add(k3)
            ctx.ob("R3", f"flat|{label}" if ok3 else f"flat|{a}", ok3, f"`{src}`: flat pieces join to `{pieces}`; element-by-element (non-flat) rendering gives `{nested}`; name elements {names}" +
                   ("" if ok3 else f"; expected the names {sorted(want_names)} (+ attribute segments) and the string `{rendered}`"), where(build))
    ctx.expect_min("R2", n_rows, 900)
    ctx.analysed["corpus_size"] = n_rows

    # ------------------------------------------------------------------ R4 string annotations
    ctx.rule("R4", "get_expression parses string annotations exactly when the *defining module* does not postpone evaluation; strings inside Literal[...] "
                   "are never parsed; decorators, defaults, values, bases and conditions are built with parse_strings=False")
    ge = prog.function(f"{E}.get_expression")
    node = ast.parse("'A.B'", mode="eval").body
    lit = ast.parse("Literal['A.B', 'c']", mode="eval").body
    lit_attr = ast.parse("typing.Literal['x']", mode="eval").body
    opt = ast.parse("Optional['A.B']", mode="eval").body
    for mod_future, pkg_future in itertools.product((False, True), repeat=2):
        pkg = Obj(prog.cls("_griffe.models.Module"), {"name": "pkg", "path": "pkg", "imports_future_annotations": pkg_future, "members": {}}, label="pkg")
        m_ = Obj(prog.cls("_griffe.models.Module"), {"name": "sub", "path": "pkg.sub", "imports_future_annotations": mod_future, "members": {}, "package": pkg,
                                                         "_filepath": PurePosixPath("/s/pkg/sub.py"), "filepath": PurePosixPath("/s/pkg/sub.py")}, label="sub")
        m_.attrs["module"] = m_
        pkg.attrs["module"] = pkg
        pkg.attrs["package"] = pkg

        def resolve(name):
            return {"Literal": "typing.Literal", "typing": "typing", "Optional": "typing.Optional", "Annotated": "typing.Annotated"}.get(name) or (_ for _ in ()).throw(Raised("NameResolutionError"))

        from sa.absint import Native

        m_.attrs["resolve"] = Native(resolve)
        cls_scope = Obj(prog.cls("_griffe.models.Class"), {"name": "K", "path": "pkg.sub.K", "module": m_, "package": pkg, "members": {}, "resolve": Native(resolve)}, label="K")
        for scope_label, scope in (("module scope", m_), ("class scope", cls_scope)):
            try:
                e = it.call(ge, node, scope)
                got = it._str(e) if not isinstance(e, str) else e
            except Raised as r:
                got = f"raises {r.exc}"
            want = "'A.B'" if mod_future else "A.B"
            ctx.ob("R4", f"parse|module future={mod_future}|package future={pkg_future}|{scope_label}", got == want,
                   f"string annotation in a module that {'postpones' if mod_future else 'does not postpone'} evaluation (package: {pkg_future}): `{got}`, expected `{want}`", where(ge))
        if not mod_future:
            # (PEP 593: only the first argument of Annotated is a type; the metadata after it are ordinary values, strings included)
            ann1 = ast.parse("Annotated['A.B', 'doc', dict(alias='name'), Literal['x']]", mode="eval").body
            ann2 = ast.parse("Optional[Annotated['A.B', 'doc']]", mode="eval").body
            for lbl, n_, want in (("Literal", lit, "Literal['A.B', 'c']"), ("typing.Literal", lit_attr, "typing.Literal['x']"), ("Optional", opt, "Optional[A.B]"),
                                  ("Annotated", ann1, "Annotated[A.B, 'doc', dict(alias='name'), Literal['x']]"), ("Optional[Annotated]", ann2, "Optional[Annotated[A.B, 'doc']]")):
                try:
                    e = it.call(ge, n_, m_)
                    got = it._str(e)
                except Raised as r:
                    got = f"raises {r.exc}"
                ctx.ob("R4", f"literal|{lbl}|package future={pkg_future}", got == want, f"`{ast.unparse(n_)}` -> `{got}`, expected `{want}`", where(ge))
    string_annotation_scope_rows(prog, ctx, "R4")
    # call sites
    vis = prog.cls("_griffe.agents.visitor.Visitor")
    n_sites = 0
    for f in [m for defs in vis.methods.values() for m in defs]:
        for c in calls_in(f.node):
            fn_name = dotted(c.func) or ""
            if fn_name in ("safe_get_expression", "get_expression"):
                n_sites += 1
                ps = kwarg(c, "parse_strings")
                ctx.ob("R4", key(f, f"no-parse:{norm(c.args[0]) if c.args else ''}"), isinstance(ps, ast.Constant) and ps.value is False,
                       f"`{norm(c, 60)}` (decorator / default / value) is built with parse_strings=False", where(f, c))
    ctx.expect_min("R4", n_sites, 4)
    for pname in ("safe_get_base_class", "safe_get_condition"):
        v = em.assigns.get(pname)
        ok = isinstance(v, ast.Call) and (dotted(v.func) or "").endswith("partial") and isinstance(kwarg(v, "parse_strings"), ast.Constant) and kwarg(v, "parse_strings").value is False
        ctx.ob("R4", f"partial|{pname}", ok, f"{pname} is preset with parse_strings=False", f"{em.relpath}:{getattr(v, 'lineno', 0)}")
    v = em.assigns.get("safe_get_annotation")
    ok = isinstance(v, ast.Call) and (dotted(v.func) or "").endswith("partial") and kwarg(v, "parse_strings") is None or (isinstance(kwarg(v, "parse_strings"), ast.Constant) and kwarg(v, "parse_strings").value is None)
    ctx.ob("R4", "partial|safe_get_annotation", bool(ok), "safe_get_annotation leaves the decision to the module's future import", f"{em.relpath}:{getattr(v, 'lineno', 0)}")

    # ------------------------------------------------------------------ R5 builder field coverage
    ctx.rule("R5", "each builder reads every field of its syntax node (ctx / kind / type_comment aside)")
    if isinstance(nm, ast.Dict):
        for k_, v_ in zip(nm.keys, nm.values):
            cname = unparse(k_).split(".")[-1]
            node_cls = getattr(ast, cname, None)
            fq = prog.resolve(em, dotted(v_) or "")
            if node_cls is None or fq not in prog.functions:
                continue
            bf = prog.functions[fq]
            p0 = bf.params[0]
            used = {n.attr for n in ast.walk(bf.node) if isinstance(n, ast.Attribute) and dotted(n.value) == p0}
            if any(dotted(c.func) == "get_parameters" and c.args and unparse(c.args[0]) == f"{p0}.args" for c in calls_in(bf.node)):
                used.add("args")
            missing = [f_ for f_ in node_cls._fields if f_ not in used and f_ not in ("ctx", "kind", "type_comment")]
            ctx.ob("R5", f"fields|{cname}", not missing, f"{bf.name} reads every field of ast.{cname}" if not missing else
                   f"{bf.name} ignores ast.{cname}.{', '.join(missing)}: that part of the source expression is dropped from the stored expression", where(bf))


def string_annotation_scope_rows(prog: Program, ctx: Ctx, rule: str) -> None:
    """Shared with C04: the names of a parsed string annotation belong to the scope the annotation is written in."""
    it = Interp(prog, max_depth=80, max_steps=3_000_000)
    it.ext_handlers["builtins.compile"] = lambda _i, src, **k: compile(src, k.get("filename", "<s>"), k.get("mode", "eval"), flags=ast.PyCF_ONLY_AST, dont_inherit=True)
    ge = prog.function(f"{E}.get_expression")
    # a parsed string annotation is built for the scope it is written in: same text, two scopes with the same path (two loads of one package), class scope
    from sa.absint import Native as _N

    def scope(kind: str, label: str, mod_: Obj | None = None) -> Obj:
        o = Obj(prog.cls(f"_griffe.models.{kind}"), {"name": "K" if kind == "Class" else "sub", "path": "pkg.sub.K" if kind == "Class" else "pkg.sub", "members": {},
                                                    "imports_future_annotations": False, "resolve": _N(lambda n_: f"{label}.{n_}"),
                                                    "_filepath": PurePosixPath("/s/pkg/sub.py"), "filepath": PurePosixPath("/s/pkg/sub.py")}, label=label)
        o.attrs["module"] = mod_ if mod_ is not None else o
        o.attrs["package"] = o.attrs["module"]
        return o

    first, second = scope("Module", "first load"), scope("Module", "second load")
    klass = scope("Class", "class scope", first)
    for label_, sc in (("first load of pkg.sub", first), ("second load of pkg.sub (same path)", second), ("class body in pkg.sub", klass)):
        try:
            e = it.call(ge, ast.parse("'Thing.Inner'", mode="eval").body, sc)
            names_ = []

            def _names(x: object) -> None:
                if isinstance(x, Obj) and x.cls is not None:
                    if x.cls.name == "ExprName":
                        names_.append(x)
                    for k_, v_ in x.attrs.items():
                        if k_ != "parent":
                            for y in (v_ if isinstance(v_, (list, tuple)) else [v_]):
                                _names(y)

            _names(e)
            roots = [n_.attrs.get("parent") for n_ in names_ if not (isinstance(n_.attrs.get("parent"), Obj) and n_.attrs["parent"].cls is not None and n_.attrs["parent"].cls.name == "ExprName")]
            got = "the scope it is written in" if roots and all(r_ is sc for r_ in roots) else f"other scopes: {[getattr(r_, 'label', r_) for r_ in roots]}"
        except Raised as r:
            got = f"raises {r.exc}"
        ctx.ob(rule, f"scope-of-parsed-string|{label_}", got == "the scope it is written in", f"the names of the string annotation 'Thing.Inner' written in the {label_} are bound to {got}", where(ge))
