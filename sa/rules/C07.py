"""C07 - Method resolution order and inherited members equal CPython's (structural part + exhaustive small hierarchies).

R1 C3 table: Class.mro (its AST and c3linear_merge's AST, abstractly evaluated) on every class hierarchy of up to 4 (thorough: 5) classes -
   every ordered choice of bases - equals CPython's own `type.__mro__`, and inconsistent hierarchies raise ValueError;
R2 cycles are reported (ValueError) and the consumers treat that as "no MRO";
R3 inherited members: nearest definition wins, own members are never shadowed, members are wrapped as inherited aliases under the subclass;
R4 all_members / lookup frame.
"""

from __future__ import annotations

import ast
import itertools

from sa.absint import Interp, Obj, Raised
from sa.aliasderef import enclosing_catch
from sa.report import Ctx
from sa.srcmodel import AnalysisError, Program, dotted, norm, unparse, walk_no_nested
from sa.util import calls_in, key, where

M = "_griffe.models"


def hierarchies(n: int):
    """All hierarchies of n classes C0..C(n-1) where Ci's bases are an ordered selection of earlier classes."""
    choices = []
    for i in range(n):
        opts = []
        for r in range(i + 1):
            opts += list(itertools.permutations(range(i), r))
        choices.append(opts)
    return itertools.product(*choices)


def cpython_mro(h: tuple[tuple[int, ...], ...]) -> list[list[str] | None]:
    """MRO (names, without object) of each class, None from the first class CPython refuses to create."""
    classes: list[type | None] = []
    out: list[list[str] | None] = []
    for i, bases in enumerate(h):
        if any(classes[b] is None for b in bases):
            classes.append(None)
            out.append(None)
            continue
        try:
            c = type(f"C{i}", tuple(classes[b] for b in bases), {})  # type: ignore[misc]
        except TypeError:
            classes.append(None)
            out.append(None)
            continue
        classes.append(c)
        out.append([k.__name__ for k in c.__mro__[1:] if k is not object])
    return out


def run(prog: Program, ctx: Ctx) -> None:  # noqa: PLR0912,PLR0915
    it = Interp(prog, max_steps=2_000_000)
    ccls = prog.cls(f"{M}.Class")
    mro_fn = prog.lookup_method(ccls, "mro")[0]

    def build(h) -> list[Obj]:
        objs: list[Obj] = []
        for i, bases in enumerate(h):
            o = Obj(ccls, {"name": f"C{i}", "path": f"m.C{i}", "is_class": True, "is_alias": False, "members": {}, "parent": None}, label=f"C{i}")
            o.attrs["resolved_bases"] = [objs[b] for b in bases]
            objs.append(o)
        return objs

    ctx.rule("R1", "Class.mro (with c3linear_merge) equals CPython's __mro__ on every hierarchy of up to N classes with every ordered choice of bases; "
                   "hierarchies CPython rejects as inconsistent raise ValueError")
    n = 4 if ctx.tier == "quick" else 5
    rows = bad = 0
    seen_bad: set[str] = set()
    for h in hierarchies(n):
        want = cpython_mro(h)
        objs = build(h)
        for i, o in enumerate(objs):
            if i < n - 1 and n > 3 and i < 2:
                continue  # smaller prefixes are covered by other hierarchies
            if want[i] is None and any(want[b] is None for b in h[i]):
                continue  # a base is already invalid: CPython never gets to define this class
            it.steps = 0
            try:
                got = [c.attrs["name"] for c in it.call(mro_fn, o)]
            except Raised as r:
                got = f"raises {r.exc}"
            exp = want[i] if want[i] is not None else "raises ValueError"
            rows += 1
            ok = got == exp
            desc = "; ".join(f"C{j}({', '.join(f'C{b}' for b in bs)})" for j, bs in enumerate(h) if j <= i)
            if not ok:
                bad += 1
                cls_key = f"{len(h[i])} bases|{'inconsistent' if want[i] is None else 'consistent'}"
                if cls_key in seen_bad and bad > 6:
                    continue
                seen_bad.add(cls_key)
            ctx.ob("R1", f"mro|{desc}|C{i}", ok, f"{desc}: mro(C{i}) = {got}; CPython: {exp}", where(mro_fn), nontrivial=len(h[i]) > 1)
    if n < 5:
        # quick tier: also the five-class hierarchies whose last class has three bases over chains (where the merge has to come back to an earlier list)
        light = [[()], [(), (0,)], [(), (0,), (1,)], [(), (0,), (1,), (2,)], [p_ for p_ in itertools.permutations(range(4), 3)]]
        for h in itertools.product(*light):
            want = cpython_mro(h)
            if want[4] is None and any(want[b] is None for b in h[4]):
                continue
            objs = build(h)
            it.steps = 0
            try:
                got = [c.attrs["name"] for c in it.call(mro_fn, objs[4])]
            except Raised as r:
                got = f"raises {r.exc}"
            exp = want[4] if want[4] is not None else "raises ValueError"
            rows += 1
            desc = "; ".join(f"C{j}({', '.join(f'C{b}' for b in bs)})" for j, bs in enumerate(h))
            if got != exp:
                cls_key = f"3 bases of 5|{'inconsistent' if want[4] is None else 'consistent'}"
                if cls_key in seen_bad:
                    continue
                seen_bad.add(cls_key)
            ctx.ob("R1", f"mro|{desc}|C4", got == exp, f"{desc}: mro(C4) = {got}; CPython: {exp}", where(mro_fn), nontrivial=True)
    # the cycle test is about classes, not about how their paths are spelled: chains whose paths are textual suffixes / prefixes of one another
    for label, paths in (("each path is a suffix of the next", ["c.Encoder", "codec.Encoder", "pkg.codec.Encoder", "app.pkg.codec.Encoder"]),
                         ("each path is a prefix of the next", ["m.C1", "m.C10", "m.C100", "m.C1000"]),
                         ("same name in nested scopes", ["m.K", "m.K.K", "m.K.K.K", "m.K.K.K.K"])):
        objs = []
        for i_, pth in enumerate(paths):
            o = Obj(ccls, {"name": pth.rsplit(".", 1)[-1], "path": pth, "is_class": True, "is_alias": False, "members": {}, "parent": None}, label=pth)
            o.attrs["resolved_bases"] = [objs[-1]] if objs else []
            objs.append(o)
        it.steps = 0
        try:
            got = [c.attrs["path"] for c in it.call(mro_fn, objs[-1])]
        except Raised as r:
            got = f"raises {r.exc}"
        exp = list(reversed(paths[:-1]))
        rows += 1
        ctx.ob("R1", f"mro|paths|{label}", got == exp, f"single-inheritance chain {' <- '.join(paths)}: mro of the last = {got}; CPython: {exp}", where(mro_fn))
    ctx.expect_min("R1", rows, 150)
    ctx.analysed["hierarchies_rows"] = rows

    # ------------------------------------------------------------------ R2 cycles
    ctx.rule("R2", "inheritance cycles make mro() raise ValueError (never loop), and inherited_members / the dataclass extension treat that as "
                   "'no inherited members'")
    for label, edges in (("A(A)", {0: [0]}), ("A(B), B(A)", {0: [1], 1: [0]}), ("A(B), B(C), C(A)", {0: [1], 1: [2], 2: [0]}), ("A(B, C), C(A)", {0: [1, 2], 1: [], 2: [0]})):
        objs = [Obj(ccls, {"name": f"K{i}", "path": f"m.K{i}", "is_class": True, "is_alias": False, "members": {}}, label=f"K{i}") for i in range(len(edges))]
        for i, bs in edges.items():
            objs[i].attrs["resolved_bases"] = [objs[b] for b in bs]
        it.steps = 0
        try:
            got = it.call(mro_fn, objs[0])
            got = f"returned {[c.attrs['name'] for c in got]}"
        except Raised as r:
            got = f"raises {r.exc}"
        except AnalysisError as exc:
            got = f"does not terminate on the abstract hierarchy ({exc})"
        ctx.ob("R2", f"cycle|{label}", got == "raises ValueError", f"cyclic hierarchy {label}: mro() {got}; expected ValueError", where(mro_fn))
    im = prog.function(f"{M}.Object.inherited_members")
    # hierarchies CPython refuses (inconsistent order, cycles) have no MRO: nothing is inherited through them, own members stay
    for label, h_, who in (("A; B(A); C(A, B)", ((), (0,), (0, 1)), 2), ("X(A, B); Y(B, A); Z(X, Y)", ((), (), (0, 1), (1, 0), (2, 3)), 4)):
        objs = build(h_)
        for o_ in objs:
            o_.attrs["members"] = {f"from_{o_.attrs['name']}": Obj(prog.cls(f"{M}.Attribute"), {"name": f"from_{o_.attrs['name']}", "is_alias": False, "inherited": False}, label="member")}
            o_.attrs["inherited"] = False
        it.class_stubs[f"{M}.Alias"] = lambda _i, name, target=None, **k: Obj(None, {"name": name, "target": target, "is_alias": True, **k}, label=f"alias {name}")
        try:
            it.steps = 0
            got_i = sorted(it.getattr(objs[who], "inherited_members"))
            got_a = sorted(it.getattr(objs[who], "all_members"))
        except Raised as r:
            got_i = got_a = [f"raises {r.exc}"]
        it.class_stubs.pop(f"{M}.Alias", None)
        own = [f"from_C{who}"]
        ctx.ob("R2", f"inconsistent|{label}", got_i == [] and got_a == own, f"{label} is refused by CPython: inherited members {got_i} (expected none), all members {got_a} (expected {own})", where(im))
    for c in calls_in(im.node):
        if isinstance(c.func, ast.Attribute) and c.func.attr == "mro":
            ctx.ob("R2", key(im, "ValueError-handled"), "ValueError" in enclosing_catch(c) or bool(enclosing_catch(c) & {"Exception"}),
                   "inherited_members treats an uncomputable MRO as no inherited members", where(im, c))
    n_dc = 0
    for f in prog.functions.values():
        if f.module.name == "_griffe.extensions.dataclasses":
            for c in calls_in(f.node):
                if isinstance(c.func, ast.Attribute) and c.func.attr == "mro":
                    n_dc += 1
                    ctx.ob("R2", key(f, "ValueError-handled"), "ValueError" in enclosing_catch(c) or bool(enclosing_catch(c) & {"Exception"}),
                           "the dataclass extension tolerates an uncomputable MRO", where(f, c))
    ctx.expect_min("R2", n_dc, 1)

    # ------------------------------------------------------------------ R3 inherited members
    ctx.rule("R3", "inherited_members: for every name defined along the MRO and not by the class itself, the alias wraps the member of the *first* "
                   "class in MRO order that defines it, is parented to the subclass and marked inherited; own members are never included")
    acls = prog.cls(f"{M}.Alias")
    member_kind = ["object"]

    def member(owner: str, name: str) -> Obj:
        # what a class body defines or imports: a definition, or a name imported there whose target has / has not been looked up yet
        k_ = member_kind[0]
        return Obj(None, {"name": name, "path": f"m.{owner}.{name}", "is_alias": k_ != "object", "resolved": k_ == "resolved import", "aliases": {}}, label=f"{owner}.{name}")

    layouts = [
        {"D": ["x"], "B": ["x", "y"], "A": ["y", "z"]},   # D(B, A) style: mro D,B,A
        {"D": [], "B": ["f"], "A": ["f"]},
        {"D": ["f", "g"], "B": ["g"], "A": ["h"]},
        {"D": [], "B": [], "A": []},
        {"D": [], "B": [], "C": ["f"], "A": ["f", "g"]},  # diamond D(B, C), B(A), C(A): C overrides A.f, B only inherits it
    ]
    for (li, lay), mk_ in itertools.product(enumerate(layouts), ("object", "unresolved import", "resolved import")):
        member_kind[0] = mk_
        order = list(lay)  # D first: the class itself, then its MRO
        objs = {}
        for cname in order:
            objs[cname] = Obj(ccls, {"name": cname, "path": f"m.{cname}", "is_class": True, "is_alias": False,
                                     "members": {n_: member(cname, n_) for n_ in lay[cname]}}, label=cname)
        # what each base itself inherits (diamond: every class before the last also derives from the last one)
        last = order[-1]
        for cname in order[1:-1]:
            inh = {n_: member(last, n_) for n_ in lay[last] if n_ not in lay[cname]}
            objs[cname].attrs["inherited_members"] = inh
            objs[cname].attrs["all_members"] = {**inh, **objs[cname].attrs["members"]}
        objs[last].attrs["inherited_members"] = {}
        objs[last].attrs["all_members"] = dict(objs[last].attrs["members"])
        d = objs[order[0]]
        it.stubs[f"{M}.Class.mro"] = lambda _i, self_, order=order, objs=objs: [objs[c] for c in order[1:]]
        try:
            got = it.getattr(d, "inherited_members")
        except Raised as r:
            got = f"raises {r.exc}"
        finally:
            it.stubs.pop(f"{M}.Class.mro", None)
        want = {}
        for cname in order[1:]:
            for n_ in lay[cname]:
                if n_ not in lay[order[0]] and n_ not in want:
                    want[n_] = f"m.{cname}.{n_}"
        ok = isinstance(got, dict) and set(got) == set(want)
        detail = {}
        if isinstance(got, dict):
            for n_, al in got.items():
                tgt = al.attrs.get("_target") if isinstance(al, Obj) else None
                detail[n_] = (tgt.attrs["path"] if isinstance(tgt, Obj) else None, al.attrs.get("_parent") is d if isinstance(al, Obj) else None,
                              al.attrs.get("inherited") if isinstance(al, Obj) else None, al.attrs.get("name") if isinstance(al, Obj) else None,
                              al.cls is acls if isinstance(al, Obj) else False)
            ok = ok and all(detail[n_] == (want[n_], True, True, n_, True) for n_ in want)
        ctx.ob("R3", f"inherited|layout{li}:{lay}|members are {mk_}s", ok, f"inherited members of {order[0]} with MRO {order[1:]} (members: {mk_}s): {detail if isinstance(got, dict) else got}; expected nearest definitions {want}", where(im))

    # ------------------------------------------------------------------ R4 frame
    ctx.rule("R4", "all_members = inherited members overlaid by own members (own wins); item access uses all_members, get_member uses members only; "
                   "mro() drops the class itself")
    am = prog.function("_griffe.mixins.ObjectAliasMixin.all_members")
    gi = prog.function("_griffe.mixins.GetMembersMixin.__getitem__")
    gm = prog.function("_griffe.mixins.GetMembersMixin.get_member")
    # on behaviour: a class with an inherited-only member a, a member b both inherited and defined, and an own member c
    mk = lambda n_: Obj(None, {"name": n_, "__closed__": True}, label=n_)  # noqa: E731
    inh = {"a": mk("inherited a"), "b": mk("inherited b")}
    own = {"b": mk("own b"), "c": mk("own c")}
    subject = Obj(ccls, {"name": "S", "path": "m.S", "is_class": True, "is_alias": False, "members": dict(own), "inherited_members": dict(inh)}, label="S")
    try:
        got_all: object = it.getattr(subject, "all_members")
    except Raised as r:
        got_all = f"raises {r.exc}"
    want_all = {"a": inh["a"], "b": own["b"], "c": own["c"]}
    ctx.ob("R4", key(am, "overlay-order"), isinstance(got_all, dict) and got_all == want_all and list(got_all) == ["a", "b", "c"],
           f"all_members of a class inheriting a, b and defining b, c: {got_all}; expected inherited members overlaid by own ones (own b wins), inherited names first", where(am))
    for fn_, label, sees_inherited in ((gi, "obj[name]", True), (gm, "get_member(name)", False)):
        outcome = {}
        for n_ in ("a", "b", "c"):
            try:
                outcome[n_] = it.call(fn_, subject, n_)
            except Raised as r:
                outcome[n_] = f"raises {r.exc}"
        want = {"a": inh["a"] if sees_inherited else "raises KeyError", "b": own["b"], "c": own["c"]}
        ctx.ob("R4", key(fn_, "uses-all_members" if sees_inherited else "uses-members"), outcome == want,
               f"{label} on that class: {outcome}; expected {want} ({'inherited members are visible' if sees_inherited else 'declared members only'})", where(fn_))
    # (that mro() leaves out the class itself is part of R1: the table compares with CPython's __mro__[1:])

    # ------------------------------------------------------------------ R5 resolved bases
    ctx.rule("R5", "resolved_bases keeps every base that can be found, in declaration order, whatever the position of the ones that cannot "
                   "(not loaded / unresolvable alias); aliases are followed to their final target")
    rb = prog.lookup_method(ccls, "resolved_bases")[0]
    from sa.absint import Native

    good = {n_: Obj(ccls, {"name": n_, "path": f"m.{n_}", "is_alias": False, "is_class": True}, label=n_) for n_ in ("A", "B", "C")}
    final = Obj(ccls, {"name": "T", "path": "m.T", "is_alias": False, "is_class": True}, label="T")
    alias_ok = Obj(None, {"name": "AL", "is_alias": True, "final_target": final}, label="alias->T")

    def boom(_i, _o):
        raise Raised("AliasResolutionError")

    from sa.absint import lazy

    alias_bad = Obj(None, {"name": "BAD", "is_alias": True, "final_target": lazy(boom)}, label="broken alias")
    table = {"m.A": good["A"], "m.B": good["B"], "m.C": good["C"], "m.AL": alias_ok, "m.BAD": alias_bad}

    def get_member(path):
        if path not in table:
            raise Raised("KeyError")
        return table[path]

    coll = Obj(None, {"get_member": Native(get_member)})
    ecls = prog.cls("_griffe.expressions.ExprName")
    n_rows = 0
    for bases in itertools.permutations(["A", "missing", "B", "BAD", "AL"], 3):
        subject = Obj(ccls, {"name": "S", "path": "m.S", "bases": [Obj(ecls, {"name": b, "canonical_path": f"m.{b}"}) if b != "B" else "m.B" for b in bases],
                             "modules_collection": coll}, label="S")
        try:
            got = [o.attrs["name"] for o in it.getattr(subject, "resolved_bases")]
        except Raised as r:
            got = f"raises {r.exc}"
        want = [{"AL": "T"}.get(b, b) for b in bases if b in ("A", "B", "AL")]
        n_rows += 1
        ctx.ob("R5", f"resolved_bases|{bases}", got == want, f"class S({', '.join(bases)}): resolved bases {got}, expected {want}", where(rb))
    ctx.expect_min("R5", n_rows, 50)

    # ------------------------------------------------------------------ R6 derived views follow the current state
    ctx.rule("R6", "resolved_bases, mro(), inherited_members and all_members are recomputed from the current state: a base that becomes available "
                   "(its package is loaded later into the same collection) or a member added to a base shows up on the next access")
    late: dict = {}

    def get_late(path):
        if path not in late:
            raise Raised("KeyError")
        return late[path]

    coll2 = Obj(None, {"get_member": Native(get_late)})
    base_obj = Obj(ccls, {"name": "Base", "path": "b.Base", "is_alias": False, "is_class": True, "bases": [], "members": {}, "modules_collection": coll2,
                          "inherited": False}, label="b.Base")
    member = Obj(prog.cls(f"{M}.Attribute"), {"name": "attr", "path": "b.Base.attr", "is_alias": False, "parent": base_obj, "inherited": False}, label="b.Base.attr")
    it.class_stubs[f"{M}.Alias"] = lambda _i, name, target=None, **k: Obj(None, {"name": name, "target": target, "is_alias": True, **k}, label=f"alias {name}")
    for view in ("resolved_bases", "mro", "inherited_members", "all_members"):
        late.clear()
        base_obj.attrs["members"] = {}
        child = Obj(ccls, {"name": "Child", "path": "s.Child", "is_alias": False, "is_class": True, "bases": ["b.Base"], "members": {},
                           "modules_collection": coll2, "inherited": False}, label="s.Child")

        def read(view=view, child=child):
            v = it.getattr(child, view)
            if view == "mro":
                v = it.apply(v, [], {})
            if isinstance(v, dict):
                return sorted(v)
            return [o.attrs["name"] for o in v]

        try:
            it.steps = 0
            first = read()
            late["b.Base"] = base_obj
            base_obj.attrs["members"] = {"attr": member}
            second = read()
        except Raised as r:
            first, second = "raises", r.exc
        want = {"resolved_bases": ["Base"], "mro": ["Base"], "inherited_members": ["attr"], "all_members": ["attr"]}[view]
        ctx.ob("R6", f"fresh|{view}", first == [] and second == want,
               f"Child({'b.Base'}).{view}: {first} before the base's package is loaded, {second} after (expected {want})", where(prog.lookup_method(ccls, view)[0]))
    it.class_stubs.pop(f"{M}.Alias", None)

    # ------------------------------------------------------------------ R7 hierarchies loaded by runtime inspection record the same bases
    # (the MRO and the inherited members of an inspected class are computed from the bases the inspector records)
    from sa.rules.C17 import inspect_class_bases_table

    inspect_class_bases_table(prog, ctx, "R7")

