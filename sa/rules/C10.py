"""C10 - No call-breaking signature change goes unreported (decision table of the parameter rule set).

The function-incompatibility generator's AST is evaluated by sa/absint.py over abstract signatures
(parameters = name x kind x default atom); the resulting table is compared with the reference
derived from CPython's own binder (`inspect.Signature.bind`) on the same abstract signatures.
No griffe code runs; the reference side is the interpreter's calling convention itself.
"""

from __future__ import annotations

import inspect
import itertools

from sa.absint import Interp, Obj, Raised, Sym
from sa.report import Ctx
from sa.srcmodel import AnalysisError, Program
from sa.util import where

KINDS = ["positional_only", "positional_or_keyword", "var_positional", "keyword_only", "var_keyword"]
IK = {
    "positional_only": inspect.Parameter.POSITIONAL_ONLY,
    "positional_or_keyword": inspect.Parameter.POSITIONAL_OR_KEYWORD,
    "var_positional": inspect.Parameter.VAR_POSITIONAL,
    "keyword_only": inspect.Parameter.KEYWORD_ONLY,
    "var_keyword": inspect.Parameter.VAR_KEYWORD,
}
VARIADIC_DEFAULT = {"var_positional": "()", "var_keyword": "{}"}  # what griffe's agents store for *args / **kwargs

Spec = tuple[str, str, "str | None"]  # (name, kind, default atom)


_fn_cache: dict[tuple, object] = {}


def _sig(params: tuple[Spec, ...]):
    """A real CPython function with the abstract signature (None when the parameter list is not valid Python).

    Calling it is the reference binder: the function is synthesised here from the abstract signature; it is not griffe code.
    """
    if params in _fn_cache:
        return _fn_cache[params]
    fn = None
    if len({n for n, _k, _d in params}) == len(params):
        ns: dict[str, object] = {}
        try:
            exec(compile(_fmt(params) + ": pass", "<abstract-signature>", "exec"), ns)  # noqa: S102
            fn = ns["f"]
            kinds = [p.kind for p in inspect.signature(fn).parameters.values()]  # type: ignore[arg-type]
            if kinds != [IK[k] for _n, k, _d in params]:
                fn = None
        except SyntaxError:
            fn = None
    _fn_cache[params] = fn
    return fn


def _signatures(names: list[str], defaults: list[str | None], max_params: int) -> list[tuple[Spec, ...]]:
    out: list[tuple[Spec, ...]] = [()]
    for n in range(1, max_params + 1):
        for ns in itertools.permutations(names, n):
            for kinds in itertools.product(KINDS, repeat=n):
                dom = [[None] if k in VARIADIC_DEFAULT else defaults for k in kinds]
                for ds in itertools.product(*dom):
                    params = tuple(zip(ns, kinds, ds))
                    if _sig(params) is not None:
                        out.append(params)
    return out


def _calls(names: list[str], max_pos: int):
    for npos in range(max_pos + 1):
        for r in range(len(names) + 1):
            for kws in itertools.combinations(names, r):
                yield npos, kws


def _binds(fn, npos: int, kws: tuple[str, ...]) -> bool:
    try:
        fn(*([0] * npos), **dict.fromkeys(kws, 0))
        return True
    except TypeError:
        return False


def _breaking_call(old: tuple[Spec, ...], new: tuple[Spec, ...]) -> str | None:
    so, sn = _sig(old), _sig(new)
    assert so is not None and sn is not None
    names = sorted({n for n, _k, _d in old} | {"zz"})
    for npos, kws in _calls(names, len(old) + 1):
        if _binds(so, npos, kws) and not _binds(sn, npos, kws):
            return f"f({', '.join(['0'] * npos + [f'{k}=0' for k in kws])})"
    return None


def _fmt(params: tuple[Spec, ...]) -> str:
    parts = []
    seen_ko = False
    for i, (n, k, d) in enumerate(params):
        star = {"var_positional": "*", "var_keyword": "**"}.get(k, "")
        if k == "keyword_only" and not seen_ko and not any(kk == "var_positional" for _n, kk, _d in params[:i]):
            parts.append("*")
            seen_ko = True
        parts.append(f"{star}{n}" + (f"={d}" if d is not None and not star else ""))
        if k == "positional_only" and (i + 1 == len(params) or params[i + 1][1] != "positional_only"):
            parts.append("/")
    return "def f(" + ", ".join(parts) + ")"


class Table:
    def __init__(self, prog: Program) -> None:
        self.prog = prog
        self.it = Interp(prog)
        self.fn = prog.function("_griffe.diff._function_incompatibilities")
        self.kind = {k: self.it.enum("_griffe.enumerations.ParameterKind", k) for k in KINDS}
        self.pcls = prog.cls("_griffe.models.Parameter")
        self.pscls = prog.cls("_griffe.models.Parameters")
        self.fcls = prog.cls("_griffe.models.Function")

    def function(self, params: tuple[Spec, ...]) -> Obj:
        ps = []
        for n, k, d in params:
            default = VARIADIC_DEFAULT.get(k, d)
            ps.append(Obj(self.pcls, {"name": n, "kind": self.kind[k], "default": default, "annotation": None, "docstring": None, "function": None}))
        plist = self.it._construct(self.pscls, ps, {})  # built by the container's own constructor: whatever state it keeps is there
        return Obj(self.fcls, {"name": "f", "parameters": plist, "returns": None, "path": "m.f"}, label="f")

    def yields(self, old: tuple[Spec, ...], new: tuple[Spec, ...]) -> list[tuple[str, Obj | None, Obj | None]]:
        self.it.steps = 0
        try:
            res = self.it.call(self.fn, self.function(old), self.function(new))
        except Raised as r:
            return [(f"<raised {r.exc}>", None, None)]
        out = []
        for b in res:
            if not isinstance(b, Obj) or b.cls is None:
                raise AnalysisError(f"C10: unexpected yield {b!r}")
            out.append((b.cls.name, b.attrs.get("old_value"), b.attrs.get("new_value")))
        return out


def run(prog: Program, ctx: Ctx) -> None:  # noqa: PLR0912,PLR0915
    tbl = Table(prog)
    fn = tbl.fn
    thorough = ctx.tier == "thorough"
    ctx.rule("Ra", "identical signatures enable no yield (silence on identity)")
    ctx.rule("Rb", "every yielded parameter breakage is sound: Removed => absent; ChangedRequired => optional->required; Moved => both "
                   "positional and index differs; ChangedKind => kinds differ; ChangedDefault => both optional, non-variadic, defaults "
                   "differ; AddedRequired => new and required")
    ctx.rule("Rc", "always-reported changes: a moved positional parameter, a changed default and optional->required each enable their yield")
    ctx.rule("Rd", "completeness against CPython's binder: whenever some call bound by the old signature fails to bind to the new one "
                   "(inspect.Signature.bind over all call shapes up to arity+1 with every keyword subset), at least one yield is enabled")
    olds = _signatures(["a", "b"], [None, "1"], 2 if thorough else 1)
    # quick: one old parameter `a` against every new signature of up to two parameters over {a, c} (insertions before/after included)
    news1 = _signatures(["a", "b", "c"] if thorough else ["a", "c"], [None, "1", "2"] if thorough else [None, "1"], 2)
    if not thorough:
        news1 += [s for s in _signatures(["a"], ["2"], 1) if s]
    if not thorough:
        # quick tier: all one-parameter transitions plus a structured sample of two-parameter ones (reordering, add, remove)
        olds2 = [s for s in _signatures(["a", "b"], [None, "1"], 2) if len(s) == 2 and all(k in ("positional_only", "positional_or_keyword", "keyword_only") for _n, k, _d in s)]
        news2 = [s for s in _signatures(["a", "b"], [None, "1"], 2) if len(s) == 2]
        pairs = [(o, n) for o in olds for n in news1] + [(o, n) for o in olds2[::3] for n in news2[::2]] + [(o, n) for o in olds2[::5] for n in news1]
    else:
        pairs = [(o, n) for o in olds for n in news1]
    # the same transitions with `*args, **kwargs` standing next to the regular parameters (a signature that "accepts anything else"): what
    # happens to the regular parameters still matters
    def wrap(sig_: tuple) -> tuple | None:
        if any(k in ("var_positional", "var_keyword") for _n, k, _d in sig_):
            return None
        posn = tuple(p_ for p_ in sig_ if p_[1] in ("positional_only", "positional_or_keyword"))
        kwo = tuple(p_ for p_ in sig_ if p_[1] == "keyword_only")
        out_ = (*posn, ("args", "var_positional", None), *kwo, ("kwargs", "var_keyword", None))
        return out_ if _sig(out_) is not None else None

    base_pairs = [(o, n) for o in _signatures(["a", "b"], [None, "1"], 1) for n in _signatures(["a", "c"], [None, "1"], 2)] + \
                 [(o, n) for o in _signatures(["a"], ["1"], 1) for n in _signatures(["a"], ["2"], 1)]
    wrapped = []
    for o, n in base_pairs:
        wo, wn = wrap(o), wrap(n)
        if wn is not None and n:
            wrapped.append((o, wn))
            if wo is not None and o:
                wrapped.append((wo, wn))
    pairs += wrapped
    ctx.analysed["pairs_with_both_variadics"] = len(wrapped)
    ctx.analysed["abstract_signature_pairs"] = len(pairs)
    n_break = n_ident = 0
    silent_seen: set[str] = set()
    loc = where(fn)
    if thorough and len(pairs) > 4000:
        import os
        from concurrent.futures import ProcessPoolExecutor

        jobs = min(16, os.cpu_count() or 4)
        chunks = [pairs[i::jobs] for i in range(jobs)]
        with ProcessPoolExecutor(max_workers=jobs) as ex:
            results = list(ex.map(_eval_chunk, [(dict(prog.overlay), c) for c in chunks]))
    else:
        results = [_eval_pairs(tbl, pairs)]
    for obs, nb, ni in results:
        n_break += nb
        n_ident += ni
        for rule, k, ok, what, detail, nontrivial in obs:
            if rule == "Rd" and not ok:
                if k in silent_seen:
                    continue
                silent_seen.add(k)
            ctx.ob(rule, k, ok, what, loc, detail, nontrivial=nontrivial)
    ctx.analysed["pairs_with_breaking_call"] = n_break
    ctx.analysed["identity_pairs"] = n_ident
    ctx.expect_min("Rd", n_break, 60)
    ctx.expect_min("Ra", n_ident, 5)

    # ------------------------------------------------------------------ the container the comparison looks parameters up in
    ctx.rule("Rf", "Parameters answers `name in params` and `params[name]` from its current contents after every history of up to three additions, "
                   "replacements and deletions (extensions edit signatures through it before the comparison runs)")
    import itertools as _it

    pcont = prog.cls("_griffe.models.Parameters")
    itp = tbl.it

    def mkp(n_: str) -> Obj:
        return Obj(tbl.pcls, {"name": n_, "kind": tbl.kind["positional_or_keyword"], "default": None, "annotation": None, "docstring": None, "function": None}, label=n_)

    def meth_(o: Obj, nm: str):
        return prog.lookup_method(o.cls, nm)[0]

    ops_ = [("look a", None), ("look session", None), ("del session", None), ("del a", None), ("add session", None), ("add z", None), ("set a", None)]
    n_hist = 0
    bad_seen: set[str] = set()
    for hist in _it.chain(_it.product(ops_, repeat=2), _it.product(ops_, repeat=3)):
        itp.steps = 0  # the step budget is a per-history guard against non-termination, not a total
        cont = itp._construct(pcont, [mkp("a"), mkp("session")], {})
        model = ["a", "session"]
        problem = None
        labels_ = [h_[0] for h_ in hist]
        try:
            for lab, _x in hist:
                verb, nm_ = lab.split(" ")
                if verb == "look":
                    itp.call(meth_(cont, "__contains__"), cont, nm_)
                elif verb == "del":
                    if nm_ not in model:
                        break
                    itp.call(meth_(cont, "__delitem__"), cont, nm_)
                    model.remove(nm_)
                elif verb == "add":
                    if nm_ in model:
                        break
                    itp.call(meth_(cont, "add"), cont, mkp(nm_))
                    model.append(nm_)
                elif verb == "set":
                    itp.call(meth_(cont, "__setitem__"), cont, nm_, mkp(nm_))
                    if nm_ not in model:
                        model.append(nm_)  # setting a name that is not there appends it
                for probe in ("a", "session", "z"):
                    has = itp.truth(itp.call(meth_(cont, "__contains__"), cont, probe))
                    try:
                        got_p = itp.call(meth_(cont, "__getitem__"), cont, probe)
                        found = isinstance(got_p, Obj) and got_p.attrs.get("name") == probe
                    except Raised as r:
                        found = False if r.exc == "KeyError" else f"raises {r.exc}"
                    if has != (probe in model) or found != (probe in model):
                        problem = f"after {labels_[:labels_.index(lab) + 1]}: `{probe} in params` is {has}, params[{probe!r}] {'found' if found is True else found}; the container holds {model}"
                        break
                if problem:
                    break
        except Raised as r:
            problem = f"{labels_} raises {r.exc}"
        n_hist += 1
        if problem:
            cls_k = problem.split(": ", 1)[-1][:60]
            if cls_k in bad_seen:
                continue
            bad_seen.add(cls_k)
        ctx.ob("Rf", f"container|{' ; '.join(labels_)}" if not problem else f"container-class|{problem.split(': ', 1)[-1][:60]}", problem is None,
               problem or f"after {labels_}: membership and lookup agree with the contents", where(meth_(itp._construct(pcont, [], {}), "__getitem__")))
    ctx.expect_min("Rf", n_hist, 300)

    # ------------------------------------------------------------------ Rg expression-valued defaults
    ctx.rule("Rg", "a default is what the visitor stores: an expression for anything but a literal. Two defaults that differ as source (another argument, another "
                   "key, another attribute) are a changed default and are reported; the same source on both sides is not")
    import ast as _ast

    gex = prog.function("_griffe.expressions.get_expression")
    mcls = prog.cls("_griffe.models.Module")
    texts = ["Point(0, 0)", "Point(1, 1)", "Point(0, 0, z=1)", "dict(w=1)", "dict(w=2, h=3)", "LIMITS['low']", "LIMITS['high']", "cfg.low", "cfg.high", "(1, 2)", "(1, 3)", "[]", "[0]", "-1", "-2"]

    def expr_of(text_: str, module_: Obj) -> object:
        return tbl.it.call(gex, _ast.parse(text_, mode="eval").body, parent=module_)

    n_g = 0
    for t_old, t_new in _it.product(texts, repeat=2):
        mo_, mn_ = tbl.it._construct(mcls, ["m"], {}), tbl.it._construct(mcls, ["m"], {})
        tbl.it.steps = 0
        try:
            fo_, fn_ = (Obj(tbl.fcls, {"name": "f", "path": "m.f", "returns": None, "parameters": tbl.it._construct(tbl.pscls, [
                Obj(tbl.pcls, {"name": "a", "kind": tbl.kind["positional_or_keyword"], "default": expr_of(t_, m_), "annotation": None, "docstring": None, "function": None})], {})}, label="f")
                for t_, m_ in ((t_old, mo_), (t_new, mn_)))
            names_g = sorted({b.cls.name for b in tbl.it.call(fn, fo_, fn_)})
        except Raised as r:
            names_g = [f"<raised {r.exc}>"]
        want_g = [] if t_old == t_new else ["ParameterChangedDefaultBreakage"]
        n_g += 1
        ctx.ob("Rg", f"default-expression|{t_old} -> {t_new}", names_g == want_g,
               f"`def f(a={t_old})` -> `def f(a={t_new})`: reported {names_g or 'nothing'}, expected {want_g or 'nothing'}", where(fn))
    ctx.expect_min("Rg", n_g, 200)

    # ------------------------------------------------------------------ returns table
    ctx.rule("Re", "_returns_are_compatible: None -> anything is compatible, anything -> None is not")
    rc = prog.function("_griffe.diff._returns_are_compatible")
    it = Interp(prog)
    fcls = prog.cls("_griffe.models.Function")
    for o, n, want in ((None, None, True), (None, "int", True), ("int", None, False), ("int", "int", True)):
        got = it.call(rc, Obj(fcls, {"returns": o}), Obj(fcls, {"returns": n}))
        ctx.ob("Re", f"returns|{o}->{n}", bool(got) is want, f"returns {o} -> {n}: compatible={got}, expected {want}", where(rc))


def _transition_class(old: tuple, new: tuple) -> str:
    """Abstract root-cause class of a silent transition: the set of kind transitions (defaults ignored) + the new variadics."""
    nb = {n: (k, d) for n, k, d in new}
    parts = set()
    for n, k, d in old:
        if n in nb:
            nk, nd = nb[n]
            if k != nk:
                parts.add(f"{k}->{nk}")
            elif (d is None) != (nd is None):
                parts.add(f"{k}:{'required' if d is None else 'optional'}->{'required' if nd is None else 'optional'}")
        else:
            parts.add(f"{k}->absent")
    for n, k, _d in new:
        if n not in {x[0] for x in old}:
            parts.add(f"+{k}")
    has = sorted({k for _n, k, _d in new if k in VARIADIC_DEFAULT})
    return ";".join(sorted(parts)) + ("|new has " + ",".join(has) if has else "")


def _eval_chunk(arg):
    overlay, pairs = arg
    prog = Program(overlay=overlay or None)
    return _eval_pairs(Table(prog), pairs)


def _eval_pairs(tbl: Table, pairs):  # noqa: PLR0912
    """-> (obligation tuples (rule, key, ok, what, detail, nontrivial), #pairs with a breaking call, #identity pairs)"""
    obs: list[tuple] = []
    n_break = n_ident = 0
    pos = ("positional_only", "positional_or_keyword")
    for old, new in pairs:
        ys = tbl.yields(old, new)
        names = [y[0] for y in ys]
        okey = f"{_fmt(old)} -> {_fmt(new)}"
        if any(n.startswith("<raised") for n in names):
            obs.append(("Rb", f"raise|{okey}", False, f"the comparison raises {names} on {okey}", None, True))
            continue
        param_ys = [y for y in ys if y[0].startswith("Parameter")]
        if old == new:
            n_ident += 1
            obs.append(("Ra", f"identity|{_fmt(old)}", not ys, f"identical signature {_fmt(old)} yields {names or 'nothing'}", None, bool(old)))
        old_by = {n: (i, k, d) for i, (n, k, d) in enumerate(old)}
        new_by = {n: (i, k, d) for i, (n, k, d) in enumerate(new)}
        for kind, ov, nv in param_ys:
            pname = (ov or nv).attrs["name"] if isinstance(ov or nv, Obj) else None  # type: ignore[union-attr]
            o, n = old_by.get(pname), new_by.get(pname)
            oreq = o is not None and o[2] is None and o[1] not in VARIADIC_DEFAULT
            nreq = n is not None and n[2] is None and n[1] not in VARIADIC_DEFAULT
            sound = {
                "ParameterRemovedBreakage": o is not None and n is None,
                "ParameterChangedRequiredBreakage": o is not None and n is not None and (not oreq) and nreq,
                "ParameterMovedBreakage": o is not None and n is not None and o[1] in pos and n[1] in pos and o[0] != n[0],
                "ParameterChangedKindBreakage": o is not None and n is not None and o[1] != n[1],
                "ParameterChangedDefaultBreakage": o is not None and n is not None and not oreq and not nreq
                and o[1] not in VARIADIC_DEFAULT and n[1] not in VARIADIC_DEFAULT and o[2] != n[2],
                "ParameterAddedRequiredBreakage": o is None and n is not None and nreq,
            }.get(kind)
            if sound is None:
                raise AnalysisError(f"C10: unknown breakage class {kind}")
            obs.append(("Rb", f"{kind}|{okey}", sound,
                        f"{kind}({pname}) reported for {okey}" + ("" if sound else " although that aspect did not change"), None, True))
        for pname, (oi, ok_, od) in old_by.items():
            if pname not in new_by:
                continue
            ni, nk, nd = new_by[pname]
            oreq = od is None and ok_ not in VARIADIC_DEFAULT
            nreq = nd is None and nk not in VARIADIC_DEFAULT
            if ok_ in pos and nk in pos and oi != ni:
                obs.append(("Rc", f"moved|{okey}", "ParameterMovedBreakage" in names, f"moved positional `{pname}` in {okey} must be reported", None, True))
            if not oreq and not nreq and ok_ not in VARIADIC_DEFAULT and nk not in VARIADIC_DEFAULT and od != nd:
                obs.append(("Rc", f"default|{okey}", "ParameterChangedDefaultBreakage" in names, f"changed default of `{pname}` in {okey} must be reported", None, True))
            if not oreq and nreq:
                obs.append(("Rc", f"required|{okey}", "ParameterChangedRequiredBreakage" in names, f"`{pname}` became required in {okey}: must be reported", None, True))
        call = _breaking_call(old, new)
        if call is not None:
            n_break += 1
            silent = not ys
            cls = _transition_class(old, new) if silent else ""
            obs.append(("Rd", f"silent|{cls}" if silent else f"reported|{okey}", not silent,
                        f"{okey}: `{call}` binds to the old signature and not to the new one"
                        + (", yet nothing is reported" if silent else f"; reported {sorted(set(names))}"),
                        {"old": _fmt(old), "new": _fmt(new), "call": call}, True))
    return obs, n_break, n_ident
