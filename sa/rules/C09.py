"""C09 - Full JSON dumps conform to the published schema (schema/writer agreement, structural part).

R1 required / allowed keys and JSON types of the full writers vs docs/schema.json, per object kind, alias, docstring, decorator,
   parameter and docstring section; R2 no raising getter among the values the full writer evaluates.
"""

from __future__ import annotations

import ast
import re
import json

from sa.callgraph import CallGraph
from sa.excflow import ExcFlow
from sa.report import Ctx
from sa.srcmodel import AnalysisError, ClassInfo, FunctionInfo, Program, dotted, norm, unparse, walk_no_nested
from sa.tables.serial import WKey, writer_keys
from sa.util import calls_in, where

M = "_griffe.models"


def json_types_of_annotation(prog: Program, mod, ann: ast.AST | str | None) -> set[str]:
    """JSON type names a value of the declared Python type serialises to (through JSONEncoder)."""
    if ann is None:
        return {"any"}
    if isinstance(ann, str):
        try:
            ann = ast.parse(ann, mode="eval").body
        except SyntaxError:
            return {"any"}
    if isinstance(ann, ast.Constant):
        if ann.value is None:
            return {"null"}
        if isinstance(ann.value, str):
            return json_types_of_annotation(prog, mod, ann.value)
    if isinstance(ann, ast.BinOp) and isinstance(ann.op, ast.BitOr):
        return json_types_of_annotation(prog, mod, ann.left) | json_types_of_annotation(prog, mod, ann.right)
    if isinstance(ann, ast.Subscript):
        head = (dotted(ann.value) or "").split(".")[-1]
        if head in ("Optional",):
            return json_types_of_annotation(prog, mod, ann.slice) | {"null"}
        if head in ("Union",):
            out: set[str] = set()
            for e in (ann.slice.elts if isinstance(ann.slice, ast.Tuple) else [ann.slice]):
                out |= json_types_of_annotation(prog, mod, e)
            return out
        if head in ("list", "List", "set", "Set", "tuple", "Tuple", "Sequence", "frozenset"):
            return {"array"}
        if head in ("dict", "Dict", "Mapping"):
            return {"object"}
        return json_types_of_annotation(prog, mod, ann.value)
    name = (dotted(ann) or "").split(".")[-1]
    table = {"int": {"integer"}, "str": {"string"}, "bool": {"boolean"}, "float": {"number"}, "None": {"null"}, "list": {"array"}, "set": {"array"},
             "dict": {"object"}, "Path": {"string"}, "Any": {"any"}, "Expr": {"object"}, "tuple": {"array"}}
    if name in table:
        return table[name]
    full = prog.resolve(mod, dotted(ann) or "") if dotted(ann) else None
    if full in prog.classes:
        c = prog.classes[full]
        bases = {b.split(".")[-1] for k in prog.mro(c) for b in k.base_names}
        if "Enum" in bases:
            return {"string"}
        if any(k.name == "Expr" for k in prog.mro(c)):
            return {"object"}
        if prog.lookup_method(c, "as_dict"):
            return {"object"}
    return {"any"}


def declared_type(prog: Program, cls: ClassInfo, attr: str) -> tuple[object, ast.AST | None]:
    for c in prog.mro(cls):
        for defs in c.methods.values():
            for m in defs:
                if m.name == attr and m.is_property and not m.is_setter:
                    return c.module, m.node.returns
        for m in c.methods.get("__init__", []):
            for n in walk_no_nested(m.node):
                if isinstance(n, ast.AnnAssign) and isinstance(n.target, ast.Attribute) and dotted(n.target) == f"self.{attr}":
                    return c.module, n.annotation
        if attr in c.class_annots:
            return c.module, c.class_annots[attr]
    return cls.module, None


def value_types(prog: Program, cls: ClassInfo, w: WKey) -> set[str]:
    out: set[str] = set()
    for v in w.values:
        if isinstance(v, ast.Constant):
            out |= {"null"} if v.value is None else {"string"} if isinstance(v.value, str) else {"integer"} if isinstance(v.value, int) else {"any"}
        elif isinstance(v, (ast.ListComp, ast.List)):
            out.add("array")
        elif isinstance(v, (ast.DictComp, ast.Dict)):
            out.add("object")
        elif isinstance(v, ast.Call) and dotted(v.func) == "str":
            out.add("string")
        elif isinstance(v, ast.Attribute) and dotted(v.value) == "self":
            mod, ann = declared_type(prog, cls, v.attr)
            t = json_types_of_annotation(prog, mod, ann)
            # a dominating `is not None` / truthiness guard on the same attribute removes null
            guard = any(c in (f"self.{v.attr} is not None", f"self.{v.attr}") or c == f"not (self.{v.attr} is None)" for c in w.conds)
            if guard:
                t = t - {"null"}
            out |= t
        elif isinstance(v, ast.Attribute):
            out.add("any")
        else:
            out.add("any")
    return out


def schema_types(spec: dict, root: dict) -> set[str]:
    if not isinstance(spec, dict):
        return {"any"}
    if "$ref" in spec:
        ref = spec["$ref"]
        if ref == "#":
            return {"object"}
        node = root
        for part in ref.lstrip("#/").split("/"):
            node = node[part]
        return schema_types(node, root)
    if "oneOf" in spec or "anyOf" in spec:
        out: set[str] = set()
        for alt in spec.get("oneOf", []) + spec.get("anyOf", []):
            out |= schema_types(alt, root)
        return out
    if "const" in spec or "enum" in spec:
        return {"string"}
    t = spec.get("type")
    if t is None:
        return {"any"}
    return set(t) if isinstance(t, list) else {t}


def run(prog: Program, ctx: Ctx) -> None:  # noqa: PLR0912,PLR0915
    path = prog.root / "docs" / "schema.json"
    if not path.exists():
        raise AnalysisError("docs/schema.json vanished")
    text = prog.overlay.get("docs/schema.json") or path.read_text()
    schema = json.loads(text)
    alts = schema.get("oneOf", [])
    alias_alt = next((a for a in alts if a.get("properties", {}).get("kind", {}).get("const") == "alias"), None)
    obj_alt = next((a for a in alts if "enum" in a.get("properties", {}).get("kind", {})), None)
    if alias_alt is None or obj_alt is None:
        raise AnalysisError("C09: schema alternatives (alias / object) not recognised")
    loc = "docs/schema.json"

    ctx.rule("R1", "per kind: schema-required keys are always written by as_dict(full=True); written keys are declared by the schema; the JSON "
                   "types a value can take (from declared attribute types, narrowed by guards) are allowed by the schema; enum values the "
                   "code can write are listed")
    then_props: dict[str, dict] = {}
    then_req: dict[str, list] = {}
    for cond in obj_alt.get("allOf", []):
        k = cond.get("if", {}).get("properties", {}).get("kind", {}).get("const")
        if k:
            then_props[k] = cond.get("then", {}).get("properties", {})
            then_req[k] = cond.get("then", {}).get("required", [])

    def check(label: str, cls: ClassInfo, wk: dict[str, WKey], props: dict, required: list, closed: bool, where_: str) -> None:
        for r in required:
            w = wk.get(r)
            ok = w is not None and w.always
            ctx.ob("R1", f"{label}|required|{r}", ok, f"schema requires `{r}` for {label} and the writer always emits it" if ok else
                   f"schema requires `{r}` for {label} but the writer " + ("never writes it" if w is None else f"omits it unless {w.conds}"), where_)
        for k, w in sorted(wk.items()):
            if closed or k in props:
                ctx.ob("R1", f"{label}|declared|{k}", k in props, f"`{k}` written for {label} is declared by the schema" if k in props else
                       f"the writer emits `{k}` for {label}, which the schema (additionalProperties: false) does not allow", w.owner)
            if k in props:
                wt = value_types(prog, cls, w)
                st = schema_types(props[k], schema)
                if "any" in wt or "any" in st:
                    continue
                extra = wt - st - ({"integer"} if "number" in st else set())
                ctx.ob("R1", f"{label}|type|{k}", not extra, f"`{k}` of {label}: writer types {sorted(wt)} within schema types {sorted(st)}" if not extra else
                       f"`{k}` of {label} can be serialised as {sorted(extra)} but the schema only allows {sorted(st)}", w.owner)

    # objects
    kinds = obj_alt["properties"]["kind"]["enum"]
    kind_enum = {v.value for m, v in prog.cls("_griffe.enumerations.Kind").class_attrs.items() if isinstance(v, ast.Constant)}
    ctx.ob("R1", "kinds", set(kinds) | {"alias"} == kind_enum, f"schema kinds {sorted(kinds)} + alias = Kind values {sorted(kind_enum)}", loc)
    for k in kinds:
        cls = prog.cls(f"{M}.{k.capitalize()}")
        wk = writer_keys(prog, cls, full=True)
        props = {**obj_alt["properties"], **then_props.get(k, {})}
        check(k, cls, wk, props, list(obj_alt.get("required", [])) + list(then_req.get(k, [])), obj_alt.get("additionalProperties") is False, loc)
    # alias
    acl = prog.cls(f"{M}.Alias")
    check("alias", acl, writer_keys(prog, acl, full=True), alias_alt["properties"], alias_alt.get("required", []), alias_alt.get("additionalProperties") is False, loc)
    # docstring
    dsp = obj_alt["properties"].get("docstring", {})
    dcl = prog.cls(f"{M}.Docstring")
    check("docstring", dcl, writer_keys(prog, dcl, full=True), dsp.get("properties", {}), dsp.get("required", []), dsp.get("additionalProperties") is False, loc)
    # decorator / parameter items
    dec = then_props.get("class", {}).get("decorators", {}).get("items", {})
    ccl = prog.cls(f"{M}.Decorator")
    wk = writer_keys(prog, ccl)
    # decorators are only built by the visitor from ast nodes: their line numbers are integers (checked), whatever the declared Optional says
    ctor_sites = [c for f in prog.functions.values() for c in calls_in(f.node) if prog.resolve(f.module, dotted(c.func) or "") == f"{M}.Decorator" and f.module.name != "_griffe.encoders"]
    from sa.util import kwarg

    all_int = bool(ctor_sites) and all(isinstance(kwarg(c, "lineno"), ast.Attribute) and kwarg(c, "lineno").attr == "lineno" for c in ctor_sites)
    ctx.ob("R1", "decorator|lineno-provenance", all_int, "every Decorator built by griffe takes its lineno from an ast node (an integer)", loc)
    if all_int:
        for key_ in ("lineno", "endlineno"):
            if key_ in wk:
                wk[key_].values = [ast.Constant(1)]
    check("decorator", ccl, wk, dec.get("properties", {}), dec.get("required", []), dec.get("additionalProperties") is False, loc)
    par = then_props.get("function", {}).get("parameters", {}).get("items", {})
    pcl = prog.cls(f"{M}.Parameter")
    pwk = writer_keys(prog, pcl)
    # Parameter.kind is declared Optional, but every Parameter built by the agents and the dataclasses extension passes a kind (checked)
    psites = [(f, c) for f in prog.functions.values() if f.module.name in ("_griffe.agents.visitor", "_griffe.agents.inspector", "_griffe.extensions.dataclasses")
              for c in calls_in(f.node) if prog.resolve(f.module, dotted(c.func) or "") == f"{M}.Parameter"]
    kinded = bool(psites) and all(kwarg(c, "kind") is not None and not (isinstance(kwarg(c, "kind"), ast.Constant) and kwarg(c, "kind").value is None) for _f, c in psites)
    ctx.ob("R1", "parameter|kind-provenance", kinded, f"every Parameter built while loading ({len(psites)} sites) is given a kind", loc)
    # where the kind is computed locally (the dataclasses extension) it is a ParameterKind member on every path: a table lookup with a default, a
    # `.get()` or a conditional with a None branch would put `null` in the dump (the agents' kinds are decided on behaviour by C02-R1 / C17-R4)
    from sa.util import stores_of

    def never_none(fn: FunctionInfo, e: ast.AST | None, depth: int = 0) -> bool:
        if e is None or depth > 4:
            return False
        if isinstance(e, ast.Attribute) and (dotted(e) or "").split(".")[-2:-1] == ["ParameterKind"]:
            return True
        if isinstance(e, ast.IfExp):
            return never_none(fn, e.body, depth + 1) and never_none(fn, e.orelse, depth + 1)
        if isinstance(e, ast.Name):
            defs = [st for st in stores_of(fn.node, e.id)]
            return bool(defs) and all(isinstance(st, ast.Assign) and never_none(fn, st.value, depth + 1) for st in defs)
        if isinstance(e, ast.Subscript) and isinstance(e.value, ast.Name):
            tbl = fn.module.assigns.get(e.value.id)
            return isinstance(tbl, ast.Dict) and all(never_none(fn, v, depth + 1) for v in tbl.values)
        if isinstance(e, ast.Call) and dotted(e.func):
            g = prog.functions.get(prog.resolve(fn.module, dotted(e.func) or ""))
            if g is not None:
                rets = [r_ for r_ in walk_no_nested(g.node) if isinstance(r_, ast.Return)]
                return bool(rets) and all(never_none(g, r_.value, depth + 1) for r_ in rets)
        return False

    for f_, c_ in psites:
        if f_.module.name == "_griffe.extensions.dataclasses":
            ctx.ob("R1", f"parameter|kind-never-null|{f_.name}|{norm(kwarg(c_, 'kind'), 40)}", never_none(f_, kwarg(c_, "kind")),
                   f"the kind given to the synthesised parameter in {f_.name} (`{norm(kwarg(c_, 'kind'), 60)}`) is a ParameterKind member on every path", where(f_, c_))
    if kinded and "kind" in pwk:
        pwk["kind"].values = [ast.Constant("kind")]
    check("parameter", pcl, pwk, par.get("properties", {}), par.get("required", []), par.get("additionalProperties") is False, loc)
    # docstring sections
    sec = dsp.get("properties", {}).get("parsed", {}).get("items", {})
    enum_vals = set(sec.get("properties", {}).get("kind", {}).get("enum", []))
    dsk = prog.cls("_griffe.enumerations.DocstringSectionKind")
    code_vals = {v.value for m, v in dsk.class_attrs.items() if isinstance(v, ast.Constant)}
    # only kinds that some section class actually carries can be written
    dm = prog.module("_griffe.docstrings.models")
    base = prog.cls("_griffe.docstrings.models.DocstringSection")
    written: dict[str, ClassInfo] = {}
    for c in prog.subclasses(base):
        v = c.class_attrs.get("kind")
        if v is not None and (dotted(v) or "").startswith("DocstringSectionKind."):
            member = (dotted(v) or "").split(".")[-1]
            val = dsk.class_attrs.get(member)
            if isinstance(val, ast.Constant):
                written[val.value] = c
    for val, c in sorted(written.items()):
        ctx.ob("R1", f"section-kind|{val}", val in enum_vals, f"section kind `{val}` ({c.name}) is listed in the schema enum" if val in enum_vals else
               f"{c.name} writes kind `{val}`, which the schema's section-kind enum does not list: a docstring with such a section fails validation",
               f"{c.module.relpath}:{c.node.lineno}")
        # value type of the section
        mod, ann = declared_type(prog, c, "value")
        wt = json_types_of_annotation(prog, mod, ann)
        st = schema_types(sec.get("properties", {}).get("value", {}), schema)
        if "any" not in wt and "any" not in st:
            extra = wt - st
            ctx.ob("R1", f"section-value|{val}", not extra, f"`{val}` section value types {sorted(wt)} within schema {sorted(st)}" if not extra else
                   f"`{val}` section value serialises as {sorted(extra)} but the schema only allows {sorted(st)}", f"{c.module.relpath}:{c.node.lineno}")
    ctx.expect_min("R1", len(written), 14)
    # what as_dict really puts under "kind" for each section class (the writer evaluated on an empty section)
    from sa.absint import Interp as _Interp
    from sa.absint import Obj as _Obj
    from sa.absint import Raised as _Raised

    its = _Interp(prog)
    for val, c in sorted(written.items()):
        sec_obj = _Obj(c, {"value": [], "title": None}, label=c.name)
        try:
            d = its.call(prog.lookup_method(c, "as_dict")[0], sec_obj)
            got_kind = d.get("kind") if isinstance(d, dict) else repr(d)
        except _Raised as r:
            got_kind = f"raises {r.exc}"
        ctx.ob("R1", f"section-kind-written|{val}", got_kind in enum_vals and got_kind == val, f"{c.name}.as_dict() writes kind {got_kind!r}; the schema lists {val!r}", f"{c.module.relpath}:{c.node.lineno}")
    # ... and on a section holding what the parsers put there (the declared type of `value`): the writer returns plain data, whatever the element type
    def _sample(c_: ClassInfo) -> object:
        _m, ann_ = declared_type(prog, c_, "value")
        txt = unparse(ann_) if ann_ is not None else ""
        if "tuple[" in txt:
            return [("text", "Some text."), ("examples", ">>> 1 + 1")]
        inner = re.search(r"list\[(Docstring\w+)\]", txt)
        name_ = inner.group(1) if inner else (txt if txt.startswith("Docstring") else None)
        if name_ is None:
            return "Some text."
        ecls_ = prog.cls(f"_griffe.docstrings.models.{name_}")
        init_ = prog.lookup_method(ecls_, "__init__")[0]
        a_ = init_.node.args
        req = [x.arg for x in a_.args[1:len(a_.args) - len(a_.defaults)]]
        kwreq = {x.arg: "d" for x, dflt in zip(a_.kwonlyargs, a_.kw_defaults) if dflt is None}
        el = its._construct(ecls_, ["n"] * len(req), kwreq)
        return [el] if inner else el

    def _plain(x: object) -> bool:
        return x is None or isinstance(x, (str, int, float, bool)) or (isinstance(x, (list, tuple)) and all(_plain(y) for y in x)) or (
            isinstance(x, dict) and all(isinstance(k_, str) and _plain(v_) for k_, v_ in x.items())) or (isinstance(x, _Obj) and x.cls is not None and bool(prog.lookup_method(x.cls, "as_dict")))

    n_filled = 0
    for val, c in sorted(written.items()):
        try:
            sec_obj = _Obj(c, {"value": _sample(c), "title": None}, label=c.name)
            d = its.call(prog.lookup_method(c, "as_dict")[0], sec_obj)
            okf, msg = isinstance(d, dict) and _plain(d.get("value")), f"writes value {d.get('value') if isinstance(d, dict) else d!r}"
        except _Raised as r:
            okf, msg = False, f"raises {r.exc} (the encoder takes an AttributeError for 'no as_dict' and gives up on the section: no document is produced)"
        n_filled += 1
        ctx.ob("R1", f"section-filled-written|{val}", okf, f"{c.name}.as_dict() on a section holding its declared kind of value {msg}", f"{c.module.relpath}:{c.node.lineno}")
    ctx.expect_min("R1", n_filled, 14)
    swk = writer_keys(prog, base)
    for r in sec.get("required", []):
        ctx.ob("R1", f"section|required|{r}", r in swk and swk[r].always, f"section dicts always carry `{r}`", loc)

    # ------------------------------------------------------------------ R2
    ctx.rule("R2", "the getters evaluated by the full writer do not raise for objects loaded from disk")
    cg = CallGraph(prog)
    ef = ExcFlow(prog, cg, None)
    ocl = prog.cls(f"{M}.Object")
    wk = writer_keys(prog, ocl)
    getters = []
    for k, w in wk.items():
        if w.full_only:
            for v in w.values:
                if isinstance(v, ast.Attribute) and dotted(v.value) == "self":
                    for m in prog.lookup_method(ocl, v.attr):
                        if m.is_property:
                            getters.append((k, m))
    ef.compute([m for _k, m in getters])
    ctx.expect_min("R2", len(getters), 3)
    TABLED_GETTERS = {
        "relative_package_filepath": "defensive raise: the loader derives a module's file from its package's own directories, so one of the package "
                                     "directories is a prefix - except for a stub-only sub-module merged in from a stubs package that lives in another "
                                     "search path (row below, an open finding)",
    }
    # the tabled claim is backed by a table: the getter evaluated on the layouts the loader produces
    from pathlib import PurePosixPath as _PP

    itg = _Interp(prog)
    mcls = prog.cls(f"{M}.Module")
    rpf = prog.lookup_method(mcls, "relative_package_filepath")[0]
    layouts = {
        "module of a regular package": (_PP("/s/pkg/__init__.py"), _PP("/s/pkg/sub/m.py"), "pkg/sub/m.py"),
        "regular package itself": (_PP("/s/pkg/__init__.py"), _PP("/s/pkg/__init__.py"), "pkg/__init__.py"),
        "module in the second portion of a namespace package": ([_PP("/p1/nsp"), _PP("/p2/nsp")], _PP("/p2/nsp/m.py"), "nsp/m.py"),
        "namespace package itself": ([_PP("/p1/nsp"), _PP("/p2/nsp")], [_PP("/p1/nsp"), _PP("/p2/nsp")], "nsp"),
        "namespace sub-package present in both portions": ([_PP("/p1/nsp"), _PP("/p2/nsp")], [_PP("/p1/nsp/plugins"), _PP("/p2/nsp/plugins")], "nsp/plugins"),
        "namespace sub-package present in the second portion only": ([_PP("/p1/nsp"), _PP("/p2/nsp")], [_PP("/p2/nsp/plugins/ext")], "nsp/plugins/ext"),
        "namespace sub-package present in the first portion only": ([_PP("/p1/nsp"), _PP("/p2/nsp")], [_PP("/p1/nsp/plugins")], "nsp/plugins"),
        "stub-only sub-module merged from a stubs package in another search path": (_PP("/a/spkg/__init__.py"), _PP("/b/spkg-stubs/extra.pyi"), "<any path, no exception>"),
    }
    for label, (pkg_path, own_path, want) in layouts.items():
        package = _Obj(mcls, {"name": "top", "_filepath": pkg_path, "parent": None}, label="package")
        package.attrs["package"] = package
        me = package if own_path is pkg_path or own_path == pkg_path else _Obj(mcls, {"name": "x", "_filepath": own_path, "parent": package, "package": package}, label="module")
        try:
            got = str(itg.getattr(me, "relative_package_filepath"))
        except _Raised as r:
            got = f"raises {r.exc}"
        ctx.ob("R2", f"relative_package_filepath|{label}", got == want or (want.startswith("<any") and not got.startswith("raises")),
               f"{label}: relative_package_filepath = {got}; expected {want}", where(rpf))
    # an alias is written from its own fields: nothing in Alias.as_dict may follow the alias (a resolved first link says nothing about the rest of the
    # chain - aliases created by wildcard expansion are linked to members that may themselves be unresolvable imports)
    for ad_ in prog.lookup_method(prog.cls(f"{M}.Alias"), "as_dict"):
        ef.compute([ad_])
        esc_a = {e: r for e, r in ef.escapes(ad_).items() if e in ("AliasResolutionError", "CyclicAliasError")}
        ctx.ob("R2", "alias-writer|follows-no-alias", not esc_a, "Alias.as_dict raises no alias error (may-raise summary over the call graph)" if not esc_a else
               f"Alias.as_dict can raise {sorted(esc_a)} ({next(iter(esc_a.values())).describe()}): one alias with a broken chain aborts the whole full dump", where(ad_))
    # relative_filepath is relative to the working directory *now*: a process that dumps one project, changes directory and dumps another gets both right
    cwd_now = [_PP("/work/one")]
    itg.ext_handlers["pathlib.Path.cwd"] = lambda _i: cwd_now[0]
    rfp = prog.lookup_method(mcls, "relative_filepath")[0]
    seq = []
    try:
        for cwd_, file_ in ((_PP("/work/one"), _PP("/work/one/pkg/__init__.py")), (_PP("/work/two"), [_PP("/work/two/nsp")]), (_PP("/work/two"), _PP("/work/two/other/m.py"))):
            cwd_now[0] = cwd_
            mod_ = _Obj(mcls, {"name": "x", "_filepath": file_, "parent": None}, label="module")
            seq.append(str(itg.getattr(mod_, "relative_filepath")))
    except _Raised as r:
        seq.append(f"raises {r.exc}")
    itg.ext_handlers.pop("pathlib.Path.cwd", None)
    ctx.ob("R2", "relative_filepath|follows the working directory", seq == ["pkg/__init__.py", "nsp", "other/m.py"],
           f"a package dumped from /work/one, then (after a change of directory) a namespace package and a module from /work/two: relative_filepath = {seq}; "
           "expected ['pkg/__init__.py', 'nsp', 'other/m.py']", where(rfp))
    for k, m in getters:
        esc = {e: r for e, r in ef.escapes(m).items() if r.fn == m.qualname}  # raised by the getter itself
        if esc and m.name in TABLED_GETTERS:
            ctx.ob("R2", f"getter|{k}", True, f"tabled: {TABLED_GETTERS[m.name]}", where(m))
            continue
        ctx.ob("R2", f"getter|{k}", not esc, f"Object.{m.name} (written as `{k}` in full dumps) raises nothing itself" if not esc else
               f"Object.{m.name}, evaluated for every object in a full dump, raises {sorted(esc)} ({next(iter(esc.values())).describe()})", where(m))

    # ------------------------------------------------------------------ R3 what runtime inspection puts in value / default slots is text
    from sa.rules.C17 import inspected_values_table

    inspected_values_table(prog, ctx, "R3")

