"""C02 - Function signatures equal CPython's view of the same definition (structural part).

R1 parameter alignment: get_parameters' AST is evaluated (sa/absint) on the real `ast.arguments` node of every parameter-list *shape*
   up to two positional-only, two positional-or-keyword and two keyword-only parameters with every default pattern and with/without
   *args/**kwargs; the result is compared with CPython's introspection of a function compiled from the same text.
R2 consumer agreement, R3 kind maps and required-ness, R4 overload / setter / deleter typestate in handle_function.
"""

from __future__ import annotations

import ast
import inspect
import itertools

from sa.absint import Interp, Obj, Raised, Sym
from sa.report import Ctx
from sa.srcmodel import AnalysisError, Program, dotted, norm, unparse, walk_no_nested
from sa.util import calls_in, cfg_of, key, kwarg, node_index, where

KIND_NAME = {
    inspect.Parameter.POSITIONAL_ONLY: "positional_only",
    inspect.Parameter.POSITIONAL_OR_KEYWORD: "positional_or_keyword",
    inspect.Parameter.VAR_POSITIONAL: "var_positional",
    inspect.Parameter.KEYWORD_ONLY: "keyword_only",
    inspect.Parameter.VAR_KEYWORD: "var_keyword",
}


def shapes(max_pos: int, max_kw: int):
    """Texts of parameter lists: every count/default pattern; names p*, a*, k*; annotation and default constants are unique."""
    for npos, narg, nkw in itertools.product(range(max_pos + 1), range(max_pos + 1), range(max_kw + 1)):
        for ndef in range(npos + narg + 1):
            for vararg, kwarg_ in itertools.product((False, True), repeat=2):
                for mask in itertools.product((False, True), repeat=nkw):
                    parts = []
                    names = [f"p{i}" for i in range(npos)] + [f"a{i}" for i in range(narg)]
                    first_default = len(names) - ndef
                    uid = 100
                    for i, n in enumerate(names):
                        uid += 1
                        parts.append(f"{n}: {uid}" + (f" = {uid + 500}" if i >= first_default else ""))
                        if i == npos - 1:
                            parts.append("/")
                    if vararg:
                        parts.append("*va: 301")
                    elif nkw:
                        parts.append("*")
                    for i, has in enumerate(mask):
                        uid += 1
                        parts.append(f"k{i}: {uid}" + (f" = {uid + 500}" if has else ""))
                    if kwarg_:
                        parts.append("**kw: 302")
                    yield ", ".join(parts)


def alignment_table(prog: Program, ctx: Ctx, rule: str, max_pos: int, max_kw: int, min_shapes: int):
    """Rule body shared with C17: get_parameters vs inspect.signature on every parameter-list shape.  Returns the observed tuple layout."""
    gp = prog.function("_griffe.agents.nodes.parameters.get_parameters")
    it = Interp(prog)
    ctx.rule(rule, "get_parameters (abstractly evaluated on the real ast.arguments of each parameter-list shape) lists the same names, order, "
                   "kinds, annotations and defaults-per-parameter as inspect.signature of the function compiled from the same text")
    n_shapes = 0
    bad_classes: set[str] = set()
    tuple_shape: tuple[int, int, int, int] | None = None
    import re as _re

    special = {"p0": "_q", "p1": "__p__", "a0": "__a", "a1": "self", "k0": "__k", "va": "args", "kw": "kwargs"}
    # second pass: the same small shapes with names that *look* special (dunder / underscore / self / args): names carry no meaning for kinds
    renamed = [_re.sub(r"\b(p0|p1|a0|a1|k0|va|kw)\b", lambda m: special[m.group(1)], t) for t in shapes(2, 1)]
    for text in [*shapes(max_pos, max_kw), *renamed]:
        src = f"def f({text}): pass"
        try:
            tree = ast.parse(src)
        except SyntaxError:
            continue
        n_shapes += 1
        ns: dict = {}
        exec(compile(tree, "<shape>", "exec", dont_inherit=True), ns)  # noqa: S102 - a parameter list synthesised here, not griffe code
        want = [(p.name, KIND_NAME[p.kind], None if p.annotation is inspect.Parameter.empty else p.annotation,
                 None if p.default is inspect.Parameter.empty else p.default) for p in inspect.signature(ns["f"]).parameters.values()]
        it.steps = 0
        try:
            res = it.call(gp, tree.body[0].args)
        except Raised as r:
            res = f"raises {r.exc}"
        got = None
        if isinstance(res, list):
            got = []
            for tup in res:
                if not (isinstance(tup, tuple) and len(tup) == 4):
                    raise AnalysisError(f"C02: get_parameters yields {tup!r}, expected 4-tuples")
                idx_name = next(i for i, x in enumerate(tup) if isinstance(x, str) and x.isidentifier())
                idx_kind = next(i for i, x in enumerate(tup) if isinstance(x, Sym))
                rest = [i for i in range(4) if i not in (idx_name, idx_kind)]
                tuple_shape = (idx_name, rest[0], idx_kind, rest[1])
                ann = tup[rest[0]]
                dflt = tup[rest[1]]
                kind = tup[idx_kind].name.split(".")[-1]
                dval = dflt.value if isinstance(dflt, ast.Constant) else (None if dflt is None else ("<variadic marker>" if isinstance(dflt, str) else "<node>"))
                if kind in ("var_positional", "var_keyword"):
                    ok_marker = isinstance(dflt, str)
                    dval = None if ok_marker else "<missing variadic marker>"
                got.append((tup[idx_name], kind, ann.value if isinstance(ann, ast.Constant) else None, dval))
        ok = got == want
        if not ok:
            cls = _shape_class(text)
            if cls in bad_classes:
                continue
            bad_classes.add(cls)
        ctx.ob(rule, f"shape|{text}" if ok else f"shape-class|{_shape_class(text)}", ok,
               f"def f({text}): griffe lists {got if got is not None else res}; CPython binds {want}", where(gp), nontrivial=bool(text))
    ctx.expect_min(rule, n_shapes, min_shapes)
    ctx.analysed["parameter_list_shapes"] = n_shapes
    return tuple_shape


def run(prog: Program, ctx: Ctx) -> None:  # noqa: PLR0912,PLR0915
    gp = prog.function("_griffe.agents.nodes.parameters.get_parameters")
    it = Interp(prog)
    max_pos, max_kw = (3, 2) if ctx.tier == "quick" else (4, 3)
    tuple_shape = alignment_table(prog, ctx, "R1", max_pos, max_kw, 1500)

    # ------------------------------------------------------------------ R2 consumers
    ctx.rule("R2", "both consumers destructure get_parameters' 4-tuples in the producer's order and pass name/kind/annotation/default to the right field; "
                   "a variadic marker string is passed through unchanged")
    if tuple_shape is None:
        raise AnalysisError("C02: no tuple observed from get_parameters")
    n_cons = 0
    for f in prog.functions.values():
        for comp in walk_no_nested(f.node):
            if not isinstance(comp, ast.comprehension):
                continue
            if not (isinstance(comp.iter, ast.Call) and prog.resolve(f.module, dotted(comp.iter.func) or "") == gp.qualname):
                continue
            n_cons += 1
            tgt = comp.target
            if not (isinstance(tgt, ast.Tuple) and len(tgt.elts) == 4):
                ctx.ob("R2", key(f, "destructure"), False, "consumer does not unpack four fields", where(f, comp.iter))
                continue
            names = [unparse(e) for e in tgt.elts]
            n_name, n_ann, n_kind, n_def = (names[i] for i in tuple_shape)
            from sa.srcmodel import parent as _parent

            holder = _parent(comp)
            elt = holder.elt if isinstance(holder, (ast.ListComp, ast.GeneratorExp)) else None
            ctor = elt if isinstance(elt, ast.Call) else None
            if ctor is None:
                raise AnalysisError(f"C02-R2: consumer in {f.qualname} is not a constructor comprehension")
            first = unparse(ctor.args[0]) if ctor.args else unparse(kwarg(ctor, "name"))
            k = kwarg(ctor, "kind")
            d = kwarg(ctor, "default")
            a = kwarg(ctor, "annotation")
            ctx.ob("R2", key(f, "name-field"), first == n_name, f"parameter name comes from the name slot (`{first}` vs `{n_name}`)", where(f, ctor))
            ctx.ob("R2", key(f, "kind-field"), k is not None and unparse(k) == n_kind, f"kind comes from the kind slot (`{unparse(k)}` vs `{n_kind}`)", where(f, ctor))
            d_names = {n.id for n in ast.walk(d) if isinstance(n, ast.Name)} if d is not None else set()
            ctx.ob("R2", key(f, "default-field"), n_def in d_names and n_ann not in d_names, f"default comes from the default slot `{n_def}`", where(f, ctor))
            passthrough = d is not None and isinstance(d, ast.IfExp) and unparse(d.body) == n_def and "isinstance" in unparse(d.test) and "str" in unparse(d.test)
            ctx.ob("R2", key(f, "variadic-marker-passthrough"), passthrough, "a string default (variadic marker) is kept as is; anything else is converted to an expression", where(f, ctor))
            if a is not None and not (isinstance(a, ast.Constant) and a.value is None):
                a_names = {n.id for n in ast.walk(a) if isinstance(n, ast.Name)}
                ctx.ob("R2", key(f, "annotation-field"), n_ann in a_names and n_def not in a_names, f"annotation comes from the annotation slot `{n_ann}`", where(f, ctor))
    ctx.expect_min("R2", n_cons, 2)

    # ------------------------------------------------------------------ R3 kind maps / required
    ctx.rule("R3", "the inspector's kind map is a bijection between inspect.Parameter kinds and ParameterKind members of the same name; "
                   "Parameter.required is exactly `default is None`; the return annotation is read from node.returns")
    insp = prog.module("_griffe.agents.inspector")
    km = insp.assigns.get("_kind_map")
    if not isinstance(km, ast.Dict):
        raise AnalysisError("C02-R3: inspector._kind_map vanished")
    pairs = [(unparse(k).split(".")[-1], unparse(v).split(".")[-1]) for k, v in zip(km.keys, km.values)]
    ctx.ob("R3", "kind_map|bijection", len(pairs) == 5 and len({a for a, _ in pairs}) == 5 and len({b for _, b in pairs}) == 5, f"_kind_map has 5 distinct keys and values: {pairs}", f"{insp.relpath}:{km.lineno}")
    for a, b in pairs:
        ctx.ob("R3", f"kind_map|{a}", a.lower() == b.lower(), f"inspect.Parameter.{a} maps to ParameterKind.{b}", f"{insp.relpath}:{km.lineno}")
    pcls = prog.cls("_griffe.models.Parameter")
    kinds = it.enum_members("_griffe.enumerations.ParameterKind")
    for default, ann, kind in itertools.product((None, "1", ""), (None, "int"), kinds):
        p = Obj(pcls, {"name": "x", "default": default, "annotation": ann, "kind": kind, "docstring": None, "function": None})
        got = it.truth(it.getattr(p, "required"))
        ctx.ob("R3", f"required|default={default!r}|annotation={ann}|{kind}", got == (default is None), f"Parameter(default={default!r}).required = {got}", where(prog.lookup_method(pcls, 'required')[0]))
    hf = prog.function("_griffe.agents.visitor.Visitor.handle_function")
    for c in calls_in(hf.node):
        if prog.resolve(hf.module, dotted(c.func) or "") == "_griffe.models.Function":
            r = kwarg(c, "returns")
            ctx.ob("R3", key(hf, "returns"), r is not None and "node.returns" in unparse(r), f"Function(returns=...) is built from node.returns ({unparse(r) if r else None})", where(hf, c))
            p_ = kwarg(c, "parameters")
            ctx.ob("R3", key(hf, "parameters"), p_ is not None and unparse(p_) == "parameters", "Function(parameters=...) receives the list built from get_parameters", where(hf, c))

    # ------------------------------------------------------------------ R4 overload / setter typestate
    ctx.rule("R4", "handle_function: an overload is appended (in order) to the pending overload list and not set as member; a setter/deleter is "
                   "attached to the existing property and not set as member; a plain function is set as member and then receives the pending "
                   "overloads, which are removed from the pending table")
    cfg = cfg_of(hf)
    idx = node_index(hf)

    def nodes_where(pred):
        out = []
        for n in walk_no_nested(hf.node):
            if pred(n):
                out += [(n, x) for x in idx.get(id(n), [])]
        return out

    sm = nodes_where(lambda n: isinstance(n, ast.Call) and isinstance(n.func, ast.Attribute) and n.func.attr == "set_member" and len(n.args) == 2 and unparse(n.args[1]) == "function")
    ap = nodes_where(lambda n: isinstance(n, ast.Call) and isinstance(n.func, ast.Attribute) and n.func.attr in ("append", "insert", "extend") and "overloads" in unparse(n.func.value)
                     and n.args and unparse(n.args[-1]) == "function")
    st = nodes_where(lambda n: isinstance(n, ast.Assign) and unparse(n.value) == "function" and isinstance(n.targets[0], ast.Attribute) and n.targets[0].attr in ("setter", "deleter"))
    ctx.ob("R4", key(hf, "sites"), len(sm) == 1 and len(ap) == 1 and len(st) == 2, f"one set_member, one overload append, setter+deleter stores (found {len(sm)}, {len(ap)}, {len(st)})", where(hf))
    for n, x in sm:
        a = cfg.dominated_by_fact(x, lambda at, tr: not tr and unparse(at) == "overload")
        b = cfg.dominated_by_fact(x, lambda at, tr: not tr and unparse(at) == "property_function")
        ctx.ob("R4", key(hf, "set_member-only-plain"), a and b, "set_member(function) is reached only when it is neither an overload nor a setter/deleter (the implementation/property is not replaced)", where(hf, n))
    for n, x in ap:
        ctx.ob("R4", key(hf, "overload-appended"), cfg.dominated_by_fact(x, lambda at, tr: tr and unparse(at) == "overload") and n.func.attr == "append",
               "an @overload signature is appended (declaration order) to the pending list", where(hf, n))
    for n, x in st:
        which = n.targets[0].attr
        ok = cfg.dominated_by_fact(x, lambda at, tr, which=which: tr and unparse(at) == f"property_function == '{which}'")
        ctx.ob("R4", key(hf, f"{which}-attached"), ok, f"`.{which} = function` runs exactly on the {which} path", where(hf, n))
        recv = unparse(n.targets[0].value)
        defs = [s for s in walk_no_nested(hf.node) if isinstance(s, (ast.Assign, ast.AnnAssign)) and unparse(s.targets[0] if isinstance(s, ast.Assign) else s.target) == recv]
        ok2 = len(defs) == 1 and "members[node.name]" in unparse(defs[0].value).replace(" ", "")
        ctx.ob("R4", key(hf, f"{which}-on-existing-property"), ok2, f"the {which} is attached to the member already stored under the same name", where(hf, n))
    # the setter/deleter scan must look at every decorator: a non-matching decorator is skipped, it does not end the scan
    gbp = prog.function("_griffe.agents.visitor.Visitor.get_base_property")
    for lp in [n for n in walk_no_nested(gbp.node) if isinstance(n, ast.For) and "decorators" in unparse(n.iter)]:
        early = [n for n in ast.walk(lp) if isinstance(n, ast.Break) or (isinstance(n, ast.Return) and (n.value is None or (isinstance(n.value, ast.Constant) and n.value.value is None)))]
        ctx.ob("R4", key(gbp, "scan-all-decorators"), not early,
               "the scan over decorators never stops at a non-matching one (a decorator stacked above @prop.setter must not hide it)" if not early else
               f"the decorator scan ends early (`{norm(early[0])}`): a decorator stacked above @prop.setter hides the setter and the property is replaced", where(gbp, lp))
    ov_disc = [s for s in walk_no_nested(hf.node) if isinstance(s, ast.AugAssign) and unparse(s.target) == "overload" and isinstance(s.op, ast.BitOr)]
    ctx.ob("R4", key(hf, "overload-detection"), len(ov_disc) == 1 and "typing_overload" in unparse(ov_disc[0].value) and "callable_path" in unparse(ov_disc[0].value),
           "a function is an overload when any decorator's callable path is in typing_overload", where(hf))
    hand = nodes_where(lambda n: isinstance(n, ast.Assign) and isinstance(n.targets[0], ast.Attribute) and n.targets[0].attr == "overloads" and unparse(n.targets[0].value) == "function")
    dele = nodes_where(lambda n: isinstance(n, ast.Delete) and "overloads" in unparse(n))
    ctx.ob("R4", key(hf, "hand-over-sites"), len(hand) == 1 and len(dele) == 1, "pending overloads are handed to the implementation and dropped from the table", where(hf))
    if sm and hand and dele:
        sm_nodes = {x for _n, x in sm}
        for n, x in hand:
            ctx.ob("R4", key(hf, "hand-over-after-set_member"), cfg.dominated_by_node(x, lambda y: y in sm_nodes), "overloads are attached to the function that was just set as member", where(hf, n))
            ctx.ob("R4", key(hf, "hand-over-source"), "overloads[function.name]" in unparse(n.value).replace(" ", ""), "the pending list is looked up under the function's own name", where(hf, n))
        h_nodes = {x for _n, x in hand}
        for n, x in dele:
            ctx.ob("R4", key(hf, "drop-after-hand-over"), cfg.dominated_by_node(x, lambda y: y in h_nodes), "the pending entry is removed only after it was handed over", where(hf, n))

    _definition_table(prog, ctx)


DEFS = {
    "async property": "@property\nasync def {n}(self) -> int: ...",
    "async method": "async def {n}(self, a, b=1) -> str: ...",
    "property": "@property\ndef {n}(self) -> int: ...",
    "cached property": "@functools.cached_property\ndef {n}(self) -> int: ...",
    "method": "def {n}(self, a, /, b, *c, d=1, **e): ...",
    "staticmethod": "@staticmethod\ndef {n}(a, b=2): ...",
    "classmethod": "@classmethod\ndef {n}(cls, a): ...",
    "overloaded": "@typing.overload\ndef {n}(x: int) -> int: ...\n@typing.overload\ndef {n}(x: str) -> str: ...\ndef {n}(x): ...",
    "property with setter": "@property\ndef {n}(self): ...\n@{n}.setter\ndef {n}(self, value): ...",
}


def _definition_table(prog: Program, ctx: Ctx) -> None:
    """R5: the visitor's function handlers evaluated on real `def` nodes, alone and in every ordered pair inside one class body."""
    import collections

    from sa.absint import Native, Obj

    ctx.rule("R5", "what the visitor builds for a definition (kind, labels, parameter names and kinds, overloads, setter) depends on that definition only: "
                   "every definition gives the same object alone and after any other definition in the same class body; properties become attributes, "
                   "functions list the parameters CPython binds")
    M = "_griffe.models"
    it = Interp(prog, max_depth=40, max_steps=2_000_000)
    vf = prog.function("_griffe.agents.visitor.Visitor.visit_functiondef")
    va = prog.function("_griffe.agents.visitor.Visitor.visit_asyncfunctiondef")

    def visit(srcs: list[str]) -> dict | str:
        klass = Obj(prog.cls(f"{M}.Class"), {"name": "K", "path": "m.K", "members": {}, "parent": None, "overloads": collections.defaultdict(list),
                                             "imports_future_annotations": False}, label="m.K")
        mod = Obj(prog.cls(f"{M}.Module"), {"name": "m", "path": "m", "members": {"K": klass}, "parent": None, "imports_future_annotations": False}, label="m")
        mod.attrs["module"] = mod
        klass.attrs["module"] = mod
        klass.attrs["parent"] = mod

        def set_member(n_, v_):  # what SetMembersMixin.set_member does for a plain object (C16 decides the real one)
            klass.attrs["members"][n_] = v_
            v_.attrs["parent"] = klass

        klass.attrs["set_member"] = Native(set_member)
        klass.attrs["get_member"] = Native(lambda n_: klass.attrs["members"][n_])
        vis = Obj(prog.cls("_griffe.agents.visitor.Visitor"), {
            "current": klass, "type_guarded": False, "extensions": Obj(None, {"call": Native(lambda *a, **k: None)}), "docstring_parser": None,
            "docstring_options": {}, "lines_collection": None, "modules_collection": None, "filepath": "m.py", "code": ""}, label="visitor")
        body = "\n".join(srcs)
        tree = ast.parse("class K:\n" + "\n".join("    " + ln for ln in body.splitlines()))
        try:
            for node in tree.body[0].body:
                it.steps = 0
                it.call(va if isinstance(node, ast.AsyncFunctionDef) else vf, vis, node)
        except Raised as r:
            return f"raises {r.exc}"
        out = {}
        for name, o in klass.attrs["members"].items():
            kind = o.cls.name if o.cls is not None else "?"
            entry: dict = {"kind": kind, "labels": sorted(o.attrs.get("labels", []))}
            if kind == "Function":
                ps = o.attrs["parameters"]
                plist = list(it._iterate(ps))
                entry["parameters"] = [(q.attrs["name"], q.attrs["kind"].name.split(".")[-1],
                                        q.attrs.get("default") is not None and not q.attrs["kind"].name.split(".")[-1].startswith("var_")) for q in plist]
                entry["overloads"] = [[q.attrs["name"] for q in it._iterate(ov.attrs["parameters"])] for ov in (o.attrs.get("overloads") or [])]
            else:
                entry["setter"] = o.attrs.get("setter") is not None
            out[name] = entry
        return out

    alone = {}
    for dname, tmpl in DEFS.items():
        got = visit([tmpl.format(n="x")])
        alone[dname] = got
        # reference: CPython's own view of the same class body
        ns: dict = {}
        exec(compile("import functools, typing\nclass K:\n" + "\n".join("    " + ln for ln in tmpl.format(n="x").splitlines()), "<def>", "exec", dont_inherit=True), ns)  # noqa: S102
        raw = ns["K"].__dict__["x"]
        is_prop = isinstance(raw, property) or type(raw).__name__ == "cached_property"
        ok = isinstance(got, dict) and "x" in got and (got["x"]["kind"] == ("Attribute" if is_prop else "Function"))
        detail = f"`{dname}` alone: {got}"
        if ok and not is_prop:
            fn = raw.__func__ if isinstance(raw, (staticmethod, classmethod)) else raw
            want = [(q.name, KIND_NAME[q.kind], q.default is not inspect.Parameter.empty) for q in inspect.signature(fn).parameters.values()]
            ok = got["x"]["parameters"] == want
            detail += f"; CPython binds {want}"
        if ok and is_prop:
            ok = got["x"]["setter"] == (getattr(raw, "fset", None) is not None) and "property" in got["x"]["labels"]
        if ok and "async" in dname:
            ok = "async" in got["x"]["labels"]
        if ok and dname == "overloaded":
            ok = got["x"]["overloads"] == [["x"], ["x"]]
        ctx.ob("R5", f"definition|{dname}", ok, detail, where(vf))
    n = 0
    for (d1, t1), (d2, t2) in itertools.product(DEFS.items(), repeat=2):
        got = visit([t1.format(n="first"), t2.format(n="second")])
        n += 1
        want2 = alone[d2]["x"] if isinstance(alone[d2], dict) and "x" in alone[d2] else None
        want1 = alone[d1]["x"] if isinstance(alone[d1], dict) and "x" in alone[d1] else None
        ok = isinstance(got, dict) and got.get("second") == want2 and got.get("first") == want1
        ctx.ob("R5", f"independent|{d1} then {d2}", ok,
               f"`{d2}` defined after `{d1}`: {got.get('second') if isinstance(got, dict) else got}; alone: {want2}" + ("" if ok else f" (first: {got.get('first') if isinstance(got, dict) else got}, alone {want1})"),
               where(vf))
    ctx.expect_min("R5", n, 60)


def _shape_class(text: str) -> str:
    """Abstract class of a parameter-list shape: counts and default pattern."""
    import re

    t = re.sub(r"\d+", "N", text)
    return t
