"""C02 - Function signatures equal CPython's view of the same definition (structural part).

R1 parameter alignment: get_parameters' AST is evaluated (sa/absint) on the real `ast.arguments` node of every parameter-list *shape*
   up to two positional-only, two positional-or-keyword and two keyword-only parameters with every default pattern and with/without
   *args/**kwargs; the result is compared with CPython's introspection of a function compiled from the same text.
R2 consumer agreement, R3 kind maps and required-ness, R4 overload / setter / deleter typestate in handle_function.
"""

from __future__ import annotations

import ast
from pathlib import PurePosixPath
import inspect
import itertools

from sa.absint import Interp, Obj, Raised, Sym
from sa.report import Ctx
from sa.srcmodel import AnalysisError, Program, dotted, norm, unparse, walk_no_nested
from sa.util import calls_in, cfg_of, key, kwarg, node_index, where

KIND_NAME = {
    inspect.Parameter.POSITIONAL_ONLY: "positional_only",
    inspect.Parameter.POSITIONAL_OR_KEYWORD: "positional_or_keyword",
    inspect.Parameter.VAR_POSITIONAL: "var_positional",
    inspect.Parameter.KEYWORD_ONLY: "keyword_only",
    inspect.Parameter.VAR_KEYWORD: "var_keyword",
}


def shapes(max_pos: int, max_kw: int):
    """Texts of parameter lists: every count/default pattern; names p*, a*, k*; annotation and default constants are unique."""
    for npos, narg, nkw in itertools.product(range(max_pos + 1), range(max_pos + 1), range(max_kw + 1)):
        for ndef in range(npos + narg + 1):
            for vararg, kwarg_ in itertools.product((False, True), repeat=2):
                for mask in itertools.product((False, True), repeat=nkw):
                    parts = []
                    names = [f"p{i}" for i in range(npos)] + [f"a{i}" for i in range(narg)]
                    first_default = len(names) - ndef
                    uid = 100
                    for i, n in enumerate(names):
                        uid += 1
                        parts.append(f"{n}: {uid}" + (f" = {uid + 500}" if i >= first_default else ""))
                        if i == npos - 1:
                            parts.append("/")
                    if vararg:
                        parts.append("*va: 301")
                    elif nkw:
                        parts.append("*")
                    for i, has in enumerate(mask):
                        uid += 1
                        parts.append(f"k{i}: {uid}" + (f" = {uid + 500}" if has else ""))
                    if kwarg_:
                        parts.append("**kw: 302")
                    yield ", ".join(parts)


def alignment_table(prog: Program, ctx: Ctx, rule: str, max_pos: int, max_kw: int, min_shapes: int):
    """Rule body shared with C17: get_parameters vs inspect.signature on every parameter-list shape.  Returns the observed tuple layout."""
    gp = prog.function("_griffe.agents.nodes.parameters.get_parameters")
    it = Interp(prog)
    ctx.rule(rule, "get_parameters (abstractly evaluated on the real ast.arguments of each parameter-list shape) lists the same names, order, "
                   "kinds, annotations and defaults-per-parameter as inspect.signature of the function compiled from the same text")
    n_shapes = 0
    bad_classes: set[str] = set()
    tuple_shape: tuple[int, int, int, int] | None = None
    import re as _re

    special = {"p0": "_q", "p1": "__p__", "a0": "__a", "a1": "self", "k0": "__k", "va": "args", "kw": "kwargs"}
    # second pass: the same small shapes with names that *look* special (dunder / underscore / self / args): names carry no meaning for kinds
    renamed = [_re.sub(r"\b(p0|p1|a0|a1|k0|va|kw)\b", lambda m: special[m.group(1)], t) for t in shapes(2, 1)]
    for text in [*shapes(max_pos, max_kw), *renamed]:
        src = f"def f({text}): pass"
        try:
            tree = ast.parse(src)
        except SyntaxError:
            continue
        n_shapes += 1
        ns: dict = {}
        exec(compile(tree, "<shape>", "exec", dont_inherit=True), ns)  # noqa: S102 - a parameter list synthesised here, not griffe code
        want = [(p.name, KIND_NAME[p.kind], None if p.annotation is inspect.Parameter.empty else p.annotation,
                 None if p.default is inspect.Parameter.empty else p.default) for p in inspect.signature(ns["f"]).parameters.values()]
        it.steps = 0
        try:
            res = it.call(gp, tree.body[0].args)
        except Raised as r:
            res = f"raises {r.exc}"
        got = None
        if isinstance(res, list):
            got = []
            for tup in res:
                if not (isinstance(tup, tuple) and len(tup) == 4):
                    raise AnalysisError(f"C02: get_parameters yields {tup!r}, expected 4-tuples")
                idx_name = next(i for i, x in enumerate(tup) if isinstance(x, str) and x.isidentifier())
                idx_kind = next(i for i, x in enumerate(tup) if isinstance(x, Sym))
                rest = [i for i in range(4) if i not in (idx_name, idx_kind)]
                tuple_shape = (idx_name, rest[0], idx_kind, rest[1])
                ann = tup[rest[0]]
                dflt = tup[rest[1]]
                kind = tup[idx_kind].name.split(".")[-1]
                dval = dflt.value if isinstance(dflt, ast.Constant) else (None if dflt is None else ("<variadic marker>" if isinstance(dflt, str) else "<node>"))
                if kind in ("var_positional", "var_keyword"):
                    ok_marker = isinstance(dflt, str)
                    dval = None if ok_marker else "<missing variadic marker>"
                got.append((tup[idx_name], kind, ann.value if isinstance(ann, ast.Constant) else None, dval))
        ok = got == want
        if not ok:
            cls = _shape_class(text)
            if cls in bad_classes:
                continue
            bad_classes.add(cls)
        ctx.ob(rule, f"shape|{text}" if ok else f"shape-class|{_shape_class(text)}", ok,
               f"def f({text}): griffe lists {got if got is not None else res}; CPython binds {want}", where(gp), nontrivial=bool(text))
    ctx.expect_min(rule, n_shapes, min_shapes)
    ctx.analysed["parameter_list_shapes"] = n_shapes
    return tuple_shape


def run(prog: Program, ctx: Ctx) -> None:  # noqa: PLR0912,PLR0915
    gp = prog.function("_griffe.agents.nodes.parameters.get_parameters")
    it = Interp(prog)
    max_pos, max_kw = (3, 2) if ctx.tier == "quick" else (4, 3)
    tuple_shape = alignment_table(prog, ctx, "R1", max_pos, max_kw, 1500)

    # ------------------------------------------------------------------ R2 consumers
    ctx.rule("R2", "the consumers of get_parameters put name / kind / annotation / default into the right field and pass a variadic marker string "
                   "through unchanged: lambda expressions evaluated here, function definitions by the definition table R5")
    if tuple_shape is None:
        raise AnalysisError("C02: no tuple observed from get_parameters")
    # The function-definition consumer (Visitor.handle_function) is decided on behaviour by the definition table R5: every parameter's name, kind,
    # annotation and default are compared there.  The other consumer builds lambda expressions; it is evaluated here on lambdas with every kind of
    # parameter.  (First version: the two comprehensions over get_parameters(...) were matched statement by statement; moving one of them into a
    # helper with an explicit loop - behaviour unchanged - made that report, so it was retired.)
    build = prog.function("_griffe.expressions._build")
    scope = Obj(prog.cls("_griffe.models.Module"), {"name": "m", "path": "m", "members": {}, "parent": None}, label="m")
    n_cons = 0
    for src_ in ("lambda: 0", "lambda a: 0", "lambda a, /, b=1, *c, d, e=2, **f: 0", "lambda a=x.y, *, d=[1, 2]: 0", "lambda *args, **kwargs: 0", "lambda a, b=None, /, c=3: 0"):
        node = ast.parse(src_, mode="eval").body
        want = []
        ar = node.args
        pos = [*ar.posonlyargs, *ar.args]
        defaults = [None] * (len(pos) - len(ar.defaults)) + list(ar.defaults)
        for i_, (a_, d_) in enumerate(zip(pos, defaults)):
            want.append((a_.arg, "positional_only" if i_ < len(ar.posonlyargs) else "positional_or_keyword", None if d_ is None else ast.unparse(d_)))
        if ar.vararg:
            want.append((ar.vararg.arg, "var_positional", "()"))
        for a_, d_ in zip(ar.kwonlyargs, ar.kw_defaults):
            want.append((a_.arg, "keyword_only", None if d_ is None else ast.unparse(d_)))
        if ar.kwarg:
            want.append((ar.kwarg.arg, "var_keyword", "{}"))
        try:
            e = it.call(build, node, scope, parse_strings=False)
            got = [(q.attrs["name"], repr(q.attrs["kind"]).split(".")[-1],
                    None if q.attrs["default"] is None else (q.attrs["default"] if isinstance(q.attrs["default"], str) else it._str(q.attrs["default"])))
                   for q in e.attrs["parameters"]]
            ann_ok = all(q.attrs.get("annotation") is None for q in e.attrs["parameters"])
        except Raised as r:
            got, ann_ok = f"raises {r.exc}", False
        n_cons += 1
        ctx.ob("R2", f"lambda|{src_}", got == want and ann_ok, f"`{src_}`: parameters (name, kind, default) built as {got}; the source says {want}", where(build))
    ctx.expect_min("R2", n_cons, 6)

    # ------------------------------------------------------------------ R3 kind maps / required
    ctx.rule("R3", "the inspector's kind map is a bijection between inspect.Parameter kinds and ParameterKind members of the same name; "
                   "Parameter.required is exactly `default is None`; the return annotation is read from node.returns")
    insp = prog.module("_griffe.agents.inspector")
    km = insp.assigns.get("_kind_map")
    if not isinstance(km, ast.Dict):
        raise AnalysisError("C02-R3: inspector._kind_map vanished")
    pairs = [(unparse(k).split(".")[-1], unparse(v).split(".")[-1]) for k, v in zip(km.keys, km.values)]
    ctx.ob("R3", "kind_map|bijection", len(pairs) == 5 and len({a for a, _ in pairs}) == 5 and len({b for _, b in pairs}) == 5, f"_kind_map has 5 distinct keys and values: {pairs}", f"{insp.relpath}:{km.lineno}")
    for a, b in pairs:
        ctx.ob("R3", f"kind_map|{a}", a.lower() == b.lower(), f"inspect.Parameter.{a} maps to ParameterKind.{b}", f"{insp.relpath}:{km.lineno}")
    pcls = prog.cls("_griffe.models.Parameter")
    kinds = it.enum_members("_griffe.enumerations.ParameterKind")
    for default, ann, kind in itertools.product((None, "1", ""), (None, "int"), kinds):
        p = Obj(pcls, {"name": "x", "default": default, "annotation": ann, "kind": kind, "docstring": None, "function": None})
        got = it.truth(it.getattr(p, "required"))
        ctx.ob("R3", f"required|default={default!r}|annotation={ann}|{kind}", got == (default is None), f"Parameter(default={default!r}).required = {got}", where(prog.lookup_method(pcls, 'required')[0]))
    # (what handle_function passes to Function(...), and the overload / setter / deleter handling, are decided on behaviour by the definition table R5)
    _definition_table(prog, ctx)
    _future_annotations_table(prog, ctx)


DEFS = {
    "async property": "@property\nasync def {n}(self) -> int: ...",
    "async method": "async def {n}(self, a, b=1) -> str: ...",
    "property": "@property\ndef {n}(self) -> int: ...",
    "cached property": "@functools.cached_property\ndef {n}(self) -> int: ...",
    "method": "def {n}(self, a, /, b, *c, d=1, **e): ...",
    "staticmethod": "@staticmethod\ndef {n}(a, b=2): ...",
    "classmethod": "@classmethod\ndef {n}(cls, a): ...",
    "overloaded": "@typing.overload\ndef {n}(x: int) -> int: ...\n@typing.overload\ndef {n}(x: str) -> str: ...\ndef {n}(x): ...",
    "property with setter": "@property\ndef {n}(self): ...\n@{n}.setter\ndef {n}(self, value): ...",
    "property with setter and deleter": "@property\ndef {n}(self): ...\n@{n}.setter\ndef {n}(self, value): ...\n@{n}.deleter\ndef {n}(self): ...",
    "setter under another decorator": "@property\ndef {n}(self): ...\n@passthrough\n@{n}.setter\ndef {n}(self, value): ...",
    "overloaded (typing_extensions)": "@typing_extensions.overload\ndef {n}(x: int) -> int: ...\n@typing_extensions.overload\ndef {n}(x: str, y: int) -> str: ...\ndef {n}(x, y=0): ...",
    "annotated function": "def {n}(self, a: A, b: B = d1, *c: C, e: E = d2, **g: G) -> R: ...",
    "untyped property with a typed setter": "@property\ndef {n}(self): ...\n@{n}.setter\ndef {n}(self, value: int) -> None: ...",
    "typed property with a differently typed setter": "@property\ndef {n}(self) -> str: ...\n@{n}.setter\ndef {n}(self, value: int) -> None: ...",
    "function with a lambda default": "def {n}(self, enc=lambda s, encoding='utf-8', errors='strict': s): ...",
    "function under an unrelated decorator named overload": "@registry.overload\ndef {n}(self, a): ...",
    "function under an unrelated decorator factory named overload": "@registry.overload('len')\ndef {n}(self, a): ...",
    "property defined again after its setter and deleter": "@property\ndef {n}(self): ...\n@{n}.setter\ndef {n}(self, value): ...\n@{n}.deleter\ndef {n}(self): ...\n@property\ndef {n}(self) -> int: ...",
    "function with a keyword-only lambda default": "def {n}(self, key=lambda *, k=1: k): ...",
    "function with a positional-only then keyword-only lambda default": "def {n}(self, key=lambda a, /, *, k: a): ...",
    "function with a nested-call default": "def {n}(self, retry=dict(policy=dict(base=2), **dict(strict=True))): ...",
    "overloads without implementation": "@typing.overload\ndef {n}(x: int) -> int: ...\n@typing.overload\ndef {n}(x: str, y: int) -> str: ...",
}


def _definition_table(prog: Program, ctx: Ctx, rule: str = "R5") -> None:
    """R5: the visitor's function handlers evaluated on real `def` nodes, alone and in every ordered pair inside one class body."""
    import collections

    from sa.absint import Native, Obj

    ctx.rule(rule, "what the visitor builds for a definition (kind, labels, parameter names and kinds, overloads, setter) depends on that definition only: "
                   "every definition gives the same object alone and after any other definition in the same class body; properties become attributes, "
                   "functions list the parameters CPython binds")
    M = "_griffe.models"
    it = Interp(prog, max_depth=40, max_steps=2_000_000)
    it.ext_handlers["builtins.compile"] = lambda _i, src, **k: compile(src, "<s>", k.get("mode", "eval"), flags=ast.PyCF_ONLY_AST, dont_inherit=True)
    vf = prog.function("_griffe.agents.visitor.Visitor.visit_functiondef")
    va = prog.function("_griffe.agents.visitor.Visitor.visit_asyncfunctiondef")

    def _txt(e: object) -> str | None:
        return it._str(e) if isinstance(e, Obj) else (e if isinstance(e, str) else None)

    def visit(srcs: list[str]) -> dict | str:
        # the scope the definitions are visited in: a class in a module, built by the models' own constructors (whatever state they keep is there)
        klass = it._construct(prog.cls(f"{M}.Class"), ["K"], {})
        mod = it._construct(prog.cls(f"{M}.Module"), ["m"], {"filepath": PurePosixPath("/s/m.py")})
        it.call(prog.lookup_method(mod.cls, "set_member")[0], mod, "K", klass)
        # the visitor as its own constructor leaves it (whatever state it keeps between definitions is there), standing in the class body
        vis = it._construct(prog.cls("_griffe.agents.visitor.Visitor"), ["m", PurePosixPath("/s/m.py"), "", Obj(None, {"call": Native(lambda *a, **k: None)}, label="extensions")], {})
        vis.attrs["current"] = klass
        body = "\n".join(srcs)
        tree = ast.parse("class K:\n" + "\n".join("    " + ln for ln in body.splitlines()))
        try:
            for node in tree.body[0].body:
                it.steps = 0
                it.call(va if isinstance(node, ast.AsyncFunctionDef) else vf, vis, node)
        except Raised as r:
            return f"raises {r.exc}"
        out = {}
        for name, o in klass.attrs["members"].items():
            kind = o.cls.name if o.cls is not None else "?"
            entry: dict = {"kind": kind, "labels": sorted(o.attrs.get("labels", []))}
            if kind == "Function":
                ps = o.attrs["parameters"]
                plist = list(it._iterate(ps))
                entry["parameters"] = [(q.attrs["name"], q.attrs["kind"].name.split(".")[-1],
                                        q.attrs.get("default") is not None and not q.attrs["kind"].name.split(".")[-1].startswith("var_")) for q in plist]
                entry["overloads"] = [[q.attrs["name"] for q in it._iterate(ov.attrs["parameters"])] for ov in (o.attrs.get("overloads") or [])]
                entry["annotations"] = [(q.attrs["name"], _txt(q.attrs.get("annotation")), None if q.attrs["kind"].name.split(".")[-1].startswith("var_") else _txt(q.attrs.get("default")))
                                        for q in plist]
                entry["returns"] = _txt(o.attrs.get("returns"))
            else:
                entry["setter"] = o.attrs.get("setter") is not None
                entry["deleter"] = o.attrs.get("deleter") is not None
                entry["annotation"] = _txt(o.attrs.get("annotation"))
            out[name] = entry
        # signatures still waiting for their implementation (stub-style overloads stay there; implemented ones must have been handed over)
        out["<pending overloads>"] = {k: [[q.attrs["name"] for q in it._iterate(ov.attrs["parameters"])] for ov in v] for k, v in klass.attrs["overloads"].items() if v}
        return out

    alone = {}
    for dname, tmpl in DEFS.items():
        got = visit([tmpl.format(n="x")])
        alone[dname] = got
        # reference: CPython's own view of the same class body
        ns: dict = {}
        exec(compile("from __future__ import annotations\nimport functools, typing\ntyping_extensions = typing\nd1 = 'd1'\nd2 = 'd2'\ndef passthrough(f): return f\nclass registry:\n    @staticmethod\n    def overload(f): return f if callable(f) else (lambda g: g)\nclass K:\n"  # noqa: S102
                     + "\n".join("    " + ln for ln in tmpl.format(n="x").splitlines()), "<def>", "exec", dont_inherit=True), ns)
        raw = ns["K"].__dict__["x"]
        is_prop = isinstance(raw, property) or type(raw).__name__ == "cached_property"
        detail = f"`{dname}` alone: {got}"
        if dname == "overloads without implementation":
            ok = isinstance(got, dict) and "x" not in got and got.get("<pending overloads>") == {"x": [["x"], ["x", "y"]]}
            ctx.ob(rule, f"definition|{dname}", ok, detail + "; expected no member and both signatures pending, in order", where(vf))
            continue
        ok = isinstance(got, dict) and "x" in got and (got["x"]["kind"] == ("Attribute" if is_prop else "Function")) and not got.get("<pending overloads>")
        if ok and not is_prop:
            fn = raw.__func__ if isinstance(raw, (staticmethod, classmethod)) else raw
            want = [(q.name, KIND_NAME[q.kind], q.default is not inspect.Parameter.empty) for q in inspect.signature(fn).parameters.values()]
            ok = got["x"]["parameters"] == want
            detail += f"; CPython binds {want}"
        if ok and is_prop:
            getter = getattr(raw, "fget", None) or getattr(raw, "func", None)
            want_ret = getattr(getter, "__annotations__", {}).get("return")
            ok = got["x"]["setter"] == (getattr(raw, "fset", None) is not None) and got["x"]["deleter"] == (getattr(raw, "fdel", None) is not None) \
                and "property" in got["x"]["labels"] and got["x"]["annotation"] == want_ret
            detail += f"; the getter's return annotation is {want_ret!r}"
        if ok and dname == "annotated function":
            sig = inspect.signature(raw)
            want_ann = [(q.name, None if q.annotation is inspect.Parameter.empty else q.annotation, None if q.default is inspect.Parameter.empty else q.default)
                        for q in sig.parameters.values()]
            ok = got["x"]["annotations"] == want_ann and got["x"]["returns"] == sig.return_annotation
            detail += f"; annotations/defaults {got['x']['annotations']} -> {got['x']['returns']}, source {want_ann} -> {sig.return_annotation}"
        if ok and "async" in dname:
            ok = "async" in got["x"]["labels"]
        if ok and dname.startswith("function with a ") and dname.endswith(" default"):
            src_default = ast.parse(tmpl.format(n="x")).body[0].args.defaults[0]
            got_default = got["x"]["annotations"][1][2]
            try:
                ok = ast.dump(ast.parse(got_default, mode="eval").body) == ast.dump(src_default)
            except (SyntaxError, TypeError):
                ok = False
            detail += f"; the default is written `{ast.unparse(src_default)}`"
        if ok and dname == "overloaded":
            ok = got["x"]["overloads"] == [["x"], ["x"]]
        if ok and dname == "overloaded (typing_extensions)":
            ok = got["x"]["overloads"] == [["x"], ["x", "y"]]  # in declaration order
        ctx.ob(rule, f"definition|{dname}", ok, detail, where(vf))
    n = 0
    for (d1, t1), (d2, t2) in itertools.product(DEFS.items(), repeat=2):
        got = visit([t1.format(n="first"), t2.format(n="second")])
        n += 1
        want2 = alone[d2]["x"] if isinstance(alone[d2], dict) and "x" in alone[d2] else None
        want1 = alone[d1]["x"] if isinstance(alone[d1], dict) and "x" in alone[d1] else None
        pend = {}
        for nm_, dn_ in (("first", d1), ("second", d2)):
            if isinstance(alone[dn_], dict) and alone[dn_].get("<pending overloads>"):
                pend[nm_] = alone[dn_]["<pending overloads>"]["x"]
        ok = isinstance(got, dict) and got.get("second") == want2 and got.get("first") == want1 and got.get("<pending overloads>") == pend
        ctx.ob(rule, f"independent|{d1} then {d2}", ok,
               f"`{d2}` defined after `{d1}`: {got.get('second') if isinstance(got, dict) else got}; alone: {want2}" + ("" if ok else f" (first: {got.get('first') if isinstance(got, dict) else got}, alone {want1})"),
               where(vf))
    ctx.expect_min(rule, n, 60)


def _future_annotations_table(prog: Program, ctx: Ctx) -> None:
    """R6: whether a string annotation is read as a forward reference (parsed) or kept as the text CPython keeps under `from __future__ import annotations`
    is a fact about the module object being visited - not about its file path, nor about what was loaded before it in the same process."""
    ctx.rule("R6", "a string annotation is parsed exactly when the module it stands in does not import annotations from __future__ - also when another "
                   "module with the same file path (the file edited and loaded again) was handled just before, either way round")
    M = "_griffe.models"
    it = Interp(prog, max_depth=60, max_steps=400_000)
    gex = prog.function("_griffe.expressions.get_expression")

    def module(future: bool) -> Obj:
        m_ = it._construct(prog.cls(f"{M}.Module"), ["m"], {"filepath": PurePosixPath("/s/m.py")})
        if future:
            it.call(prog.lookup_method(m_.cls, "set_member")[0], m_, "annotations", it._construct(prog.cls(f"{M}.Alias"), ["annotations", "__future__.annotations"], {}))
        return m_

    n = 0
    for history in itertools.product((False, True), repeat=2):
        # fresh evaluator state for module-level variables of griffe: each history is one process
        it = Interp(prog, max_depth=60, max_steps=400_000)
        seen = []
        for future in history:
            it.steps = 0
            try:
                e = it.call(gex, ast.parse("'int'", mode="eval").body, parent=module(future))
                seen.append("parsed" if isinstance(e, Obj) and e.cls is not None and e.cls.name == "ExprName" else f"kept as {e!r}")
            except Raised as r:
                seen.append(f"raises {r.exc}")
        want = ["kept as \"'int'\"" if f_ else "parsed" for f_ in history]
        n += 1
        ctx.ob("R6", f"future-annotations|{' then '.join('with' if f_ else 'without' for f_ in history)}", seen == want,
               f"/s/m.py loaded {' then '.join(('with' if f_ else 'without') + ' the future import' for f_ in history)}: the annotation `'int'` is {seen}; CPython's view: {want}", where(gex))
    ctx.expect_min("R6", n, 4)


def _shape_class(text: str) -> str:
    """Abstract class of a parameter-list shape: counts and default pattern."""
    import re

    t = re.sub(r"\d+", "N", text)
    return t
