"""C18 - Synthesised dataclass constructors equal the ones CPython generates (structural part + exhaustive small definitions).

R1 never replace / never invent (dominance), R2 constructor table: the extension's functions (abstractly evaluated) on every small dataclass
definition (two fields x field options x decorator kw_only x KW_ONLY position, plus single inheritance) against the `__init__` CPython's
dataclasses module generates for the same text, R3 label, R4 always on.
"""

from __future__ import annotations

import ast
import dataclasses
import inspect
import itertools

from sa.absint import Interp, Native, Obj, Raised
from sa.report import Ctx
from sa.srcmodel import AnalysisError, FunctionInfo, Program, dotted, norm, unparse, walk_no_nested
from sa.util import calls_in, cfg_of, key, node_index, where

X = "_griffe.extensions.dataclasses"
M = "_griffe.models"
E = "_griffe.expressions"

# field variants: (label, source of the class-body line, how the visitor represents it)
FIELD_VARIANTS = [
    ("plain", "{n}: int", {}),
    ("default", "{n}: int = 1", {"value": "1"}),
    ("field()", "{n}: int = field()", {"field": {}}),
    ("field(default)", "{n}: int = field(default=1)", {"field": {"default": "1"}}),
    ("field(default_factory)", "{n}: list = field(default_factory=list)", {"field": {"default_factory": "list"}}),
    ("field(init=False)", "{n}: int = field(init=False, default=1)", {"field": {"init": "False", "default": "1"}}),
    ("field(kw_only=True)", "{n}: int = field(kw_only=True)", {"field": {"kw_only": "True"}}),
    ("field(kw_only=False)", "{n}: int = field(kw_only=False)", {"field": {"kw_only": "False"}}),
    ("field(kw_only=True, default)", "{n}: int = field(kw_only=True, default=1)", {"field": {"kw_only": "True", "default": "1"}}),
    ("ClassVar", "{n}: ClassVar[int] = 1", {"classvar": True, "value": "1"}),
    ("InitVar", "{n}: InitVar[int]", {"initvar": True}),
    ("unannotated", "{n} = 1", {"unannotated": True, "value": "1"}),
]


def run(prog: Program, ctx: Ctx) -> None:  # noqa: PLR0912,PLR0915
    it = Interp(prog, max_steps=500_000)

    def _direct_bases(i_, self_):
        """The hand-built classes of the rows below are single-inheritance chains given by their linearisation: the direct base is its first entry
        (the multiple-inheritance rows carry `resolved_bases` themselves). Code that walks the bases instead of asking for the MRO is evaluated, not refused."""
        if "resolved_bases" in self_.attrs:
            return list(self_.attrs["resolved_bases"])
        stub_ = i_.stubs.get(f"{M}.Class.mro")
        return list(stub_(i_, self_))[:1] if stub_ is not None else []

    it.stubs[f"{M}.Class.resolved_bases"] = _direct_bases
    expr_cls = prog.cls(f"{E}.Expr")
    call_cls = prog.cls(f"{E}.ExprCall")
    kw_cls = prog.cls(f"{E}.ExprKeyword")
    name_cls = prog.cls(f"{E}.ExprName")
    attr_cls = prog.cls(f"{M}.Attribute")
    cls_cls = prog.cls(f"{M}.Class")
    dec_cls = prog.cls(f"{M}.Decorator")
    sdi = prog.function(f"{X}._set_dataclass_init")

    # ------------------------------------------------------------------ R1
    ctx.rule("R1", "an __init__ is synthesised only when the class has none and is decorated as a dataclass")
    # (decided on behaviour with the walk rows further down - "R1 rows": the whole extension is run through on_package_loaded on a package holding a
    # dataclass without constructor, one with a hand-written constructor, a plain class, a nested dataclass and a function)
    # ------------------------------------------------------------------ R2 constructor table
    ctx.rule("R2", "for every small dataclass definition the synthesised parameters (names, order, kinds, required-ness) equal those of the __init__ "
                   "CPython's dataclasses module generates for the same source text")

    def expr_name(path: str) -> Obj:
        return Obj(name_cls, {"name": path.split(".")[-1], "canonical_path": path, "path": path}, label=path)

    def call_expr(path: str, kwargs: dict[str, str]) -> Obj:
        return Obj(call_cls, {"function": expr_name(path), "canonical_path": path,
                              "arguments": [Obj(kw_cls, {"name": k, "value": (expr_name(v) if k == "default_factory" else v)}) for k, v in kwargs.items()]}, label=f"{path}(...)")

    def decorator(kwargs: dict[str, str] | None) -> Obj:
        value = expr_name("dataclasses.dataclass") if kwargs is None else call_expr("dataclasses.dataclass", kwargs)
        return Obj(dec_cls, {"value": value})

    def attribute(name: str, rep: dict) -> Obj:
        labels = set()
        if rep.get("classvar"):
            labels = {"class-attribute"}
            ann = expr_name("int")  # the visitor unwraps ClassVar[...] and labels the attribute
        elif rep.get("unannotated"):
            labels = {"class-attribute", "instance-attribute"}
            ann = None
        elif rep.get("initvar"):
            labels = {"instance-attribute"}
            ann = Obj(prog.cls(f"{E}.ExprSubscript"), {"canonical_path": "dataclasses.InitVar"})
        else:
            labels = {"class-attribute", "instance-attribute"} if ("value" in rep or "field" in rep) else {"instance-attribute"}
            ann = expr_name("int")
        value = rep.get("value")
        if "field" in rep:
            value = call_expr("dataclasses.field", rep["field"])
        return Obj(attr_cls, {"name": name, "annotation": ann, "value": value, "labels": labels, "is_attribute": True, "is_alias": False, "docstring": None}, label=name)

    def sentinel(name: str) -> Obj:
        return Obj(attr_cls, {"name": name, "annotation": expr_name("dataclasses.KW_ONLY"), "value": None, "labels": {"instance-attribute"}, "is_attribute": True,
                              "is_alias": False, "docstring": None}, label=name)

    captured: list = []

    def fake_function(_i, *a, **k):
        captured.append(k.get("parameters"))
        return Obj(prog.cls(f"{M}.Function"), {"name": "__init__"})

    it.class_stubs[f"{M}.Function"] = fake_function

    def griffe_init(classes: list[tuple[str, dict | None, list[tuple[str, dict]], str | None]]) -> list | str:
        """classes: [(name, decorator kwargs or None for plain @dataclass, [(field name | '_' for KW_ONLY, representation)], parent name)] - last is the subject."""
        objs: dict[str, Obj] = {}
        for cname, deco, fields, par in classes:
            members = {}
            for fname, rep in fields:
                members[fname] = sentinel(fname) if rep == "KW_ONLY" else attribute(fname, rep)
            o = Obj(cls_cls, {"name": cname, "path": f"m.{cname}", "members": members, "decorators": [decorator(deco)] if deco != "none" else [], "labels": set(),
                              "set_member": Native(lambda n_, v_: None)}, label=cname)
            o.attrs["__parent__"] = par
            objs[cname] = o
        subject = objs[classes[-1][0]]

        def mro_of(_i, self_):
            out = []
            cur = self_.attrs.get("__parent__")
            while cur:
                out.append(objs[cur])
                cur = objs[cur].attrs.get("__parent__")
            return out

        it.stubs[f"{M}.Class.mro"] = mro_of
        captured.clear()
        it.steps = 0
        try:
            it.call(sdi, subject)
        except Raised as r:
            return f"raises {r.exc}"
        finally:
            it.stubs.pop(f"{M}.Class.mro", None)
        if not captured:
            return "no __init__ synthesised"
        params = it._iterate(captured[0])
        return [(p.attrs["name"], p.attrs["kind"].name.split(".")[-1], it.truth(it.getattr(p, "required"))) for p in params][1:]

    def cpython_init(src: str, cname: str) -> list | str:
        ns: dict = {}
        try:
            exec(compile(src, "<dataclass>", "exec", dont_inherit=True), ns)  # noqa: S102 - a class synthesised here, not griffe code
        except Exception as exc:  # noqa: BLE001 - CPython (or the dataclasses module) rejects the definition
            return f"rejected: {exc}"
        sig = inspect.signature(ns[cname].__init__)
        kinds = {inspect.Parameter.POSITIONAL_OR_KEYWORD: "positional_or_keyword", inspect.Parameter.KEYWORD_ONLY: "keyword_only"}
        return [(p.name, kinds[p.kind], p.default is inspect.Parameter.empty) for p in list(sig.parameters.values())[1:]]

    header = "from dataclasses import dataclass, field, KW_ONLY, InitVar\nfrom typing import ClassVar\n"
    rows = 0
    bad_classes: set[str] = set()
    variants = FIELD_VARIANTS if ctx.tier == "thorough" else FIELD_VARIANTS
    for (l1, s1, r1), (l2, s2, r2) in itertools.product(variants, repeat=2):
        for deco_kw in (None, {"kw_only": "True"}):
            for kpos in (None, 0, 1):
                lines = [s1.format(n="a"), s2.format(n="b")]
                fields: list[tuple[str, dict | str]] = [("a", r1), ("b", r2)]
                if kpos is not None:
                    lines.insert(kpos, "_: KW_ONLY")
                    fields.insert(kpos, ("_", "KW_ONLY"))
                deco_src = "@dataclass" if deco_kw is None else "@dataclass(kw_only=True)"
                src = header + f"{deco_src}\nclass D:\n" + "".join(f"    {ln}\n" for ln in lines)
                want = cpython_init(src, "D")
                if isinstance(want, str):
                    continue  # CPython rejects the definition (non-default after default ...)
                got = griffe_init([("D", deco_kw, fields, None)])  # type: ignore[list-item]
                rows += 1
                ok = got == want
                label = f"{deco_src} class D: " + "; ".join(lines)
                if not ok:
                    k_ = f"{l1}|{l2}|{'kw_only deco' if deco_kw else 'plain deco'}|KW_ONLY@{kpos}"
                    root = _root_cause(l1, l2)
                    if root in bad_classes:
                        continue
                    bad_classes.add(root)
                ctx.ob("R2", f"init|{label}" if ok else f"init-class|{_root_cause(l1, l2)}", ok, f"{label}: griffe {got}; CPython {want}", where(sdi), nontrivial=True)
    # single inheritance
    inh = variants[:9] if ctx.tier == "thorough" else [v for v in variants if v[0] in ("plain", "default", "field()", "field(init=False)", "field(kw_only=True)", "field(kw_only=False)")]
    for (l1, s1, r1), (l2, s2, r2), pdeco, cdeco in itertools.product(inh, inh, (None, {"kw_only": "True"}, "none"), (None, {"kw_only": "True"})):
        pdeco_src = {"none": ""}.get(pdeco if isinstance(pdeco, str) else "", "@dataclass\n" if pdeco is None else "@dataclass(kw_only=True)\n")
        cdeco_src = "@dataclass\n" if cdeco is None else "@dataclass(kw_only=True)\n"
        for same, second in itertools.product((False, True), (False, True)):
            cn = "a" if same else "b"
            zsrc = "    z: int = 9\n" if second else ""
            zfields = [("z", {"value": "9"})] if second else []
            src = header + f"{pdeco_src}class P:\n    {s1.format(n='a')}\n{zsrc}{cdeco_src}class D(P):\n    {s2.format(n=cn)}\n"
            want = cpython_init(src, "D")
            if isinstance(want, str):
                continue
            got = griffe_init([("P", pdeco, [("a", r1), *zfields], None), ("D", cdeco, [(cn, r2)], "P")])  # type: ignore[list-item]
            rows += 1
            ok = got == want
            label = src[len(header):].replace("\n", " / ")
            root = ""
            if not ok:
                if same and l2 == "field(init=False)":
                    root = "inherit|override-with-init-False"
                elif same and l2 == "plain":
                    root = "inherit|plain-override-inherits-class-default"
                elif same and l1 == "field(init=False)":
                    root = "inherit|override-of-init-False-parent-field-keeps-parent-position"
                elif pdeco == "none":
                    root = "inherit|plain-parent|" + _root_cause(l1, l2)
                else:
                    root = "inherit|" + _root_cause(l1, l2)
                if root in bad_classes:
                    continue
                bad_classes.add(root)
            ctx.ob("R2", f"inherit|{label}" if ok else f"init-class|{root}", ok, f"{label}: griffe {got}; CPython {want}", where(sdi))
    # three-level chains: fields come grand-parent first
    for gdeco, pdeco2 in itertools.product((None, "none"), (None, {"kw_only": "True"})):
        gsrc = "" if gdeco == "none" else "@dataclass\n"
        psrc = "@dataclass\n" if pdeco2 is None else "@dataclass(kw_only=True)\n"
        src = header + f"{gsrc}class G:\n    g: int = 1\n{psrc}class P(G):\n    p: int = 2\n@dataclass\nclass D(P):\n    d: int = 3\n"
        want = cpython_init(src, "D")
        if isinstance(want, str):
            continue
        got = griffe_init([("G", gdeco, [("g", {"value": "1"})], None), ("P", pdeco2, [("p", {"value": "2"})], "G"), ("D", None, [("d", {"value": "3"})], "P")])  # type: ignore[list-item]
        rows += 1
        label = src[len(header):].replace("\n", " / ")
        ctx.ob("R2", f"chain|{label}", got == want, f"{label}: griffe {got}; CPython {want}", where(sdi))
    # a base list griffe cannot linearise (a class deriving from a plain class of the same name resolves to itself): the class's own fields still make
    # the constructor, which is what CPython generates when the base has no fields
    src = header + "class D:\n    pass\n@dataclass\nclass D(D):\n    a: int\n    b: int = 1\n"
    want = cpython_init(src, "D")
    d_obj = Obj(cls_cls, {"name": "D", "path": "m.D", "members": {"a": attribute("a", {}), "b": attribute("b", {"value": "1"})}, "decorators": [decorator(None)], "labels": set(),
                          "set_member": Native(lambda n_, v_: None)}, label="D")

    def mro_fails(_i, _self):
        raise Raised("ValueError")

    it.stubs[f"{M}.Class.mro"] = mro_fails
    captured.clear()
    it.steps = 0
    try:
        it.call(sdi, d_obj)
        got3: object = "no __init__ synthesised" if not captured else [(p.attrs["name"], p.attrs["kind"].name.split(".")[-1], it.truth(it.getattr(p, "required"))) for p in it._iterate(captured[0])][1:]
    except Raised as r:
        got3 = f"raises {r.exc}"
    finally:
        it.stubs.pop(f"{M}.Class.mro", None)
    rows += 1
    ctx.ob("R2", "mro-not-computable|class D: pass / @dataclass class D(D): a: int; b: int = 1", got3 == want,
           f"class whose MRO computation raises ValueError (base resolves to the class itself): griffe {got3}; CPython {want}", where(sdi))
    ctx.expect_min("R2", rows, 600)
    ctx.analysed["dataclass_definitions"] = rows

    # packages processed one after the other by the same extension instance: the base's package first (its InitVar pseudo-fields are deleted from the
    # class once it is processed), then a package deriving from it - the derived __init__ still lists the inherited init-only parameters.
    opl = prog.function("_griffe.extensions.dataclasses.DataclassesExtension.on_package_loaded")
    mod_cls = prog.cls(f"{M}.Module")

    def package(pname: str, classes: list[Obj]) -> Obj:
        members = {c.attrs["name"]: c for c in classes}
        return Obj(mod_cls, {"name": pname, "path": pname, "canonical_path": pname, "members": members, "is_alias": False, "is_module": True, "is_class": False}, label=pname)

    def klass(cname: str, mod: str, fields: list[tuple[str, dict]], parents: list[Obj]) -> Obj:
        members = {f: attribute(f, rep) for f, rep in fields}
        o = Obj(cls_cls, {"name": cname, "path": f"{mod}.{cname}", "canonical_path": f"{mod}.{cname}", "members": members, "decorators": [decorator(None)], "labels": set(),
                          "is_alias": False, "is_module": False, "is_class": True}, label=cname)
        o.attrs["set_member"] = Native(lambda n_, v_, o=o: o.attrs["members"].__setitem__(n_, v_))
        o.attrs["del_member"] = Native(lambda n_, o=o: o.attrs["members"].__delitem__(n_))
        o.attrs["__mro__"] = parents
        return o

    it.stubs[f"{M}.Class.mro"] = lambda _i, self_: list(self_.attrs["__mro__"])
    for n_pkgs in (1, 2):
        base = klass("Base", "core", [("x", {}), ("seed", {"initvar": True}), ("scale", {"initvar": True, "value": "2"})], [])
        derived = klass("Derived", "core" if n_pkgs == 1 else "plugin", [("y", {"value": "0"})], [base])
        pkgs = [package("core", [base, derived])] if n_pkgs == 1 else [package("core", [base]), package("plugin", [derived])]
        ext = it._construct(prog.cls("_griffe.extensions.dataclasses.DataclassesExtension"), [], {})  # whatever state its constructor sets up
        captured.clear()
        try:
            it.steps = 0
            for pk in pkgs:
                it.call(opl, ext, pkg=pk)
            got2: object = [[p.attrs["name"] for p in it._iterate(c)][1:] for c in captured]
        except Raised as r:
            got2 = f"raises {r.exc}"
        want2 = [["x", "seed", "scale"], ["x", "seed", "scale", "y"]]
        ctx.ob("R2", f"sequence|{n_pkgs} package(s)|InitVar base then derived", got2 == want2,
               f"Base(x, seed: InitVar, scale: InitVar = 2) processed, then Derived(Base)(y = 0) in {'the same' if n_pkgs == 1 else 'a later'} package: "
               f"synthesised parameter lists {got2}; CPython {want2}", where(opl))
    # inherited fields come in the order of the MRO (reversed), not of a walk of the bases: where C3 postpones a shared base the two differ.
    # The classes carry their (resolved) bases as well as the linearisation CPython computes for the same hierarchy, so code that follows either is evaluated.
    shapes = {
        "diamond": {"A": [], "B": ["A"], "C": ["A"], "Z": ["B", "C"]},
        "shared base postponed": {"A": [], "B": [], "D": [], "K1": ["A", "B"], "K3": ["D", "A"], "Z": ["K1", "K3"]},
        "base listed again behind its subclass": {"A": [], "B": ["A"], "Z": ["B", "A"]},
    }
    for sname, shape in shapes.items():
        src_h = header + "".join(f"@dataclass\nclass {c_}({', '.join(bs_)}):\n    f_{c_.lower()}: int = 0\n" for c_, bs_ in shape.items())
        want_h = cpython_init(src_h, "Z")
        ns_h: dict = {}
        exec(compile("".join(f"class {c_}({', '.join(bs_)}): pass\n" for c_, bs_ in shape.items()), "<hierarchy>", "exec", dont_inherit=True), ns_h)  # noqa: S102 - empty classes synthesised here
        objs_h: dict[str, Obj] = {}
        for c_, bs_ in shape.items():
            o_h = klass(c_, "m", [(f"f_{c_.lower()}", {"value": "0"})], [])
            o_h.attrs["resolved_bases"] = [objs_h[b_] for b_ in bs_]
            o_h.attrs["bases"] = list(bs_)
            objs_h[c_] = o_h
        for c_, o_h in objs_h.items():
            o_h.attrs["__mro__"] = [objs_h[k_.__name__] for k_ in ns_h[c_].__mro__[1:-1]]
        it.stubs[f"{M}.Class.mro"] = lambda _i, self_: list(self_.attrs["__mro__"])
        captured.clear()
        it.steps = 0
        try:
            it.call(sdi, objs_h["Z"])
            got_h: object = "no __init__ synthesised" if not captured else [(p.attrs["name"], p.attrs["kind"].name.split(".")[-1], it.truth(it.getattr(p, "required"))) for p in it._iterate(captured[-1])][1:]
        except Raised as r:
            got_h = f"raises {r.exc}"
        rows += 1
        ctx.ob("R2", f"inherit|field order follows the MRO|{sname}", got_h == want_h,
               f"{sname}: {'; '.join(f'class {c_}({chr(44).join(bs_)})' for c_, bs_ in shape.items())}, one field each: griffe {got_h}; CPython {want_h}", where(sdi))
    # a property (or cached property) of the subclass named like an inherited field adds nothing to __annotations__: the field stays in the constructor
    src = header + "@dataclass\nclass P:\n    tags: int = 0\n    size: int = 1\n@dataclass\nclass D(P):\n    b: int = 2\n    @property\n    def tags(self) -> int: return 0\n"
    want7 = cpython_init(src, "D")
    prop_attr = Obj(attr_cls, {"name": "tags", "annotation": expr_name("int"), "value": None, "labels": {"property"}, "is_attribute": True, "is_alias": False, "docstring": None}, label="tags (property)")
    p_o = Obj(cls_cls, {"name": "P", "path": "m.P", "members": {"tags": attribute("tags", {"value": "0"}), "size": attribute("size", {"value": "1"})}, "decorators": [decorator(None)], "labels": set(),
                        "set_member": Native(lambda n_, v_: None)}, label="P")
    d_o = Obj(cls_cls, {"name": "D", "path": "m.D", "members": {"b": attribute("b", {"value": "2"}), "tags": prop_attr}, "decorators": [decorator(None)], "labels": set(),
                        "set_member": Native(lambda n_, v_: None)}, label="D")
    it.stubs[f"{M}.Class.mro"] = lambda _i, self_, p_o=p_o, d_o=d_o: [p_o] if self_ is d_o else []
    captured.clear()
    it.steps = 0
    try:
        it.call(sdi, d_o)
        got7: object = "no __init__ synthesised" if not captured else [(p.attrs["name"], p.attrs["kind"].name.split(".")[-1], it.truth(it.getattr(p, "required"))) for p in it._iterate(captured[0])][1:]
    except Raised as r:
        got7 = f"raises {r.exc}"
    rows += 1
    ctx.ob("R2", "inherit|property of the subclass named like an inherited field", got7 == want7,
           f"@dataclass class P: tags: int = 0; size: int = 1 / @dataclass class D(P): b: int = 2; @property def tags(self) -> int: griffe {got7}; CPython {want7}", where(sdi))
    # only the standard library's decorator makes a dataclass: a callable of the same name from somewhere else (a project's own `dataclasses.py`, a
    # registry decorator) leaves the class without a synthesised constructor and contributes no fields to its subclasses
    for dpath, is_dc in (("dataclasses.dataclass", True), ("pkg.dataclasses.dataclass", False), ("registry.dataclass", False), ("dataclasses.dataclass_transform", False)):
        base_o = Obj(cls_cls, {"name": "P", "path": "m.P", "members": {"a": attribute("a", {})}, "decorators": [Obj(dec_cls, {"value": expr_name(dpath)})], "labels": set(),
                               "set_member": Native(lambda n_, v_: None)}, label="P")
        sub_o = Obj(cls_cls, {"name": "D", "path": "m.D", "members": {"b": attribute("b", {})}, "decorators": [decorator(None)], "labels": set(),
                              "set_member": Native(lambda n_, v_: None)}, label="D")
        it.stubs[f"{M}.Class.mro"] = lambda _i, self_, base_o=base_o, sub_o=sub_o: [base_o] if self_ is sub_o else []
        captured.clear()
        it.steps = 0
        try:
            it.call(sdi, sub_o)
            got6: object = [p.attrs["name"] for p in it._iterate(captured[0])][1:] if captured else "no __init__ synthesised"
        except Raised as r:
            got6 = f"raises {r.exc}"
        want6 = ["a", "b"] if is_dc else ["b"]
        ctx.ob("R2", f"decorator-identity|base decorated with {dpath}", got6 == want6,
               f"@{dpath} class P: a: int / @dataclass class D(P): b: int -> D's synthesised parameters {got6}; expected {want6}", where(sdi))
        is_deco = it.call(prog.function(f"{X}._dataclass_decorator"), base_o.attrs["decorators"])
        ctx.ob("R2", f"decorator-identity|{dpath} recognised", (is_deco is not None) == is_dc, f"_dataclass_decorator([@{dpath}]) -> {'a dataclass decorator' if is_deco is not None else 'None'}; "
               f"expected {'a dataclass decorator' if is_dc else 'None'}", where(prog.function(f"{X}._dataclass_decorator")))
    it.stubs[f"{M}.Class.mro"] = lambda _i, self_: list(self_.attrs["__mro__"])
    # R1 rows: the walk of a package through on_package_loaded
    it.stubs[f"{M}.Class.mro"] = lambda _i, self_: list(self_.attrs["__mro__"])
    plain_dc = klass("Plain", "pk", [("x", {})], [])
    own_init = klass("OwnInit", "pk", [("x", {})], [])
    hand_written = Obj(None, {"name": "__init__", "is_alias": False, "is_class": False, "is_module": False, "is_function": True, "__closed__": True}, label="hand-written __init__")
    own_init.attrs["members"]["__init__"] = hand_written
    inner_of_own = klass("InnerOfOwnInit", "pk.OwnInit", [("z", {})], [])
    own_init.attrs["members"]["InnerOfOwnInit"] = inner_of_own
    not_dc = klass("NotADataclass", "pk", [("x", {})], [])
    not_dc.attrs["decorators"] = []
    inner = klass("Inner", "pk.Outer", [("y", {})], [])
    outer = klass("Outer", "pk", [("x", {})], [])
    outer.attrs["members"]["Inner"] = inner
    func = Obj(None, {"name": "helper", "path": "pk.helper", "canonical_path": "pk.helper", "is_alias": False, "is_class": False, "is_module": False, "is_function": True,
                      "members": {}, "labels": set(), "__closed__": True}, label="function")
    pk1 = package("pk", [plain_dc, own_init, not_dc, outer])
    pk1.attrs["members"]["helper"] = func
    ext1 = it._construct(prog.cls("_griffe.extensions.dataclasses.DataclassesExtension"), [], {})
    captured.clear()
    try:
        it.steps = 0
        it.call(opl, ext1, pkg=pk1)
        got1: object = {
            "Plain": "__init__" in plain_dc.attrs["members"], "OwnInit kept": own_init.attrs["members"].get("__init__") is hand_written,
            "NotADataclass": "__init__" in not_dc.attrs["members"], "Outer": "__init__" in outer.attrs["members"], "Inner": "__init__" in inner.attrs["members"],
            "InnerOfOwnInit": "__init__" in inner_of_own.attrs["members"], "constructors built": len(captured)}
    except Raised as r:
        got1 = f"raises {r.exc}"
    want1 = {"Plain": True, "OwnInit kept": True, "NotADataclass": False, "Outer": True, "Inner": True, "InnerOfOwnInit": True, "constructors built": 4}
    ctx.ob("R1", "walk|dataclass, hand-written constructor, plain class, nested dataclass, function", got1 == want1,
           f"on_package_loaded over such a package: {got1}; expected {want1} (a constructor for every dataclass without one, also nested; a hand-written one is "
           "kept, and the classes nested in that class are still visited; nothing for other classes)", where(opl))
    # one extension instance, two trees with the same paths (the old and the new version of a package, as `griffe check` loads them): both are processed
    ext = it._construct(prog.cls("_griffe.extensions.dataclasses.DataclassesExtension"), [], {})
    v1 = package("core", [klass("Base", "core", [("x", {})], [])])
    v2 = package("core", [klass("Base", "core", [("x", {}), ("y", {"value": "0"})], [])])
    captured.clear()
    try:
        it.steps = 0
        for pk in (v1, v2):
            it.call(opl, ext, pkg=pk)
        got5: object = [[p.attrs["name"] for p in it._iterate(c)][1:] for c in captured]
    except Raised as r:
        got5 = f"raises {r.exc}"
    ctx.ob("R2", "sequence|two versions of one package through one extension instance", got5 == [["x"], ["x", "y"]],
           f"core.Base(x) loaded, then another tree core.Base(x, y = 0) through the same extension instance: synthesised parameter lists {got5}; "
           "expected [['x'], ['x', 'y']]", where(opl))
    it.stubs.pop(f"{M}.Class.mro", None)
    it.class_stubs.pop(f"{M}.Function", None)

    # ------------------------------------------------------------------ R3 label
    ctx.rule("R3", "a class is labelled `dataclass` when any class in its MRO (or itself, through the visitor's decorator table) is one")
    ok = any(isinstance(c.func, ast.Attribute) and c.func.attr == "add" and unparse(c.func.value).endswith(".labels") and c.args and getattr(c.args[0], "value", None) == "dataclass"
             for c in calls_in(sdi.node))
    ctx.ob("R3", key(sdi, "inherited-label"), ok, "a class inheriting from a dataclass is labelled as one", where(sdi))
    vm = prog.module("_griffe.agents.visitor").assigns.get("stdlib_decorators")
    ok = isinstance(vm, ast.Dict) and any(isinstance(k, ast.Constant) and k.value == "dataclasses.dataclass" and "dataclass" in unparse(v) for k, v in zip(vm.keys, vm.values))
    ctx.ob("R3", "decorator-label", ok, "the visitor labels @dataclasses.dataclass classes", "src/_griffe/agents/visitor.py")

    # ------------------------------------------------------------------ R4 always on
    ctx.rule("R4", "the dataclasses extension is always loaded and runs when a package is loaded: load_extensions adds it on every path that does "
                   "not already hold one; every exit of GriffeLoader.load passes _post_load, which fires on_package_loaded")
    le = prog.function("_griffe.extensions.base.load_extensions")
    # on behaviour: load_extensions evaluated with `_load_extension` replaced by a stand-in (instances pass through, the name "dataclasses" gives a
    # list with a fresh built-in instance): whatever the user passes, the container ends up with exactly one built-in DataclassesExtension
    dcl = prog.cls("_griffe.extensions.dataclasses.DataclassesExtension")
    ecl = prog.cls("_griffe.extensions.base.Extension")
    it4 = Interp(prog, max_depth=30)
    made: list[Obj] = []

    def fake_load(_i, spec):
        if spec == "dataclasses":
            made.append(Obj(dcl, {"__closed__": True}, label="built-in dataclasses extension"))
            return [made[-1]]
        return spec

    it4.stubs["_griffe.extensions.base._load_extension"] = fake_load
    user = Obj(ecl, {"__closed__": True}, label="user extension")
    own = Obj(dcl, {"__closed__": True}, label="dataclasses extension passed by the user")
    for label4, given in (("nothing", []), ("a user extension", [user]), ("two user extensions", [user, Obj(ecl, {"__closed__": True}, label="other")]),
                          ("the dataclasses extension itself", [own]), ("a user extension and the dataclasses extension", [user, own]),
                          ("a list of extensions from one specification", [[user, Obj(ecl, {"__closed__": True}, label="second of the list")]])):
        made.clear()
        try:
            cont = it4.call(le, *given)
            held = list(cont.attrs.get("_extensions", [])) if isinstance(cont, Obj) else None
        except Raised as r:
            held = f"raises {r.exc}"
        flat = [x for g_ in given for x in (g_ if isinstance(g_, list) else [g_])]
        builtin = [x for x in held if isinstance(x, Obj) and x.cls is dcl] if isinstance(held, list) else []
        good = isinstance(held, list) and len(builtin) == 1 and [x for x in held if x not in made] == flat and (own not in flat or builtin == [own])
        ctx.ob("R4", f"load_extensions|{label4}", good,
               f"load_extensions given {label4}: the container holds {[getattr(x, 'label', x) for x in held] if isinstance(held, list) else held}; expected what was given, in order, "
               "plus one built-in dataclasses extension unless one was given", where(le))
    ld = prog.function("_griffe.loader.GriffeLoader.load")
    cfgd = cfg_of(ld)
    rets = [x for x in cfgd.live_nodes() if x.kind == "return"]
    ok = bool(rets) and all(isinstance(r.expr, ast.Call) and dotted(r.expr.func) == "self._post_load" for r in rets)
    ctx.ob("R4", key(ld, "post-load-on-every-exit"), ok, "every successful exit of load() goes through _post_load", where(ld))
    pl = prog.function("_griffe.loader.GriffeLoader._post_load")
    ok = any(isinstance(c.func, ast.Attribute) and c.func.attr == "call" and c.args and getattr(c.args[0], "value", None) == "on_package_loaded" for c in calls_in(pl.node))
    ctx.ob("R4", key(pl, "fires-on_package_loaded"), ok, "_post_load fires on_package_loaded", where(pl))
    cfgp = cfg_of(pl)
    ev = [x for c in calls_in(pl.node) if isinstance(c.func, ast.Attribute) and c.func.attr == "call" and c.args and getattr(c.args[0], "value", None) == "on_package_loaded"
          for x in node_index(pl).get(id(c), [])]
    for what in ("expand_exports", "expand_wildcards"):
        pre = {x for c in calls_in(pl.node) if dotted(c.func) == f"self.{what}" for x in node_index(pl).get(id(c), [])}
        ok = bool(pre) and bool(ev) and all(cfgp.dominated_by_node(e, lambda y, pre=pre: y in pre) for e in ev)
        ctx.ob("R4", key(pl, f"{what}-before-event"), ok, f"{what} runs on every path before on_package_loaded fires (inherited dataclass bases reached through "
               "re-exports and star imports are resolvable when the constructor is synthesised)", where(pl))
    ctx.rule("R5", "the memoised per-class parameter list is never mutated: no variable bound to the result of an @cache function is the target of a "
                   "mutating call or augmented assignment")
    cached = {f.qualname for f in prog.functions.values() if any(d.split(".")[-1] in ("cache", "lru_cache", "cached_property") for d in f.decorators) and f.module.name == X}
    ctx.expect_min("R5", len(cached), 1)
    MUT = {"append", "extend", "insert", "pop", "remove", "clear", "sort", "reverse", "__iadd__"}
    for f in prog.functions.values():
        if f.module.name != X:
            continue
        bound = set()
        for s_ in walk_no_nested(f.node):
            if isinstance(s_, (ast.Assign, ast.AnnAssign)) and isinstance(s_.value, ast.Call) and prog.resolve(f.module, dotted(s_.value.func) or "") in cached:
                tgt = s_.targets[0] if isinstance(s_, ast.Assign) else s_.target
                if isinstance(tgt, ast.Name):
                    bound.add(tgt.id)
        changed = True
        while changed:  # plain copies `x = y` alias the memoised list too (flow-insensitive)
            changed = False
            for s_ in walk_no_nested(f.node):
                if isinstance(s_, (ast.Assign, ast.AnnAssign)) and isinstance(s_.value, ast.Name) and s_.value.id in bound:
                    tgt = s_.targets[0] if isinstance(s_, ast.Assign) else s_.target
                    if isinstance(tgt, ast.Name) and tgt.id not in bound:
                        bound.add(tgt.id)
                        changed = True
        bad = []
        for n_ in walk_no_nested(f.node):
            if isinstance(n_, ast.Call) and isinstance(n_.func, ast.Attribute) and n_.func.attr in MUT and isinstance(n_.func.value, ast.Name) and n_.func.value.id in bound:
                bad.append(n_)
            if isinstance(n_, ast.AugAssign) and isinstance(n_.target, ast.Name) and n_.target.id in bound:
                bad.append(n_)
            if isinstance(n_, ast.Call) and isinstance(n_.func, ast.Attribute) and n_.func.attr in MUT and isinstance(n_.func.value, ast.Call) \
                    and prog.resolve(f.module, dotted(n_.func.value.func) or "") in cached:
                bad.append(n_)
        ctx.ob("R5", key(f, "cached-result-not-mutated"), not bad, "results of memoised functions are only read" if not bad else
               f"`{norm(bad[0])}` mutates the list memoised by an @cache function: the base class's field list is polluted for every later subclass", where(f, bad[0] if bad else f.node),
               nontrivial=bool(bound))
    # (that on_package_loaded walks the package is what the R1 rows run)


def _root_cause(l1: str, l2: str) -> str:
    return f"{l1}+{l2}"
